#!/usr/bin/env python3
"""Generates /verif/MANIFEST.json from the table below (one entry per implemented check)."""
import json, os, sys

V = "/verif"
CHECKS = {
 "C01": ("exploration", "3.C01",
   "Bounded-exhaustive exploration on the real compiler and evaluator: every builder-accepted program of depth 1 (and planner-relevant depth 2) over the MPC-compilable alphabet plus curated sort/permutation/join/custom-op/call-iterate programs, crossed with all owner vectors, all 8 output subsets (plus the 8 output-party lists in non-ascending order on a reduced cross), 3 inline modes, boundary input vectors, 3 seeds and degenerate PRF tapes (all-zero, all-ones; for joins: two of the three Cuckoo hash functions identical); the revealed value / the sum of the three shares must equal plaintext evaluation.",
   "SimpleEvaluator on the source graph is the reference (tied to the documented semantics by C10); program depth <= 2, <= 3 inputs, small shapes; integer inputs from a boundary alphabet.",
   "bounded-exhaustive program x configuration x input x tape enumeration on the real compile+evaluate pipeline"),
 "C02": ("model_checking", "3.C02",
   "Exploration of the three-party execution of the real compiled graph (executor E1): each party evaluates every node with its own SimpleEvaluator on only its own data, junk for non-owned inputs/share slots from a junk alphabet, values cross parties only at Send-annotated nodes, failures are poison; every output party must end with the plaintext result, shared outputs must be neighbour-consistent and reconstruct.",
   "Execution rules are the runtime's documented ones; party schedules are not explored (dataflow program); both tiers execute the program space of C01's quick tier (thorough: every owner vector and output list of it, more inputs, full junk alphabet); executor bound to the library by conformance replays (global walker == Evaluator::evaluate_graph, three-party walker with full knowledge == global walker).",
   "explicit exploration of three-party protocol executions of the real compiled graph over junk/seed/owner/output alphabets"),
 "C03": ("model_checking", "3.C03",
   "Exhaustive enumeration of the protocol's random-tape space with the PRF idealised as a table of independent uniform entries, on the real compiled graph in three-party execution: for every observer the exact multiset of complete views over all tapes must be identical for any two other-party input vectors with equal observer inputs/output (perfect privacy) - bit-typed multiplicative protocols and 8-bit linear protocols.",
   "PRF idealisation bound by conformance replay; covers only bit-typed and 8-bit-linear protocol families (tape space of A2B/B2A, OT, truncation, sort, join is out of reach and NOT claimed).",
   "exhaustive random-tape enumeration of three-party executions, view-multiset comparison"),
 "C04": ("exploration", "3.C04",
   "Structural scan of every compiled/optimised context of the C01 program space plus protocols drawing several masks per key and bodies inlined 1..17 times (PRF counters pairwise distinct, non-zero, at two pipeline stages and after applying the numbering pass once more), the numbering pass on every small graph whose PRF nodes already carry counters, and exhaustive enumeration of small inlined graphs with Random/PRF/CuckooToPermutation/DecomposeSwitchingMap nodes given to the optimiser (no randomising node turned into a constant, merged, duplicated, or dropped while output-relevant).",
   "structural oracle only; semantic preservation by the optimiser is C06.",
   "bounded-exhaustive enumeration of compiler outputs and optimiser inputs with a structural oracle"),
 "C05": ("exploration", "3.C05",
   "Exhaustive on 8-bit types: all inputs of the documented range x all k x all 256 values of the protocol mask r (scripted PRF entry) x owner/output configurations, global and three-party; general divisor: all inputs x all 256 first-share values x scales; boundary-exhaustive on 16..128-bit types; public inputs exact.",
   "scripted PRF answers model the PRF as an arbitrary function; wider types boundary alphabets only.",
   "exhaustive input x random-mask enumeration on the real compiled truncation protocols"),
 "C06": ("exploration", "3.C06",
   "Bounded-exhaustive inlined graphs over the constructs the four optimiser passes rewrite x inputs, x 10 decoration variants, executed node by node before and after optimize_context with replayed randomness: mapped nodes equal, same output, input interface kept, Send annotations kept on same-valued nodes, stored types equal re-inferred types, reload and re-evaluate.",
   "generated graphs of depth <= 2-3 over a fixed alphabet; compiled contexts of the C01 quick space as the optimiser's real workload.",
   "bounded-exhaustive program enumeration with node-by-node differential execution"),
 "C07": ("exploration", "3.C07",
   "Exhaustive over vector lengths 0..40 x inline modes and overrides x body kinds (empty, general, associative, order-witness monoid, one-bit, small-state, random-drawing, nested) x witness inputs; inlined context must compute exactly what native Call/Iterate evaluation computes.",
   "the evaluator's native Call/Iterate is the oracle.",
   "bounded-exhaustive enumeration of lengths x modes x bodies x inputs"),
 "C08": ("exploration", "3.C08",
   "Every pair (thorough: triple) of library custom operations x parameterisations x argument types, used once/twice/nested, plus harness-defined user operations (named auxiliary graphs and nodes, self-nesting, several auxiliary graphs, a returned graph that is not the last one, a lawful partial Hash) in all pairs and nestings among themselves: run_instantiation_pass must succeed, distinct parameterisations must not collide or be shared, and the instantiated context must evaluate like a per-node reference walk.",
   "reference = each custom op instantiated alone (the configuration the repo's unit tests cover).",
   "bounded-exhaustive enumeration of operation combinations"),
 "C09": ("exploration", "3.C09",
   "Every primitive operation x parameter alphabet x argument-type alphabet offered to the real builder; accepted nodes evaluated on an input alphabet: no panic, every node value has exactly the inferred type's layout, accepted nodes evaluate on at least one admissible input; graph shapes (every step of a chain as the output node, also as Call/Iterate bodies) through the library's own graph walk; thorough adds all two-operation compositions.",
   "type/parameter alphabets bounded (rank <= 3, dims <= 3).",
   "bounded-exhaustive enumeration of typed one- and two-operation programs"),
 "C10": ("exploration", "3.C10",
   "One-operation graphs for every primitive operation x 11 scalar types x shapes up to rank 3-4 x parameter alphabets x extreme-value element patterns, compared with an independent reference interpreter written from the documented NumPy-style semantics; the reference itself is cross-checked against NumPy on exact Python integers in the thorough tier.",
   "reference interpreter trusted after NumPy cross-check; shapes with dims <= 3.",
   "bounded-exhaustive enumeration against a reference model (model conformance-checked against NumPy)"),
 "C11": ("model_checking", "3.C11",
   "Explicit-state BFS over API-call histories (57-action alphabet, 4 start states, tiny size limits so that rollback paths are reachable) executed on real Context/Graph/Node objects: well-formedness invariants and a reference model's dump in every state; every failing call leaves the dump unchanged and has no effect on any continuation (differential continuation). Two engines (in-crate BFS, stateright) must agree on state counts.",
   "depth bound 4-5 quick / 6-7 thorough (time-capped, deepest complete level reported); built with the repository's `fuzzing` feature for tiny limits.",
   "explicit-state breadth-first search over API histories with a reference model and differential continuation"),
 "C12": ("fault_enumeration", "3.C12",
   "Round trip of a corpus of contexts of every kind (incl. every assignment of names from a 3-letter alphabet to two graphs and their nodes); exhaustive enumeration of corruptions of valid serializations (every prefix, byte deletion, byte substitution of the envelope; every structural mutation of the payload JSON tree): each must be an Err or a well-formed context, never a panic.",
   "mutation alphabet fixed; seed contexts chosen to contain every table.",
   "exhaustive single-fault enumeration over serialized text and payload trees"),
 "C13": ("exploration", "3.C13",
   "Exhaustive for 8/16-bit scalars, boundary-exhaustive above; all getters x all types; bit arrays of every length <= 17 with all patterns; check_type against every layout; JSON round trip of nested typed values with printed numbers compared to the integers.",
   "native two's-complement arithmetic and an independent byte-layout oracle.",
   "exhaustive / boundary-exhaustive value enumeration"),
 "C14": ("exploration", "3.C14",
   "Reconstruction and per-party layout for a nested type alphabet x values x seeds; exact uniformity of held share pairs by running ALL 2^16 two-byte PRNG tapes x all secrets through the real sharing code (tape hook).",
   "uniformity exhaustive for bit/u8; wider types by the exact share law on boundary values.",
   "exhaustive random-tape enumeration through the real sharing code"),
 "C15": ("model_checking", "3.C15",
   "Exhaustive exploration of PRF/PRNG call histories across two evaluator instances (purity: every value equals a per-call fresh reference), validity of encodings for counters 0..4095, CuckooToPermutation on every small batch of Cuckoo tables (true permutations keeping the non-dummy cells), exact unbiasedness of bounded draws by enumerating all raw values through the real samplers (tape hook), also with a batch boundary of the byte stream inside the draw (split-tape hook), replay of generators.",
   "history depth 3-4; uniformity of PermutationFromPRF rests on the bounded-draw sampler.",
   "exhaustive call-history exploration plus exhaustive raw-randomness enumeration"),
 "C16": ("exploration", "3.C16",
   "All 8 comparison/min/max operations x signed/unsigned x widths 1..8 with ALL operand pairs, widths up to 128 with a bit-flip/boundary pair alphabet x 9 broadcasting layouts (incl. column-shaped operands [3,1,w], [4,1,w]x[w], [2,3,1,w]); oracle native integer comparison.",
   "widths > 8 boundary alphabets.",
   "exhaustive operand-pair enumeration"),
 "C17": ("exploration", "3.C17",
   "Binary adder, multiplexer, clip and long division: exhaustive operand pairs for small widths, carry-chain/boundary alphabets above, broadcasting layouts; oracle native arithmetic and the defining equations of floored division.",
   "widths > 8 boundary alphabets.",
   "exhaustive operand-pair enumeration"),
 "C18": ("exploration", "3.C18",
   "All key columns for small tables and every periodic key column for long tables (16..200 rows) against a stable-sort oracle, all integer key types, all permutations n <= 6, keys wider than a machine word (63..200 bits), compiled secure sort and permutation in global and three-party execution with scripted permutation tapes.",
   "exhaustive key columns only for n <= 5-12 rows; long tables with periodic keys only.",
   "exhaustive table / permutation enumeration"),
 "C19": ("exploration", "3.C19",
   "All pairs of small tables with nulls and unique live keys x 4 join types x masked/unmasked against a reference join written from the documentation; compiled join in global and three-party execution for owner configurations, also with two identical hash functions scripted.",
   "tables <= 3 rows, key domain of 4 values.",
   "exhaustive table-pair enumeration against a reference model"),
 "C20": ("exploration", "3.C20",
   "Every representable input of each documented domain (whole fixed-point grid) for each approximation x precisions (coarse 2..7, 10, 15)/iterations x initial approximations, compared with f64 evaluation under the tolerance the source itself states; compiled versions on a sub-grid (regression bound).",
   "tolerances are the repository's own stated bounds; compiled-vs-plaintext bound is a frozen regression bound.",
   "exhaustive grid sweep"),
}

def main():
    implemented = sys.argv[1:]  # ids to claim
    man = {
        "version": 1,
        "setup_cmd": "cd /verif/harness && CARGO_NET_OFFLINE=true cargo build --release --offline && CARGO_NET_OFFLINE=true CARGO_TARGET_DIR=target-limits cargo build --release --offline --features limits",
        "hooks": {
            "guard": "cargo feature `verif` of ciphercore-base (off by default)",
            "enable": "the harness crate /verif/harness depends on ciphercore-base with features = [\"verif\", \"stderr-to-log\"]; C11 is additionally built with the repository's own `fuzzing` feature (tiny size limits) via the harness feature `limits`",
            "baseline_off_cmd": "cd /repo && cargo nextest run --workspace --no-fail-fast --offline",
            "source_commits": ["7382bbb", "45c9bee"],
            "add_only": True,
        },
        "engines": [
            {"name": "E1 protocol executor", "path": "harness/src/exec.rs", "serves_properties": ["C01", "C02", "C03", "C05", "C06", "C18", "C19", "C20"], "kind_free_text": "node walker over the real compiled graph calling the real SimpleEvaluator::evaluate_node per node (global) or per node and party (three-party), with scripted PRNG/PRF answers"},
            {"name": "E2 program enumerator", "path": "harness/src/gen.rs", "serves_properties": ["C01", "C02", "C04", "C06"], "kind_free_text": "type-directed bounded enumeration of graphs; the real builder decides well-typedness"},
            {"name": "E3 reference interpreter", "path": "harness/src/props/c10/refsem.rs", "serves_properties": ["C10"], "kind_free_text": "independent NumPy-style modular semantics, cross-checked against NumPy"},
            {"name": "E4 history explorer", "path": "harness/src/props/c11.rs", "serves_properties": ["C11", "C15"], "kind_free_text": "explicit-state BFS over API-call histories on real objects (in-crate BFS + stateright)"},
            {"name": "E5 text/tree mutation enumerator", "path": "harness/src/props/c12.rs", "serves_properties": ["C12"], "kind_free_text": "every single fault of a serialized context"},
            {"name": "E6 scripted byte tape", "path": "/repo/ciphercore-base/src/random.rs (feature verif)", "serves_properties": ["C14", "C15"], "kind_free_text": "PRNG/PRF session fed from a caller-supplied tape so that all raw randomness of a small draw can be enumerated"},
        ],
        "checks": [],
        "notes": "All checks: ./check <ID> [--tier quick|thorough] [--replay FILE]; exit 0 held / 1 VIOLATION / 2 machinery error. Known findings: /verif/known_findings.json.",
        "not_applicable": [],
    }
    for pid in sorted(CHECKS):
        level, ref, text, note, tech = CHECKS[pid]
        if pid in implemented:
            man["checks"].append({
                "property_id": pid,
                "quick_cmd": f"./check {pid} --tier quick",
                "thorough_cmd": f"./check {pid} --tier thorough",
                "evidence_file": f"/verif/evidence/{pid}.json",
                "replay_cmd_template": f"./check {pid} --replay {{path}}",
                "engine": "vcheck (harness/)",
                "level_claimed": {"category": level, "text": text, "design_ref": "DESIGN.md section " + ref},
                "level_note": note,
                "technique": tech,
            })
        else:
            man["not_applicable"].append({"property_id": pid, "reason": "check under construction in this round (not a claim that the technique does not apply)"})
    json.dump(man, open(os.path.join(V, "MANIFEST.json"), "w"), indent=1)
    print("claimed:", [c["property_id"] for c in man["checks"]])

if __name__ == "__main__":
    main()
