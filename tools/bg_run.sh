#!/bin/bash
# usage (inside `vp run --with-repo -- tools/bg_run.sh <tier> [ids...]`): points the snapshot's harness at the
# snapshot of /repo ($VP_RUN_REPO) so that seed patches applied to /repo meanwhile do not disturb it, then runs the checks.
set -u
cd "$(dirname "$0")/.."
if [ -n "${VP_RUN_REPO:-}" ]; then sed -i "s#\"/repo/#\"$VP_RUN_REPO/#g" harness/Cargo.toml; fi
grep -n path harness/Cargo.toml
exec tools/run_all.sh "$@"
