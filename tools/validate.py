#!/usr/bin/env python3
"""Validates MANIFEST.json and evidence/*.json against the schemas in /root/.vp (run with python3-vt)."""
import json, glob, sys
import jsonschema
ok = True
m = json.load(open('/verif/MANIFEST.json'))
try:
    jsonschema.validate(m, json.load(open('/root/.vp/MANIFEST.schema.json')))
    print("MANIFEST ok:", len(m['checks']), "checks,", len(m.get('not_applicable', [])), "not applicable")
except Exception as e:
    ok = False; print("MANIFEST INVALID:", str(e)[:300])
es = json.load(open('/root/.vp/EVIDENCE.schema.json'))
for f in sorted(glob.glob('/verif/evidence/*.json')):
    try:
        e = json.load(open(f)); jsonschema.validate(e, es)
        c = e['coverage']
        print(f.split('/')[-1], e['tier'], e['level'], 'eval', c.get('evaluations'), 'distinct', c.get('distinct_nontrivial'), 'states', c.get('states'), 'exh', c.get('exhaustive'), 'wall', round(e['wall_s'], 1), 'viol', e.get('violations'))
    except Exception as ex:
        ok = False; print(f, "INVALID:", str(ex)[:300])
sys.exit(0 if ok else 1)
