#!/usr/bin/env python3
"""Merges the per-property staging files known_findings.d/*.json into the single committed
/verif/known_findings.json. Findings whose signature matches an entry of FIXED are recorded under
"fixed" (with the repairing commit) and suppress nothing; the others stay under "findings".
Run by hand after triage; checks never write this file."""
import json, glob, os

V = "/verif"
# signature prefix -> (commit, short description of the repair)
FIXED = {
    "C04:B:turned-into-constant": ("c282192", "PRF / PermutationFromPRF excluded from constant folding"),
    "C10:": ("4649772", "128-bit accessors in Stack/ArrayToVector/VectorToArray/Get/GetSlice/Concatenate/Gather"),
    "C18:Sort:plain:payload-128bit-truncated": ("4649772", "same root cause as C10 (evaluate_gather)"),
    "C18:Permutation:plain:128bit-truncated": ("4649772", "same root cause as C10 (evaluate_gather)"),
    "C18:Sort:compiled:128bit-payload:wrong": ("4649772", "same root cause as C10 (evaluate_gather on shares)"),
    "C08:name-collision:": ("c5e788e", "instantiation names now include every parameter"),
    "C17:mux:integer-choices:reversed-selection": ("c500967", "operands of the integer branch of Mux swapped back"),
    "C17:div:unsigned:wider-dividend": ("e8820e0", "quotient bit = carry OR dropped remainder bit"),
    "C17:div:rejected:single": ("5f0e839", "scalar bit types for rank-1 operands"),
    "C14:share_vector:error:array-bit": ("4a2d170", "shares drawn with get_random_value of the array type"),
}
# filled in when the batch fixes are cherry-picked
EXTRA = os.path.join(V, "tools", "fixed_extra.json")
if os.path.exists(EXTRA):
    for k, v in json.load(open(EXTRA)).items():
        FIXED[k] = tuple(v)

out = {
    "_comment": "Genuine defects of ciphercore. 'findings' = recorded rather than repaired: matched by signature, printed as KNOWN-FINDING, never written at run time. 'fixed' = repaired by a 'fix:' commit in /repo; these entries suppress nothing (the check reports the violation again if it ever returns).",
    "findings": [],
    "fixed": [{"property": "C04", "commit": "c282192", "signature": "C04:B:turned-into-constant:PRF", "what": "fixed: property=C04 c282192 optimize_context constant-folded PRF(iv,t) and PermutationFromPRF(iv,n) nodes whose key is a Constant node"}],
}
for f in sorted(glob.glob(os.path.join(V, "known_findings.d", "*.json"))):
    for e in json.load(open(f)).get("findings", []):
        sig = e.get("signature", "")
        hit = [k for k in FIXED if sig.startswith(k)]
        if hit:
            commit, how = FIXED[hit[0]]
            out["fixed"].append({"property": e["property"], "commit": commit, "signature": sig,
                                 "what": f"fixed: property={e['property']} {commit} {e.get('what','')}", "repair": how})
        else:
            out["findings"].append(e)
json.dump(out, open(os.path.join(V, "known_findings.json"), "w"), indent=1)
print("findings:", len(out["findings"]), "fixed:", len(out["fixed"]))
for e in out["findings"]:
    print("  ", e["property"], e["signature"][:110])
