#!/usr/bin/env python3
# usage: tools/seed_prompt.py C08 /tmp/seed-c08 ["extra hint"]  -> prints the sub-agent prompt (property text only)
import json,sys
pid,w=sys.argv[1],sys.argv[2]
extra=sys.argv[3] if len(sys.argv)>3 else ""
t=open('/verif/tools/seed_agent_prompt.md').read()
for l in open('/verif/properties.jsonl'):
    p=json.loads(l)
    if p['id']==pid:
        print(t.replace('{W}',w).replace('{ID}',pid).replace('{TITLE}',p['title']).replace('{STATEMENT}',p['statement']).replace('{EXTRA}',extra))
