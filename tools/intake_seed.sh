#!/bin/bash
# usage: tools/intake_seed.sh <NN> [name]   - verifies the seeded change delivered in /tmp/seed-cNN/SEED and files it under /verif/seeded/
# confirms in that scratch worktree: (1) the existing suite passes with the change, (2) the demo fails with it, (3) the demo passes without it
set -u
NN=$1; W=/tmp/seed-c$NN; NAME=${2:-c$NN}
cd $W || exit 2
[ -f SEED/patch.diff ] || { echo "no SEED/patch.diff"; exit 2; }
L=/tmp/intake-$NAME.log; : > $L
# make sure the tree currently has exactly the change applied
git checkout -q -- . ; git apply SEED/patch.diff || { echo "patch does not apply to the worktree HEAD" | tee -a $L; exit 1; }
mkdir -p ciphercore-base/tests; cp SEED/demo/seed_demo.rs ciphercore-base/tests/seed_demo.rs
SUITE=$(cargo nextest run --workspace --no-fail-fast --offline -E 'not binary(seed_demo)' 2>&1 | grep -E "Summary|FAIL " | tail -5)
echo "suite with change: $SUITE" | tee -a $L
DW=$(cargo test -p ciphercore-base --test seed_demo --offline 2>&1 | grep -E "^test result|error(\[|:)" | tail -2)
echo "demo with change: $DW" | tee -a $L
git apply -R SEED/patch.diff
DO=$(cargo test -p ciphercore-base --test seed_demo --offline 2>&1 | grep -E "^test result|error(\[|:)" | tail -2)
echo "demo without change: $DO" | tee -a $L
git apply SEED/patch.diff
ok=1
echo "$SUITE" | grep -q "453 passed" || ok=0
echo "$SUITE" | grep -q "FAIL " && ok=0
echo "$DW" | grep -q "FAILED" || ok=0
echo "$DO" | grep -q "test result: ok" || ok=0
if [ $ok = 1 ]; then
  D=/verif/seeded/$NAME; mkdir -p $D/demo
  cp SEED/patch.diff $D/; cp -r SEED/demo/. $D/demo/
  python3 - "$D" "$SUITE" "$DW" "$DO" <<'PY'
import json,sys
d=sys.argv[1]
m=json.load(open('SEED/meta.json'))
m['confirmed_by_lead']={'suite_with_change':sys.argv[2],'demo_with_change':sys.argv[3],'demo_without_change':sys.argv[4],
  'how':'tools/intake_seed.sh in the scratch worktree: cargo nextest run --workspace (existing suite) with the change; cargo test --test seed_demo with and without the change'}
json.dump(m,open(d+'/meta.json','w'),indent=1)
PY
  echo "INTAKE OK -> $D" | tee -a $L
else
  echo "INTAKE REJECTED" | tee -a $L
fi
