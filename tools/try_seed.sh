#!/bin/bash
# usage: tools/try_seed.sh <seed-dir-name> [tier] [check ids...]
# Applies /verif/seeded/<name>/patch.diff to /repo, runs the given checks (default: the seed's own property),
# records verdicts in /verif/seeded/<name>/result-<tier>.txt, and ALWAYS restores /repo afterwards.
set -u
NAME=$1; TIER=${2:-quick}; shift; shift || true
D=/verif/seeded/$NAME
[ -f $D/patch.diff ] || { echo "no $D/patch.diff"; exit 2; }
IDS=${@:-$(python3 -c "import json;print(json.load(open('$D/meta.json'))['property'])")}
if ! git -C /repo diff --quiet; then echo "/repo has uncommitted changes - refusing"; exit 2; fi
git -C /repo apply $D/patch.diff || { echo "patch does not apply"; exit 2; }
# evidence files written while the seed is applied are not evidence about the tree: restore the committed ones
trap 'git -C /repo checkout -- . ; git -C /repo clean -fdq -- ciphercore-base/tests 2>/dev/null; git -C /verif checkout -- evidence' EXIT
OUT=$D/result-$TIER.txt
echo "seed $NAME on /repo $(git -C /repo rev-parse --short HEAD), tier $TIER, $(date -u +%FT%TZ)" >> $OUT
for id in $IDS; do
  s=$(date +%s)
  res=$(cd /verif && ./check $id --tier $TIER 2>/dev/null | grep -E "^(OK|VIOLATION|DETAIL|MACHINERY)" | cut -c1-400)
  echo "== $id wall=$(( $(date +%s)-s ))s" | tee -a $OUT
  echo "$res" | tee -a $OUT
done
