#!/bin/bash
# runs every claimed check of the given tier sequentially; prints verdict lines and wall time
TIER=${1:-quick}; shift
IDS=${@:-$(python3 -c "import json;print(' '.join(c['property_id'] for c in json.load(open('/verif/MANIFEST.json'))['checks']))")}
for id in $IDS; do
  s=$(date +%s)
  out=$("$(dirname "$0")/../check" $id --tier $TIER 2>/dev/null | grep -E "^(OK|VIOLATION|KNOWN-FINDING|MACHINERY)" | cut -c1-220)
  rc=$?
  e=$(date +%s)
  echo "== $id wall=$((e-s))s"; echo "$out"
done
