//! C16 - comparison operations (Equal, NotEqual, LessThan, LessThanEqualTo, GreaterThan,
//! GreaterThanEqualTo, Min, Max) on bit strings equal native integer comparison.
//!
//! One graph per (operation, signedness, width, operand shapes, inline mode), built with the real
//! builder, instantiated and inlined with the real passes, evaluated with the real evaluator on
//! arrays that hold all operand pairs at once. Oracle: `u128` / sign-extended `i128` comparison.
pub mod bits;

use crate::common::Report;
use bits::*;
use ciphercore_base::custom_ops::CustomOperation;
use ciphercore_base::ops::comparisons::{
    Equal, GreaterThan, GreaterThanEqualTo, LessThan, LessThanEqualTo, NotEqual,
};
use ciphercore_base::ops::min_max::{Max, Min};
use rayon::prelude::*;
use serde_json::{json, Value as J};
use std::cmp::Ordering;

#[derive(Clone, Copy, PartialEq, Eq, Debug)]
enum Cmp {
    Eq,
    Ne,
    Lt,
    Le,
    Gt,
    Ge,
    Min,
    Max,
}

const ALL_OPS: [Cmp; 8] = [Cmp::Eq, Cmp::Ne, Cmp::Lt, Cmp::Le, Cmp::Gt, Cmp::Ge, Cmp::Min, Cmp::Max];

impl Cmp {
    fn name(&self) -> &'static str {
        match self {
            Cmp::Eq => "eq",
            Cmp::Ne => "ne",
            Cmp::Lt => "lt",
            Cmp::Le => "le",
            Cmp::Gt => "gt",
            Cmp::Ge => "ge",
            Cmp::Min => "min",
            Cmp::Max => "max",
        }
    }
    fn from_name(s: &str) -> Option<Cmp> {
        ALL_OPS.iter().copied().find(|o| o.name() == s)
    }
    /// Equal / NotEqual have no signedness parameter
    fn has_sign_flag(&self) -> bool {
        !matches!(self, Cmp::Eq | Cmp::Ne)
    }
    fn is_minmax(&self) -> bool {
        matches!(self, Cmp::Min | Cmp::Max)
    }
    fn custom(&self, signed: bool) -> CustomOperation {
        match self {
            Cmp::Eq => CustomOperation::new(Equal {}),
            Cmp::Ne => CustomOperation::new(NotEqual {}),
            Cmp::Lt => CustomOperation::new(LessThan { signed_comparison: signed }),
            Cmp::Le => CustomOperation::new(LessThanEqualTo { signed_comparison: signed }),
            Cmp::Gt => CustomOperation::new(GreaterThan { signed_comparison: signed }),
            Cmp::Ge => CustomOperation::new(GreaterThanEqualTo { signed_comparison: signed }),
            Cmp::Min => CustomOperation::new(Min { signed_comparison: signed }),
            Cmp::Max => CustomOperation::new(Max { signed_comparison: signed }),
        }
    }
}

/// the oracle: native comparison of the encoded integers
fn oracle(op: Cmp, signed: bool, w: u32, x: u128, y: u128) -> u128 {
    let ord = if signed { sext(x, w).cmp(&sext(y, w)) } else { x.cmp(&y) };
    match op {
        Cmp::Eq => (ord == Ordering::Equal) as u128,
        Cmp::Ne => (ord != Ordering::Equal) as u128,
        Cmp::Lt => (ord == Ordering::Less) as u128,
        Cmp::Le => (ord != Ordering::Greater) as u128,
        Cmp::Gt => (ord == Ordering::Greater) as u128,
        Cmp::Ge => (ord != Ordering::Less) as u128,
        Cmp::Min => {
            if ord == Ordering::Greater {
                y
            } else {
                x
            }
        }
        Cmp::Max => {
            if ord == Ordering::Greater {
                x
            } else {
                y
            }
        }
    }
}

#[derive(Clone, Debug)]
struct Spec {
    op: Cmp,
    signed: bool,
    w: u32,
    layout: &'static str,
    mode: &'static str,
    /// the thorough tier uses the larger pair alphabet for w > 8
    full: bool,
}

const LAYOUTS: [&str; 9] = ["paired", "outer", "single", "b3", "b3r", "b213", "c31", "c41s", "c2313"];

impl Spec {
    fn key(&self) -> String {
        format!(
            "{}:{}:w{}:{}:{}",
            self.op.name(),
            if self.signed { "signed" } else { "unsigned" },
            self.w,
            self.layout,
            self.mode
        )
    }
    fn json(&self) -> J {
        json!({"op": self.op.name(), "signed": self.signed, "w": self.w, "layout": self.layout, "mode": self.mode, "full": self.full})
    }
    fn from_json(j: &J) -> Option<Spec> {
        let layout = j.get("layout")?.as_str()?;
        let mode = j.get("mode")?.as_str()?;
        Some(Spec {
            op: Cmp::from_name(j.get("op")?.as_str()?)?,
            signed: j.get("signed")?.as_bool()?,
            w: j.get("w")?.as_u64()? as u32,
            layout: LAYOUTS.iter().copied().find(|l| *l == layout)?,
            mode: ["simple", "depth"].iter().copied().find(|m| *m == mode)?,
            full: j.get("full").and_then(|f| f.as_bool()).unwrap_or(false),
        })
    }
}

/// operand pairs of the "paired" layout: all 2^(2w) pairs for w <= 8, otherwise the pair alphabet
/// {all pairs of the value alphabet (equal, adjacent around 0 / 2^(w-1) / 2^w-1, all-ones/zero);
///  for every bit i, both orders: patterned base vs base with exactly bit i flipped; 2^i vs 0;
///  operands equal above bit i whose lower bits contradict bit i}
fn pair_list_full(w: u32) -> (Vec<u128>, Vec<u128>) {
    pair_list(w, true)
}

fn pair_list_quick(w: u32) -> (Vec<u128>, Vec<u128>) {
    pair_list(w, false)
}

fn pair_list(w: u32, full: bool) -> (Vec<u128>, Vec<u128>) {
    let mut a = vec![];
    let mut b = vec![];
    if w <= 8 {
        let m = 1u128 << w;
        for x in 0..m {
            for y in 0..m {
                a.push(x);
                b.push(y);
            }
        }
        return (a, b);
    }
    let v = value_alphabet(w);
    for x in v.iter() {
        for y in v.iter() {
            a.push(*x);
            b.push(*y);
        }
    }
    let m = mask(w);
    let p55 = 0x5555_5555_5555_5555_5555_5555_5555_5555u128 & m;
    for i in 0..w {
        let bit = 1u128 << i;
        let below = bit - 1;
        // (1) patterned base vs. the same with exactly bit i flipped
        // (2) adversarial: equal above bit i, x has bit i clear and ALL lower bits set, y has bit i set
        //     and all lower bits clear - the lower bits contradict the deciding bit
        // (3, thorough tier only) power of two vs. zero (all higher and lower bits equal and zero)
        let hi = p55 & !(bit | below);
        for (fam, (x, y)) in [(p55, p55 ^ bit), (hi | below, hi | bit), (0, bit)].into_iter().enumerate() {
            if fam == 2 && !full {
                continue;
            }
            a.push(x);
            b.push(y);
            a.push(y);
            b.push(x);
        }
    }
    (a, b)
}

fn run_job(spec: &Spec) -> JobOut {
    let mut out = JobOut::default();
    let w = spec.w;
    let sgn = if spec.signed { "signed" } else { "unsigned" };
    let sig = |kind: &str| format!("C16:{}:{}:{}:{}", spec.op.name(), sgn, kind, spec.layout);
    let (sa, sb, evals) = layout(w, spec.layout, if spec.full { pair_list_full } else { pair_list_quick });
    let built = match build(spec.op.custom(spec.signed), &[bit_t(&sa), bit_t(&sb)], spec.mode) {
        Ok(b) => b,
        Err(e) => {
            // the only documented restriction: signed operands need a sign bit and a magnitude bit
            if spec.signed && w == 1 && e.contains("less than 2 bits") {
                out.count("signed_w1_rejected_as_documented", 1);
            } else {
                out.violation(
                    &sig("rejected"),
                    format!("{} rejected for shapes {:?} x {:?}: {}", spec.key(), sa, sb, e),
                    json!({"spec": spec.json(), "error": e}),
                );
            }
            return out;
        }
    };
    out.distinct.push(spec.key());
    out.count("graphs_built", 1);
    out.count("graph_nodes", built.nodes);
    let la = &sa[..sa.len() - 1];
    let lb = &sb[..sb.len() - 1];
    let lead = bcast_shape(la, lb).expect("layout shapes broadcast");
    let n = numel(&lead);
    let exp_t = if spec.op.is_minmax() {
        let mut s = lead.clone();
        s.push(w as u64);
        bit_t(&s)
    } else {
        bit_t(&lead)
    };
    if built.out_t != exp_t {
        out.violation(
            &sig("type"),
            format!("{}: output type {} instead of {}", spec.key(), built.out_t, exp_t),
            json!({"spec": spec.json(), "observed_type": format!("{}", built.out_t), "expected_type": format!("{}", exp_t)}),
        );
        return out;
    }
    let broadcasting = la != lb;
    let (mut n_true, mut n_false, mut n_sign, mut n_pairs) = (0u64, 0u64, 0u64, 0u64);
    for (ei, (a, b)) in evals.iter().enumerate() {
        out.count("graph_evaluations", 1);
        let v = match eval(&built, &[pack_words(a, w), pack_words(b, w)]) {
            Ok(v) => v,
            Err(e) => {
                out.violation(
                    &sig("eval-error"),
                    format!("{}: evaluation failed: {}", spec.key(), e),
                    json!({"spec": spec.json(), "evaluation": ei, "a": hex_list(a), "b": hex_list(b), "error": e}),
                );
                continue;
            }
        };
        let got = if spec.op.is_minmax() { unpack_words(&v, n, w) } else { unpack_bits(&v, n) };
        let got = match got {
            Some(g) => g,
            None => {
                out.violation(
                    &sig("layout"),
                    format!("{}: output value does not have the layout of {}", spec.key(), exp_t),
                    json!({"spec": spec.json(), "evaluation": ei, "a": hex_list(a), "b": hex_list(b)}),
                );
                continue;
            }
        };
        for idx in 0..n {
            let x = a[bcast_index(&lead, idx, la)];
            let y = b[bcast_index(&lead, idx, lb)];
            let exp = oracle(spec.op, spec.signed, w, x, y);
            n_pairs += 1;
            if spec.op.is_minmax() {
                if x != y {
                    if exp == x {
                        n_true += 1
                    } else {
                        n_false += 1
                    }
                }
            } else if exp == 1 {
                n_true += 1
            } else {
                n_false += 1
            }
            if spec.signed && exp != oracle(spec.op, false, w, x, y) {
                n_sign += 1;
            }
            if got[idx] != exp {
                out.violation(
                    &sig("wrong"),
                    format!(
                        "{} w={} {:?}x{:?} ({}): {}({}, {}) = {} but integer comparison gives {}",
                        spec.op.name(), w, sa, sb, spec.mode, spec.op.name(),
                        if spec.signed { sext(x, w).to_string() } else { x.to_string() },
                        if spec.signed { sext(y, w).to_string() } else { y.to_string() },
                        hex(got[idx]), hex(exp)
                    ),
                    json!({"spec": spec.json(), "evaluation": ei, "element": idx,
                           "x": hex(x), "y": hex(y), "observed": hex(got[idx]), "expected": hex(exp),
                           "a": hex_list(a), "b": hex_list(b)}),
                );
            }
        }
        if ei == 0 && !a.is_empty() {
            out.samples.push(json!({"spec": spec.key(), "shapes": [sa, sb], "pairs_in_first_evaluation": n,
                "first_pair": [hex(a[0]), hex(b[0])], "observed": hex(got[0])}));
        }
    }
    out.count("evaluations", n_pairs);
    if spec.op.is_minmax() {
        out.count("minmax_first_operand_selected", n_true);
        out.count("minmax_second_operand_selected", n_false);
    } else {
        out.count("result_true", n_true);
        out.count("result_false", n_false);
    }
    out.count("sign_sensitive_pairs", n_sign);
    if broadcasting {
        out.count("broadcast_pairs", n_pairs);
    }
    if w <= 8 && (spec.layout == "paired" || spec.layout == "outer") {
        out.count("exhaustive_sweeps", 1);
    }
    out
}

fn widths(thorough: bool) -> Vec<u32> {
    if thorough {
        (1..=128).collect()
    } else {
        let mut v: Vec<u32> = (1..=16).collect();
        v.extend([31, 32, 33, 63, 64, 65, 127, 128]);
        v
    }
}

fn specs(thorough: bool) -> Vec<Spec> {
    let mut out = vec![];
    for w in widths(thorough) {
        // the evaluator costs ~100 ns per bit and node, so the big arrays are rationed in the quick tier
        let big_extra = if thorough { w <= 8 } else { w <= 6 };
        let depth = thorough || big_extra || [13, 32, 65].contains(&w);
        let mut cfgs = vec![
            ("paired", "simple"),
            ("single", "simple"),
            ("b3", "simple"),
            ("b3r", "simple"),
            ("b213", "simple"),
            ("c31", "simple"),
            ("c41s", "simple"),
        ];
        if thorough || [1, 2, 8, 13, 64].contains(&w) {
            cfgs.push(("c2313", "simple"));
        }
        if w > 8 || big_extra {
            cfgs.push(("outer", "simple"));
        }
        if depth {
            cfgs.push(("paired", "depth"));
        }
        for (layout, mode) in cfgs {
            for op in ALL_OPS {
                for signed in [false, true] {
                    if signed && !op.has_sign_flag() {
                        continue;
                    }
                    out.push(Spec { op, signed, w, layout, mode, full: thorough });
                }
            }
        }
    }
    out
}

pub fn run(r: &Report) -> i32 {
    let sp = specs(r.tier.thorough());
    let outs: Vec<JobOut> = sp.par_iter().map(run_job).collect();
    for o in outs {
        o.merge_into(r);
    }
    profile_report();
    r.extra("widths", json!(widths(r.tier.thorough())));
    r.finish(
        "exploration",
        "one graph per (operation in {eq,ne,lt,le,gt,ge,min,max}, signed/unsigned, width, operand-shape layout, \
         inline mode); layouts: paired [P,w]x[P,w], outer [M,1,w]x[1,M,w], single [w]x[w], b3 [3,w]x[w], b3r [w]x[3,w], c31 [3,1,w]x[3,1,w], c41s [4,1,w]x[w], c2313 [2,3,1,w]x[3,1,w], \
         b213 [2,1,w]x[1,3,w]; for w<=8 paired and outer hold ALL 2^(2w) operand pairs, for w>8 the pair alphabet \
         (all pairs of {0,1,2,-1,-2 around 0, 2^(w-1), 2^w-1; 0x55.., 0xAA..} plus, for every bit i and in both orders, \
         base vs base^bit_i, operands whose lower bits contradict the deciding bit i, and (thorough tier) 2^i vs 0); \
         quick tier: outer layout and depth-optimised inlining with all pairs only for w<=6 (thorough: w<=8); \
         evaluations = operand pairs compared with the oracle; distinct = graph configurations built and evaluated",
        true,
        &[
            "the evaluator is the library's SimpleEvaluator on the instantiated and inlined graph (plaintext semantics); secure compilation of these graphs is C02's subject",
            "signed comparison of 1-bit strings is rejected by the library as documented (validate_signed_arguments) and is not counted as a violation",
            "for widths above 8 operand values come from the boundary/bit-flip alphabet, not from all 2^(2w) pairs",
        ],
        &[
            "evaluations",
            "graphs_built",
            "exhaustive_sweeps",
            "result_true",
            "result_false",
            "minmax_first_operand_selected",
            "minmax_second_operand_selected",
            "sign_sensitive_pairs",
            "broadcast_pairs",
        ],
    )
}

pub fn replay(_r: &Report, rec: &J) -> i32 {
    let spec = match rec.get("case").and_then(|c| c.get("spec")).and_then(Spec::from_json) {
        Some(s) => s,
        None => {
            println!("MACHINERY-ERROR property=C16 replay record has no usable case.spec");
            return 2;
        }
    };
    let want = rec.get("signature").and_then(|s| s.as_str()).unwrap_or("");
    println!("replaying {} (all evaluations of this graph configuration)", spec.key());
    let out = run_job(&spec);
    let mut hit = 0;
    for (sig, what, case) in out.violations.iter() {
        println!("signature={} {}", sig, what);
        if let Some(e) = case.get("error") {
            println!("  expected=accepted and evaluated observed={}", e);
        } else {
            println!(
                "  expected={} observed={}",
                case.get("expected").or(case.get("expected_type")).unwrap_or(&J::Null),
                case.get("observed").or(case.get("observed_type")).unwrap_or(&J::Null)
            );
        }
        if want.is_empty() || sig == want {
            hit = 1;
        }
    }
    if hit == 1 {
        println!("REPRODUCED property=C16 signature={}", want);
    } else {
        println!("NOT-REPRODUCED property=C16 signature={}", want);
    }
    hit
}
