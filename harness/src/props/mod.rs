pub mod c01;
pub mod curated;
pub mod c02;
pub mod c03;
pub mod c04;
pub mod c05;
pub mod c06;
pub mod c07;
pub mod c08;
pub mod c09;
pub mod c10;
pub mod c11;
pub mod c12;
pub mod c13;
pub mod c14;
pub mod c15;
pub mod c16;
pub mod c17;
pub mod c18;
pub mod c19;
pub mod c20;

use crate::common::Report;

pub fn run(id: &str, r: &Report) -> i32 {
    match id {
        "C01" => c01::run(r),
        "C02" => c02::run(r),
        "C03" => c03::run(r),
        "C04" => c04::run(r),
        "C05" => c05::run(r),
        "C06" => c06::run(r),
        "C07" => c07::run(r),
        "C08" => c08::run(r),
        "C09" => c09::run(r),
        "C10" => c10::run(r),
        "C11" => c11::run(r),
        "C12" => c12::run(r),
        "C13" => c13::run(r),
        "C14" => c14::run(r),
        "C15" => c15::run(r),
        "C16" => c16::run(r),
        "C17" => c17::run(r),
        "C18" => c18::run(r),
        "C19" => c19::run(r),
        "C20" => c20::run(r),
        _ => {
            eprintln!("unknown property {}", id);
            2
        }
    }
}

pub fn replay(id: &str, r: &Report, rec: &serde_json::Value) -> i32 {
    match id {
        "C01" => c01::replay(r, rec),
        "C02" => c02::replay(r, rec),
        "C03" => c03::replay(r, rec),
        "C04" => c04::replay(r, rec),
        "C05" => c05::replay(r, rec),
        "C06" => c06::replay(r, rec),
        "C07" => c07::replay(r, rec),
        "C08" => c08::replay(r, rec),
        "C09" => c09::replay(r, rec),
        "C10" => c10::replay(r, rec),
        "C11" => c11::replay(r, rec),
        "C12" => c12::replay(r, rec),
        "C13" => c13::replay(r, rec),
        "C14" => c14::replay(r, rec),
        "C15" => c15::replay(r, rec),
        "C16" => c16::replay(r, rec),
        "C17" => c17::replay(r, rec),
        "C18" => c18::replay(r, rec),
        "C19" => c19::replay(r, rec),
        "C20" => c20::replay(r, rec),
        _ => {
            eprintln!("unknown property {}", id);
            2
        }
    }
}
