//! C10 - primitive operations follow their documented NumPy-style modular semantics.
//!
//! Bounded-exhaustive exploration: one-operation graphs for every primitive operation x scalar types x
//! shapes x parameter alphabets x operand value patterns are built with the REAL builder (which decides
//! what is well-typed), evaluated with the REAL SimpleEvaluator and compared with E3, the reference
//! interpreter in c10/refsem.rs (written from the doc comments and NumPy's rules, no shared code).
//! Thorough tier: ~20000 (op, params, operands, E3 result) cases are recomputed by NumPy on exact
//! Python integers (c10/numpy_oracle.py); a disagreement there is a machinery error.
mod fams;
mod fills;
mod real;
mod refsem;

use crate::common::{hash_str, Report};
use fams::*;
use rayon::prelude::*;
use real::*;
use refsem::*;
use serde_json::{json, Value as J};
use std::collections::BTreeMap;

// ------------------------------------------------------------------ rendering

fn signed_str(x: u128, st: St) -> String {
    if st.signed && (x >> (st.bits - 1)) & 1 == 1 {
        if st.bits == 128 {
            (x as i128).to_string()
        } else {
            ((x as i128) - (1i128 << st.bits)).to_string()
        }
    } else {
        x.to_string()
    }
}
fn show_rt(t: &RT) -> String {
    match t {
        RT::Scalar(st) => st.name(),
        RT::Array(sh, st) => format!("{}{:?}", st.name(), sh),
        RT::Tuple(v) => format!("({})", v.iter().map(show_rt).collect::<Vec<_>>().join(", ")),
        RT::Named(v) => format!("{{{}}}", v.iter().map(|(n, x)| format!("{}: {}", n, show_rt(x))).collect::<Vec<_>>().join(", ")),
        RT::Vector(n, e) => format!("vec{}<{}>", n, show_rt(e)),
    }
}
fn show_rv(v: &RV) -> J {
    match v {
        RV::A(a) => {
            let vals: Vec<String> = a.data.iter().take(96).map(|x| signed_str(*x, a.st)).collect();
            json!({"type": show_rt(&a.rt()), "elements": vals})
        }
        RV::Tuple(vs) | RV::Vector(_, vs) => J::Array(vs.iter().map(show_rv).collect()),
        RV::Named(vs) => J::Array(vs.iter().map(|x| json!({x.0.clone(): show_rv(&x.1)})).collect()),
    }
}
fn leaves_of<'a>(v: &'a RV, out: &mut Vec<&'a Arr>) {
    match v {
        RV::A(a) => out.push(a),
        RV::Tuple(vs) | RV::Vector(_, vs) => vs.iter().for_each(|x| leaves_of(x, out)),
        RV::Named(vs) => vs.iter().for_each(|x| leaves_of(&x.1, out)),
    }
}
/// observed == expected with every 128-bit element cut to its low 64 bits (and they do differ)?
fn lost_high_bits(exp: &RV, obs: &RV) -> bool {
    let (mut le, mut lo) = (vec![], vec![]);
    leaves_of(exp, &mut le);
    leaves_of(obs, &mut lo);
    if le.len() != lo.len() {
        return false;
    }
    for (e, o) in le.iter().zip(lo.iter()) {
        if e.st != o.st || e.shape != o.shape || e.data.len() != o.data.len() {
            return false;
        }
        for (x, y) in e.data.iter().zip(o.data.iter()) {
            if x != y && (e.st.bits != 128 || *y != (*x & u64::MAX as u128)) {
                return false;
            }
        }
    }
    true
}
fn st_class(v: &RV) -> &'static str {
    let mut l = vec![];
    leaves_of(v, &mut l);
    let mx = l.iter().map(|a| a.st.bits).max().unwrap_or(0);
    match mx {
        0 => "empty",
        1 => "bit",
        128 => "int128",
        _ => "int<=64",
    }
}

// ------------------------------------------------------------------ one evaluation

enum Verdict {
    Match,
    ExpectedError,
    Viol { kind: String, what: String, expected: J, observed: J },
}

fn check_one(b: &Built, op: &Op, operands: &[RV], exp: &Result<RV, RefErr>) -> Verdict {
    let obs = evaluate(b, operands);
    let name = op.name();
    match (exp, obs) {
        (_, Obs::Panic(p)) => Verdict::Viol {
            kind: "panic".into(),
            what: format!("{}: the evaluator panics", name),
            expected: match exp {
                Ok(e) => show_rv(e),
                Err(e) => json!(format!("{:?}", e)),
            },
            observed: json!(format!("panic: {}", p)),
        },
        (Ok(e), Obs::Val(v)) => {
            let et = type_of(e);
            if et != b.out {
                return Verdict::Viol {
                    kind: "result-type-mismatch".into(),
                    what: format!("{}: the node type {} differs from the documented result type {}", name, show_rt(&b.out), show_rt(&et)),
                    expected: json!(show_rt(&et)),
                    observed: json!(show_rt(&b.out)),
                };
            }
            match from_value(&v, &b.out) {
                None => Verdict::Viol {
                    kind: "bad-layout".into(),
                    what: format!("{}: the result value does not have the byte layout of its type {}", name, show_rt(&b.out)),
                    expected: show_rv(e),
                    observed: json!("<bad layout>"),
                },
                Some(o) => {
                    if o == *e {
                        Verdict::Match
                    } else if lost_high_bits(e, &o) {
                        Verdict::Viol {
                            kind: "128bit-high-bits-lost".into(),
                            what: format!("{}: 128-bit elements come back reduced to their low 64 bits", name),
                            expected: show_rv(e),
                            observed: show_rv(&o),
                        }
                    } else {
                        Verdict::Viol {
                            kind: format!("wrong-result:{}", st_class(e)),
                            what: format!("{}: result differs from the documented semantics", name),
                            expected: show_rv(e),
                            observed: show_rv(&o),
                        }
                    }
                }
            }
        }
        (Ok(e), Obs::Err(m)) => Verdict::Viol {
            kind: format!("error-on-valid-input:{}", st_class(e)),
            what: format!("{}: evaluation of a well-typed node on valid data fails: {}", name, m),
            expected: show_rv(e),
            observed: json!(format!("error: {}", m)),
        },
        (Err(RefErr::Data(_)), Obs::Err(_)) => Verdict::ExpectedError,
        (Err(RefErr::Data(d)), Obs::Val(v)) => Verdict::Viol {
            kind: "no-error-on-invalid-data".into(),
            what: format!("{}: data violating a documented precondition ({}) is not refused", name, d),
            expected: json!(format!("error ({})", d)),
            observed: from_value(&v, &b.out).map(|o| show_rv(&o)).unwrap_or(json!("<value>")),
        },
        (Err(e), o) => Verdict::Viol {
            kind: "accepted-but-undefined".into(),
            what: format!("{}: the builder accepts a combination for which the documentation defines no result ({:?})", name, e),
            expected: json!(format!("{:?}", e)),
            observed: match o {
                Obs::Val(v) => from_value(&v, &b.out).map(|o| show_rv(&o)).unwrap_or(json!("<value>")),
                Obs::Err(m) => json!(format!("error: {}", m)),
                Obs::Panic(p) => json!(format!("panic: {}", p)),
            },
        },
    }
}

// ------------------------------------------------------------------ one graph case

fn operand_sets(c: &GCase) -> Vec<Vec<RV>> {
    match &c.plan {
        Plan::Gen(mode) => fills::fills(&c.args, *mode, c.bx).iter().map(|f| fills::operands(&c.args, f)).collect(),
        Plan::Explicit(v) => v.clone(),
        Plan::ExplicitAt(i, vals, mode) => {
            let base: Vec<Vec<RV>> =
                fills::fills(&c.args, *mode, c.bx).iter().map(|f| fills::operands(&c.args, f)).collect();
            let mut out = vec![];
            for v in vals {
                for b in base.iter() {
                    let mut o = b.clone();
                    o[*i] = v.clone();
                    out.push(o);
                }
            }
            out
        }
    }
}

#[derive(Default)]
struct CaseOut {
    accepted: bool,
    input_rejected: bool,
    build_other: Option<String>,
    evals: u64,
    matches: u64,
    expected_errors: u64,
    viol_evals: u64,
    above64: u64,
    nontrivial: Vec<u64>,
    viols: Vec<(String, String, J)>,
    /// (signature, index of the operand set): the record is rebuilt at merge time only for a new signature
    lazy_viols: Vec<(String, usize)>,
    sample: Option<J>,
    rej_defined: Option<J>,
    flags: Vec<&'static str>,
}

fn has_nonzero(v: &RV) -> bool {
    let mut l = vec![];
    leaves_of(v, &mut l);
    l.iter().any(|a| a.data.iter().any(|x| *x != 0))
}
fn any_above64(vs: &[RV]) -> bool {
    let mut l = vec![];
    vs.iter().for_each(|v| leaves_of(v, &mut l));
    l.iter().any(|a| a.data.iter().any(|x| *x > u64::MAX as u128))
}

fn case_json(c: &GCase, operands: &[RV], expected: &J, observed: &J) -> J {
    json!({
        "op": serde_json::to_value(&c.op).unwrap(),
        "arg_types": serde_json::to_value(&c.args).unwrap(),
        "arg_types_readable": c.args.iter().map(show_rt).collect::<Vec<_>>(),
        "operands": serde_json::to_value(operands).unwrap(),
        "operands_readable": operands.iter().map(show_rv).collect::<Vec<_>>(),
        "expected": expected,
        "observed": observed,
    })
}

fn run_case(c: &GCase, want_sample: bool) -> CaseOut {
    let mut o = CaseOut::default();
    let sets = operand_sets(c);
    let first_exp = sets.first().map(|s| eval(&c.op, s));
    let name = c.op.name();
    let b = match build(&c.op, &c.args) {
        Ok(b) => b,
        Err(BuildErr::Input(_)) => {
            o.input_rejected = true;
            return o;
        }
        Err(BuildErr::Op(m)) => {
            if let Some(Ok(_)) | Some(Err(RefErr::Data(_))) = first_exp {
                o.rej_defined = Some(json!({"op": format!("{:?}", c.op), "arg_types": c.args.iter().map(show_rt).collect::<Vec<_>>(), "builder_says": m}));
            }
            return o;
        }
        Err(BuildErr::Other(m)) => {
            o.build_other = Some(m.clone());
            o.viols.push((
                format!("C10:{}:graph-construction-failure", name),
                format!("{}: graph construction fails after the node was accepted: {}", name, m),
                case_json(c, &[], &json!(null), &json!(m)),
            ));
            return o;
        }
    };
    o.accepted = true;
    // non-vacuity flags
    match &c.op {
        Op::Add | Op::Subtract | Op::Multiply | Op::MixedMultiply | Op::Stack(_) => {
            let shapes: Vec<String> = c.args.iter().map(|t| match t {
                RT::Array(s, _) => format!("{:?}", s),
                _ => "s".into(),
            }).collect();
            if shapes.iter().any(|s| *s != shapes[0]) {
                o.flags.push("broadcasting_graphs_accepted");
            }
        }
        Op::GetSlice(s) => {
            if s.iter().any(|x| matches!(x, Sl::Sub(_, _, Some(st)) if *st < 0)) {
                o.flags.push("negative_step_slices_accepted");
            }
            if s.contains(&Sl::Ellipsis) {
                o.flags.push("ellipsis_slices_accepted");
            }
        }
        Op::Dot | Op::Matmul => {
            if c.args.iter().any(|t| matches!(t, RT::Array(s, _) if s.len() == 1)) {
                o.flags.push("rank1_dot_matmul_graphs_accepted");
            }
        }
        Op::Gemm(_, _) => {
            if c.args.iter().any(|t| matches!(t, RT::Array(s, _) if s.len() > 2)) {
                o.flags.push("gemm_batch_graphs_accepted");
            }
        }
        _ => {}
    }
    let key = hash_str(&serde_json::to_string(&(&c.op, &c.args)).unwrap());
    for (fi, ops) in sets.iter().enumerate() {
        let exp = if fi == 0 { first_exp.clone().unwrap() } else { eval(&c.op, ops) };
        o.evals += 1;
        if any_above64(ops) {
            o.above64 += 1;
        }
        match check_one(&b, &c.op, ops, &exp) {
            Verdict::Match => {
                o.matches += 1;
                if let Ok(e) = &exp {
                    if has_nonzero(e) {
                        o.nontrivial.push(key ^ (fi as u64 + 1).wrapping_mul(0x9E3779B97F4A7C15));
                    }
                    if want_sample && o.sample.is_none() {
                        o.sample = Some(json!({"op": format!("{:?}", c.op), "operands": ops.iter().map(show_rv).collect::<Vec<_>>(), "result": show_rv(e)}));
                    }
                }
            }
            Verdict::ExpectedError => o.expected_errors += 1,
            Verdict::Viol { kind, .. } => {
                o.viol_evals += 1;
                let sig = format!("C10:{}:{}", name, kind);
                if !o.lazy_viols.iter().any(|v| v.0 == sig) {
                    o.lazy_viols.push((sig, fi));
                }
            }
        }
    }
    o
}

/// re-executes operand set fi of a case and returns (what, record) of its violation
fn violation_record(c: &GCase, fi: usize) -> Option<(String, J)> {
    let sets = operand_sets(c);
    let ops = sets.get(fi)?;
    let b = build(&c.op, &c.args).ok()?;
    let exp = eval(&c.op, ops);
    match check_one(&b, &c.op, ops, &exp) {
        Verdict::Viol { what, expected, observed, .. } => Some((what, case_json(c, ops, &expected, &observed))),
        _ => None,
    }
}

// ------------------------------------------------------------------ NumPy cross-check of E3

fn numpy_eligible(op: &Op, args: &[RT]) -> bool {
    let arrays_only = args.iter().all(|t| matches!(t, RT::Scalar(_) | RT::Array(_, _)));
    match op {
        Op::Repeat(_) | Op::Zip | Op::CreateTuple | Op::TupleGet(_) | Op::CreateNamedTuple(_) | Op::NamedTupleGet(_)
        | Op::CreateVector(_) | Op::VectorGet | Op::Constant(_) => false,
        Op::Reshape(t) => arrays_only && matches!(t, RT::Scalar(_) | RT::Array(_, _)),
        Op::Zeros(t) | Op::Ones(t) => matches!(t, RT::Scalar(_) | RT::Array(_, _)),
        Op::VectorToArray => true,
        _ => arrays_only,
    }
}

fn select_numpy(cases: &[GCase], accepted: &[usize], quota: usize, out: &mut Vec<J>) {
    let elig: Vec<usize> = accepted.iter().cloned().filter(|i| numpy_eligible(&cases[*i].op, &cases[*i].args)).collect();
    if elig.is_empty() {
        return;
    }
    let mut taken = 0;
    let mut round = 0usize;
    while taken < quota && round < 64 {
        let want = quota - taken;
        let step = (elig.len() / want.max(1)).max(1);
        let mut any = false;
        for (ord, i) in elig.iter().step_by(step).enumerate() {
            if taken >= quota {
                break;
            }
            let c = &cases[*i];
            let sets = operand_sets(c);
            // a different operand set in every round, spread over the sets
            let n = sets.len();
            if round >= n {
                continue;
            }
            let si = (round * 7 + ord * 3) % n;
            if let Ok(e) = eval(&c.op, &sets[si]) {
                out.push(json!({
                    "id": out.len(),
                    "op": serde_json::to_value(&c.op).unwrap(),
                    "args": serde_json::to_value(&sets[si]).unwrap(),
                    "expect": serde_json::to_value(&e).unwrap(),
                }));
                taken += 1;
                any = true;
            }
        }
        if !any {
            break;
        }
        round += 1;
    }
}

/// returns Err(message) on machinery problems, Ok((validated, skipped)) otherwise
fn run_numpy(cases: &[J]) -> Result<(u64, u64), String> {
    let dir = std::env::temp_dir();
    let inp = dir.join(format!("c10-numpy-{}-in.json", std::process::id()));
    let outp = dir.join(format!("c10-numpy-{}-out.json", std::process::id()));
    std::fs::write(&inp, serde_json::to_string(&J::Array(cases.to_vec())).unwrap()).map_err(|e| e.to_string())?;
    let script = concat!(env!("CARGO_MANIFEST_DIR"), "/src/props/c10/numpy_oracle.py");
    let res = std::process::Command::new("python3-vt").arg(script).arg(&inp).arg(&outp).output();
    let _ = std::fs::remove_file(&inp);
    let res = res.map_err(|e| format!("cannot start python3-vt: {}", e))?;
    if !res.status.success() {
        let _ = std::fs::remove_file(&outp);
        return Err(format!("numpy oracle failed: {}", String::from_utf8_lossy(&res.stderr).chars().take(600).collect::<String>()));
    }
    let txt = std::fs::read_to_string(&outp).map_err(|e| e.to_string())?;
    let _ = std::fs::remove_file(&outp);
    let j: J = serde_json::from_str(&txt).map_err(|e| e.to_string())?;
    let mism = j["mismatches"].as_array().cloned().unwrap_or_default();
    if !mism.is_empty() {
        return Err(format!("E3 and NumPy disagree on {} cases, first: {}", mism.len(), mism[0]));
    }
    Ok((j["validated"].as_u64().unwrap_or(0), j["skipped"].as_u64().unwrap_or(0)))
}

// ------------------------------------------------------------------ driver

type Fam = (&'static str, Box<dyn Fn(&Knobs) -> Vec<GCase>>);

fn families() -> Vec<Fam> {
    vec![
        ("add", Box::new(|k| fam_arith(k, Op::Add))),
        ("subtract", Box::new(|k| fam_arith(k, Op::Subtract))),
        ("multiply", Box::new(|k| fam_arith(k, Op::Multiply))),
        ("mixed_multiply", Box::new(|k| fam_mixed(k))),
        ("dot", Box::new(|k| fam_dot_matmul(k, Op::Dot))),
        ("matmul", Box::new(|k| fam_dot_matmul(k, Op::Matmul))),
        ("gemm", Box::new(|k| fam_gemm(k))),
        ("batch_products", Box::new(|k| fam_batch_products(k))),
        ("sum", Box::new(|k| fam_sum(k))),
        ("cumsum", Box::new(|k| fam_cumsum(k))),
        ("permute_axes", Box::new(|k| fam_permute(k))),
        ("get", Box::new(|k| fam_get(k))),
        ("get_slice_rank1", Box::new(|k| fam_getslice(k, 0))),
        ("get_slice_rank2", Box::new(|k| fam_getslice(k, 1))),
        ("get_slice_rank3", Box::new(|k| fam_getslice(k, 2))),
        ("get_slice_rank4", Box::new(|k| fam_getslice(k, 3))),
        ("gather", Box::new(|k| fam_gather(k))),
        ("reshape", Box::new(|k| fam_reshape(k))),
        ("stack2", Box::new(|k| fam_stack(k, 0))),
        ("stack_n", Box::new(|k| fam_stack(k, 1))),
        ("concatenate", Box::new(|k| fam_concat(k))),
        ("vectors", Box::new(|k| fam_vectors(k))),
        ("tuples", Box::new(|k| fam_tuples(k))),
        ("a2b_b2a", Box::new(|k| fam_a2b_b2a(k))),
        ("truncate", Box::new(|k| fam_truncate(k))),
        ("constants", Box::new(|k| fam_constants(k))),
        ("permutations", Box::new(|k| fam_perms(k))),
        ("segment_cumsum", Box::new(|k| fam_segcumsum(k))),
    ]
}

const ALL_OPS: [&str; 35] = [
    "Add", "Subtract", "Multiply", "MixedMultiply", "Dot", "Matmul", "Gemm", "Sum", "CumSum", "PermuteAxes", "Get",
    "GetSlice", "Gather", "Reshape", "Stack", "Concatenate", "Repeat", "Zip", "ArrayToVector", "VectorToArray",
    "CreateTuple", "TupleGet", "CreateNamedTuple", "NamedTupleGet", "CreateVector", "VectorGet", "A2B", "B2A", "Truncate",
    "Zeros", "Ones", "Constant", "InversePermutation", "ApplyPermutation", "SegmentCumSum",
];

fn knobs(r: &Report) -> Knobs {
    if r.tier.thorough() {
        Knobs { thorough: true, rmax: 4, bx_arith: 12, bx_struct: 8, bx_mixed: 8 }
    } else {
        Knobs { thorough: false, rmax: 3, bx_arith: 8, bx_struct: 4, bx_mixed: 4 }
    }
}

pub fn run(r: &Report) -> i32 {
    let k = knobs(r);
    let only = std::env::var("C10_ONLY").ok();
    let time_cap = if k.thorough { 13.0 * 60.0 } else { 55.0 };
    // op -> [graphs tried, graphs accepted, evaluations, matching, violating evaluations]
    let mut per_op: BTreeMap<String, [u64; 5]> = BTreeMap::new();
    let mut np_cases: Vec<J> = vec![];
    let mut rej_examples: Vec<J> = vec![];
    let mut fam_times: Vec<J> = vec![];
    let mut seen_dbg: Vec<String> = vec![];
    let mut rej_seen: Vec<String> = vec![];
    let mut sigs_seen: Vec<String> = vec![];
    for (fname, f) in families() {
        if let Some(o) = &only {
            if !fname.starts_with(o.as_str()) {
                continue;
            }
        }
        if r.elapsed() > time_cap {
            r.cap_hit(&format!("time cap reached before family {}", fname));
            continue;
        }
        let t0 = r.elapsed();
        let cases = f(&k);
        let outs: Vec<CaseOut> = cases.par_iter().enumerate().map(|(i, c)| run_case(c, i < 40)).collect();
        let mut accepted_idx = vec![];
        for (i, (c, o)) in cases.iter().zip(outs.into_iter()).enumerate() {
            let e = per_op.entry(c.op.name().to_string()).or_insert([0; 5]);
            e[0] += 1;
            r.count("graphs_tried", 1);
            if o.input_rejected {
                r.count("operand_types_refused_as_inputs", 1);
            }
            if o.accepted {
                e[1] += 1;
                accepted_idx.push(i);
                r.count("graphs_accepted", 1);
            } else if o.build_other.is_none() && !o.input_rejected {
                r.count("graphs_refused_by_builder", 1);
            }
            e[2] += o.evals;
            e[3] += o.matches;
            e[4] += o.viol_evals;
            r.count("evaluations", o.evals);
            r.count("results_equal_to_reference", o.matches);
            r.count("documented_data_errors_reported", o.expected_errors);
            r.count("violating_evaluations", o.viol_evals);
            r.count("evaluations_with_elements_above_2_64", o.above64);
            for fl in o.flags.iter() {
                r.count(fl, 1);
            }
            for h in o.nontrivial.iter() {
                r.distinct(*h);
            }
            if let Some(s) = o.sample {
                r.sample(s);
            }
            if let Some(x) = o.rej_defined {
                r.count("builder_refused_but_reference_defined", 1);
                let cls = format!("{}|{}", c.op.name(), crate::common::stable_msg(x["builder_says"].as_str().unwrap_or("")));
                if rej_examples.len() < 40 && !rej_seen.contains(&cls) {
                    rej_seen.push(cls);
                    rej_examples.push(x);
                }
            }
            let mut all_viols = o.viols;
            for (sig, fi) in o.lazy_viols {
                if sigs_seen.contains(&sig) {
                    all_viols.push((sig, String::new(), J::Null));
                } else {
                    match violation_record(c, fi) {
                        Some((what, case)) => {
                            sigs_seen.push(sig.clone());
                            all_viols.push((sig, what, case));
                        }
                        None => {
                            println!("MACHINERY-ERROR property=C10 violation {} did not reproduce when re-executed (non-deterministic evaluation?)", sig);
                            return 2;
                        }
                    }
                }
            }
            for (sig, what, case) in all_viols {
                if std::env::var("C10_DEBUG").is_ok() && !seen_dbg.contains(&sig) {
                    seen_dbg.push(sig.clone());
                    eprintln!("DEBUG {} | {} | types {} | operands {} | expected {} | observed {}", sig, what, case["arg_types_readable"], case["operands_readable"], case["expected"], case["observed"]);
                }
                r.violation(&sig, &what, case);
            }
        }
        if k.thorough {
            select_numpy(&cases, &accepted_idx, 800, &mut np_cases);
        }
        fam_times.push(json!({"family": fname, "graphs": cases.len(), "wall_s": ((r.elapsed() - t0) * 10.0).round() / 10.0}));
    }
    r.extra("per_operation_[graphs_tried,graphs_accepted,evaluations,equal,violating]", json!(per_op));
    r.extra("builder_refused_but_reference_defined_examples", J::Array(rej_examples));
    r.extra("families", J::Array(fam_times));
    if only.is_none() {
        for op in ALL_OPS {
            let e = per_op.get(op).cloned().unwrap_or([0; 5]);
            if e[1] == 0 || e[2] == 0 {
                println!("MACHINERY-ERROR property=C10 vacuous: operation {} has no accepted graph / no evaluation", op);
                return 2;
            }
        }
    }
    if k.thorough {
        match run_numpy(&np_cases) {
            Ok((n, skipped)) => {
                r.count("refmodel_cases_validated_by_numpy", n);
                r.count("refmodel_cases_not_expressible_in_numpy", skipped);
            }
            Err(m) => {
                println!("MACHINERY-ERROR property=C10 {}", m);
                return 2;
            }
        }
    }
    let mut keys = vec![
        "evaluations",
        "graphs_accepted",
        "graphs_refused_by_builder",
        "results_equal_to_reference",
        "evaluations_with_elements_above_2_64",
    ];
    if only.is_none() {
        keys.extend_from_slice(&[
            "broadcasting_graphs_accepted",
            "negative_step_slices_accepted",
            "ellipsis_slices_accepted",
            "rank1_dot_matmul_graphs_accepted",
            "gemm_batch_graphs_accepted",
            "documented_data_errors_reported",
        ]);
    }
    if k.thorough {
        keys.push("refmodel_cases_validated_by_numpy");
    }
    r.finish(
        "exploration",
        "one-operation graphs: 35 primitive operations x 11 scalar types x shapes of rank<=3 (thorough: 4) with dims in {1,2,3} \
         (+ a few longer rank-1 arrays) x parameter alphabets (axes subsets/orders, axis permutations, index prefixes, slices over \
         {SingleIndex(0,-1,2), SubArray(None|0|1|-1, None|2|-1, None|1|2|-1|-2), Ellipsis}, stack outer shapes, gemm flags, \
         truncation scales, all permutations / injective index arrays) x operand fills (ramps with distinct elements, the element \
         alphabet {0,1,2,-1,min,max,2^63,2^64,2^64+1,2^100+5,2^127} reduced to the type in rotating positions, all alphabet pairs \
         for binary arithmetic on rank<=1 (thorough: rank<=2) operands; bit operands: all values up to 8/4 (thorough 12/8) elements for arithmetic/structural \
         operations, 8 fixed patterns above); the real builder decides well-typedness; distinct = (graph, fill) pairs whose \
         expected result has a non-zero element and that compared equal",
        true,
        &[
            "Truncate on negative values: the doc says 'divides by scale'; the quotient is taken rounded toward zero (the convention stated in the evaluator's comment)",
            "A2B/B2A bit order: least significant bit first (not stated in the doc; the only order consistent with the little-endian value layout)",
            "ApplyPermutation direction: result[i] = a[p[i]] (NumPy a[p]); inverse: result[p[i]] = a[i]; the doc only says 'applies a permutation'",
            "slices that NumPy accepts by clamping out-of-range bounds but the builder refuses are counted (builder_refused_but_reference_defined), not reported: the builder defines admissibility",
            "rank-4 operand pairs of Dot/Matmul/Gemm are generated only where the reference semantics is defined (all pairs up to rank 3)",
        ],
        &keys,
    )
}

pub fn replay(_r: &Report, rec: &J) -> i32 {
    let case = &rec["case"];
    let op: Op = match serde_json::from_value(case["op"].clone()) {
        Ok(x) => x,
        Err(e) => {
            println!("MACHINERY-ERROR property=C10 replay: cannot parse op: {}", e);
            return 2;
        }
    };
    let args: Vec<RT> = match serde_json::from_value(case["arg_types"].clone()) {
        Ok(x) => x,
        Err(e) => {
            println!("MACHINERY-ERROR property=C10 replay: cannot parse arg_types: {}", e);
            return 2;
        }
    };
    let operands: Vec<RV> = match serde_json::from_value(case["operands"].clone()) {
        Ok(x) => x,
        Err(e) => {
            println!("MACHINERY-ERROR property=C10 replay: cannot parse operands: {}", e);
            return 2;
        }
    };
    println!("operation: {:?}", op);
    println!("operand types: {:?}", args.iter().map(show_rt).collect::<Vec<_>>());
    for (i, o) in operands.iter().enumerate() {
        println!("operand {}: {}", i, show_rv(o));
    }
    let b = match build(&op, &args) {
        Ok(b) => b,
        Err(BuildErr::Input(m)) | Err(BuildErr::Op(m)) => {
            println!("the builder refuses the graph now: {}", m);
            return 0;
        }
        Err(BuildErr::Other(m)) => {
            println!("graph construction fails: {}", m);
            return 1;
        }
    };
    println!("node type: {}", show_rt(&b.out));
    let exp = eval(&op, &operands);
    match check_one(&b, &op, &operands, &exp) {
        Verdict::Match => {
            println!("expected == observed: {}", exp.map(|e| show_rv(&e)).unwrap_or(json!("error")));
            println!("NOT REPRODUCED");
            0
        }
        Verdict::ExpectedError => {
            println!("documented data error is reported");
            println!("NOT REPRODUCED");
            0
        }
        Verdict::Viol { kind, what, expected, observed } => {
            println!("expected: {}", expected);
            println!("observed: {}", observed);
            println!("REPRODUCED C10:{}:{} - {}", op.name(), kind, what);
            1
        }
    }
}
