//! C12 - contexts survive serialization; malformed input is an error, not a crash.
//!
//! Half A (round trip): a corpus of contexts built with the real API (plain with names / every
//! annotation kind / 128-bit constants / Call+Iterate / every operation variant, every public
//! custom operation before and after instantiation, inlined in every mode, optimized, MPC-compiled
//! for several owner/output configurations). Oracle per context: to_string twice gives the same
//! text; from_str is Ok; contexts_deep_equal; an independent getter-based comparison incl. node
//! types; re-serialization of the reloaded context gives the original text; the reloaded context is
//! well-formed; evaluation on an input alphabet with the same evaluator seed gives the same result.
//!
//! Half B (malformed input, E5): for 6 seed contexts (+ Value and TypedValue seeds) every prefix,
//! every single-byte deletion and every single-byte substitution from a 14-symbol alphabet of the
//! envelope text, and every structural mutation of the decoded JSON tree (envelope, inner payload and
//! the nested envelopes of constants). Oracle: from_str under catch is Err, or Ok(c) with c
//! well-formed, round-tripping and evaluable without panic. A panic is a violation, one signature
//! per panic site. Mutants that replace a number by a value >= 2^31 are executed in a child process
//! (this binary in --replay mode under `ulimit -v`), because the library may try to allocate that
//! much and an allocation failure aborts the process; a child that dies is a violation.
//!
//! Development switches (stderr only, never needed for a verdict): C12_DEBUG=1 progress lines,
//! C12_HALF=A|B run one half, C12_SEED=<name> one half-B seed, C12_TRACE=1 one line per case.
use crate::common::{catch, stable_msg, Report};
use crate::exec::first_line;
use ciphercore_base::data_values::Value;
use ciphercore_base::graphs::{contexts_deep_equal, Context};
use ciphercore_base::typed_value::TypedValue;
use rayon::prelude::*;
use serde_json::{json, Value as J};
use std::collections::BTreeMap;

mod corpus;
mod mutate;
mod seeds;
mod wf;

/// evaluation of accepted mutants is attempted only below this many value bits
const EVAL_BITS_LIMIT: u64 = 1 << 16;

#[derive(Clone, Debug)]
struct Viol {
    sig: String,
    what: String,
}

#[derive(Clone, Debug, Default)]
struct Outcome {
    /// "err" | "ok" | "violation"
    class: &'static str,
    viol: Option<Viol>,
    evaluated: bool,
    eval_ok: bool,
    eval_skipped_large: bool,
    /// accepted context differs structurally from the seed (the mutation was not a no-op)
    accepted_differs: bool,
}

// ------------------------------------------------------------------------------------------------
// signatures

/// "msg at file:line" -> (msg, shortened file). Line numbers are dropped (unstable under edits).
fn split_panic(msg: &str) -> (String, String) {
    let first = msg.lines().next().unwrap_or("");
    // multi-line panic messages: the location is at the very end
    let (text, loc) = match msg.rfind(" at ") {
        Some(i) => (&msg[..i], &msg[i + 4..]),
        None => (first, ""),
    };
    let file = loc.rsplitn(2, ':').last().unwrap_or("");
    let file = if let Some(i) = file.find("ciphercore-base/src/") {
        file[i + "ciphercore-base/src/".len()..].to_string()
    } else {
        let parts: Vec<&str> = file.split('/').collect();
        let n = parts.len();
        parts[n.saturating_sub(3)..].join("/")
    };
    (text.lines().next().unwrap_or("").to_string(), file)
}

/// One signature per panic site. The panic location's line number is not used; sites in the same file
/// with the same message are told apart by the payload table the mutation touched (`locus`). The
/// `expect` on the inner payload is a single site whatever was mutated, so it carries no locus.
fn panic_sig(target: &str, stage: &str, locus: &str, msg: &str) -> String {
    let (text, file) = split_panic(msg);
    if let Some(i) = text.find(": Error(") {
        // the nested Value envelope of a constant fails at the same site as a top-level Value
        let target = if text.contains("SerializableValue") { "Value" } else { target };
        return format!("C12:{}:{}:{}@{}", target, stage, stable_msg(&text[..i]), file);
    }
    let l = if locus.is_empty() { String::new() } else { format!("{}:", locus) };
    format!("C12:{}:{}:{}{}@{}", target, stage, l, stable_msg(&text), file)
}

fn inner_tree(text: &str) -> Option<J> {
    let outer: J = serde_json::from_str(text).ok()?;
    serde_json::from_str(outer.get("data")?.as_str()?).ok()
}

/// which top-level table of the payload differs from the seed's
fn locus_of(text: &str, seed_text: &str) -> String {
    match (inner_tree(seed_text), inner_tree(text)) {
        (Some(a), Some(b)) => mutate::first_diff_key(&a, &b),
        _ => String::new(),
    }
}

// ------------------------------------------------------------------------------------------------
// oracles for one candidate text

/// the envelope of an ACCEPTED text must carry the current data version (2): anything else the
/// library documents as "version doesn't match the requirement"
fn wrong_version_accepted(text: &str) -> Option<String> {
    let outer: J = serde_json::from_str(text).ok()?;
    let v = outer.as_object()?.get("version")?;
    let shown = v.to_string();
    if shown == "2" {
        None
    } else {
        Some(shown)
    }
}

fn check_context_text(text: &str, seed_text: &str, seed: Option<&Context>) -> Outcome {
    let mut o = Outcome::default();
    let r = catch(|| serde_json::from_str::<Context>(text));
    let c = match r {
        Err(p) => {
            let locus = locus_of(text, seed_text);
            o.class = "violation";
            o.viol = Some(Viol {
                sig: panic_sig("Context", "panic", &locus, &p),
                what: format!("Context deserialization panics: {}", first_line(&p)),
            });
            return o;
        }
        Ok(Err(_)) => {
            o.class = "err";
            return o;
        }
        Ok(Ok(c)) => c,
    };
    o.class = "ok";
    let fail = |o: &mut Outcome, sig: String, what: String| {
        o.class = "violation";
        o.viol = Some(Viol { sig, what });
    };
    if let Some(v) = wrong_version_accepted(text) {
        fail(&mut o, "C12:Context:accepted-wrong-version".into(), format!("a context envelope with version {} is accepted (only version 2 is valid)", v));
        return o;
    }
    // the accepted context must serialize
    let s = match catch(|| serde_json::to_string(&c)) {
        Ok(Ok(s)) => s,
        Ok(Err(e)) => {
            fail(&mut o, "C12:Context:accepted:serialize-error".into(), format!("accepted context cannot be serialized: {}", e));
            return o;
        }
        Err(p) => {
            fail(&mut o, panic_sig("Context", "accepted:serialize-panic", "", &p), format!("serializing an accepted context panics: {}", first_line(&p)));
            return o;
        }
    };
    match catch(|| wf::well_formed(&c, &s)) {
        Ok(Ok(())) => {}
        Ok(Err(why)) => {
            fail(&mut o, format!("C12:Context:accepted-ill-formed:{}", stable_msg(&why)), format!("from_str returned Ok for an ill-formed context: {}", why));
            return o;
        }
        Err(p) => {
            fail(&mut o, panic_sig("Context", "accepted:getter-panic", "", &p), format!("a getter panics on an accepted context: {}", first_line(&p)));
            return o;
        }
    }
    // it must round-trip
    match catch(|| serde_json::from_str::<Context>(&s)) {
        Ok(Ok(c2)) => {
            let same = catch(|| {
                if !contexts_deep_equal(&c, &c2) {
                    return Err("contexts_deep_equal is false".to_string());
                }
                wf::same_structure(&c, &c2).map_err(|e| format!("{}: {}", e.0, e.1))?;
                let s2 = serde_json::to_string(&c2).map_err(|e| e.to_string())?;
                if s2 != s {
                    return Err("re-serialization differs".to_string());
                }
                Ok(())
            });
            match same {
                Ok(Ok(())) => {}
                Ok(Err(why)) => {
                    fail(&mut o, format!("C12:Context:accepted:roundtrip-differs:{}", stable_msg(&why)), format!("an accepted context does not round-trip: {}", why));
                    return o;
                }
                Err(p) => {
                    fail(&mut o, panic_sig("Context", "accepted:roundtrip-panic", "", &p), format!("round trip of an accepted context panics: {}", first_line(&p)));
                    return o;
                }
            }
        }
        Ok(Err(e)) => {
            fail(&mut o, "C12:Context:accepted:roundtrip-rejected".into(), format!("the serialization of an accepted context is rejected: {}", first_line(&e.to_string())));
            return o;
        }
        Err(p) => {
            fail(&mut o, panic_sig("Context", "accepted:roundtrip-panic", "", &p), format!("round trip of an accepted context panics: {}", first_line(&p)));
            return o;
        }
    }
    if let Some(sc) = seed {
        o.accepted_differs = catch(|| wf::same_structure(sc, &c).is_err()).unwrap_or(true);
    }
    // it can be evaluated (Ok or Err), never a panic
    if c.check_finalized().is_ok() && c.get_main_graph().is_ok() {
        match catch(|| wf::eval_cost_bits(&c)) {
            Ok(Some(bits)) if bits <= EVAL_BITS_LIMIT => {
                let types = wf::main_input_types(&c).unwrap_or_default();
                let ins = catch(|| wf::input_alphabet(&types, 0, 0).swap_remove(2));
                if let Ok(ins) = ins {
                    o.evaluated = true;
                    match wf::evaluate(&c, &ins, 0) {
                        Ok(_) => o.eval_ok = true,
                        Err(m) if m.starts_with("panic: ") => {
                            let locus = locus_of(text, seed_text);
                            fail(
                                &mut o,
                                panic_sig("Context", "accepted:eval-panic", &locus, &m[7..]),
                                format!("evaluating an accepted (well-formed) context panics: {}", first_line(&m)),
                            );
                            return o;
                        }
                        Err(_) => {}
                    }
                }
            }
            _ => o.eval_skipped_large = true,
        }
    }
    o
}

fn check_value_text(text: &str) -> Outcome {
    let mut o = Outcome::default();
    let v = match catch(|| serde_json::from_str::<Value>(text)) {
        Err(p) => {
            o.class = "violation";
            o.viol = Some(Viol {
                sig: panic_sig("Value", "panic", "", &p),
                what: format!("Value deserialization panics: {}", first_line(&p)),
            });
            return o;
        }
        Ok(Err(_)) => {
            o.class = "err";
            return o;
        }
        Ok(Ok(v)) => v,
    };
    o.class = "ok";
    if let Some(ver) = wrong_version_accepted(text) {
        o.class = "violation";
        o.viol = Some(Viol {
            sig: "C12:Value:accepted-wrong-version".into(),
            what: format!("a value envelope with version {} is accepted (only version 2 is valid)", ver),
        });
        return o;
    }
    let rt = catch(|| {
        let s = serde_json::to_string(&v).map_err(|e| e.to_string())?;
        let v2: Value = serde_json::from_str(&s).map_err(|e| format!("rejected: {}", e))?;
        if v2 != v {
            return Err("reloaded value differs".to_string());
        }
        if serde_json::to_string(&v2).map_err(|e| e.to_string())? != s {
            return Err("re-serialization differs".to_string());
        }
        Ok(())
    });
    match rt {
        Ok(Ok(())) => {}
        Ok(Err(why)) => {
            o.class = "violation";
            o.viol = Some(Viol {
                sig: format!("C12:Value:accepted:roundtrip:{}", stable_msg(&why)),
                what: format!("an accepted Value does not round-trip: {}", why),
            });
        }
        Err(p) => {
            o.class = "violation";
            o.viol = Some(Viol {
                sig: panic_sig("Value", "accepted:roundtrip-panic", "", &p),
                what: format!("round trip of an accepted Value panics: {}", first_line(&p)),
            });
        }
    }
    o
}

fn check_typed_value_text(text: &str) -> Outcome {
    let mut o = Outcome::default();
    let tv = match catch(|| serde_json::from_str::<TypedValue>(text)) {
        Err(p) => {
            o.class = "violation";
            o.viol = Some(Viol {
                sig: panic_sig("TypedValue", "panic", "", &p),
                what: format!("TypedValue deserialization panics: {}", first_line(&p)),
            });
            return o;
        }
        Ok(Err(_)) => {
            o.class = "err";
            return o;
        }
        Ok(Ok(v)) => v,
    };
    o.class = "ok";
    let rt = catch(|| {
        if !tv.t.is_valid() {
            return Err("type is invalid".to_string());
        }
        if !wf::value_fits(&tv.value, &tv.t) {
            return Err("value does not fit the type".to_string());
        }
        let s = serde_json::to_string(&tv).map_err(|e| format!("cannot be serialized: {}", first_line(&e.to_string())))?;
        let tv2: TypedValue = serde_json::from_str(&s).map_err(|e| format!("rejected: {}", first_line(&e.to_string())))?;
        if tv2.t != tv.t || tv2.value != tv.value {
            return Err("reloaded typed value differs".to_string());
        }
        if serde_json::to_string(&tv2).map_err(|e| e.to_string())? != s {
            return Err("re-serialization differs".to_string());
        }
        Ok(())
    });
    match rt {
        Ok(Ok(())) => {}
        Ok(Err(why)) => {
            o.class = "violation";
            o.viol = Some(Viol {
                sig: format!("C12:TypedValue:accepted:{}", stable_msg(&why)),
                what: format!("an accepted TypedValue is ill-formed or does not round-trip: {}", why),
            });
        }
        Err(p) => {
            o.class = "violation";
            o.viol = Some(Viol {
                sig: panic_sig("TypedValue", "accepted:panic", "", &p),
                what: format!("handling an accepted TypedValue panics: {}", first_line(&p)),
            });
        }
    }
    o
}

fn check_text(target: &str, text: &str, seed_text: &str, seed: Option<&Context>) -> Outcome {
    match target {
        "Context" => check_context_text(text, seed_text, seed),
        "Value" => check_value_text(text),
        _ => check_typed_value_text(text),
    }
}

// ------------------------------------------------------------------------------------------------
// sandbox: risky cases run in a child process (this binary in --replay mode) under `ulimit -v`

const SANDBOX_KB: u64 = 192 << 10; // 192 MiB of address space
const SANDBOX_TIMEOUT_S: u64 = 120;

fn outcome_to_json(o: &Outcome) -> J {
    json!({"class": o.class, "sig": o.viol.as_ref().map(|v| v.sig.clone()), "what": o.viol.as_ref().map(|v| v.what.clone()),
           "evaluated": o.evaluated, "eval_ok": o.eval_ok, "eval_skipped_large": o.eval_skipped_large, "accepted_differs": o.accepted_differs})
}

fn outcome_from_json(j: &J) -> Outcome {
    let class = match j["class"].as_str() {
        Some("err") => "err",
        Some("ok") => "ok",
        _ => "violation",
    };
    let viol = j["sig"].as_str().map(|s| Viol { sig: s.to_string(), what: j["what"].as_str().unwrap_or("").to_string() });
    Outcome {
        class,
        viol,
        evaluated: j["evaluated"].as_bool().unwrap_or(false),
        eval_ok: j["eval_ok"].as_bool().unwrap_or(false),
        eval_skipped_large: j["eval_skipped_large"].as_bool().unwrap_or(false),
        accepted_differs: j["accepted_differs"].as_bool().unwrap_or(false),
    }
}

/// child side: processes texts[start..] of the batch file, one flushed line per finished case
fn sandbox_child(case: &J) -> i32 {
    use std::io::Write;
    let file = case["file"].as_str().unwrap_or("");
    let start = case["start"].as_u64().unwrap_or(0) as usize;
    let batch: J = match std::fs::read_to_string(file).ok().and_then(|t| serde_json::from_str(&t).ok()) {
        Some(b) => b,
        None => return 2,
    };
    let target = batch["target"].as_str().unwrap_or("Context").to_string();
    let seed_text = batch["seed_text"].as_str().unwrap_or("").to_string();
    let seed_ctx: Option<Context> = if target == "Context" { serde_json::from_str(&seed_text).ok() } else { None };
    let texts = batch["texts"].as_array().cloned().unwrap_or_default();
    let out = std::io::stdout();
    for (i, t) in texts.iter().enumerate().skip(start) {
        let o = check_text(&target, t.as_str().unwrap_or(""), &seed_text, seed_ctx.as_ref());
        let mut l = out.lock();
        let _ = writeln!(l, "SB {} {}", i, outcome_to_json(&o));
        let _ = l.flush();
    }
    0
}

/// parent side: outcomes of all texts; a case the child dies on becomes a violation
fn sandbox_run(target: &str, seed_text: &str, texts: &[String], fields: &[String], tag: &str) -> Result<(Vec<Outcome>, u64), String> {
    let dir = std::env::temp_dir();
    let base = format!("c12-sandbox-{}-{}", std::process::id(), tag);
    let batch_file = dir.join(format!("{}.batch.json", base));
    let rec_file = dir.join(format!("{}.rec.json", base));
    std::fs::write(&batch_file, serde_json::to_string(&json!({"target": target, "seed_text": seed_text, "texts": texts})).unwrap())
        .map_err(|e| e.to_string())?;
    let exe = std::env::current_exe().map_err(|e| e.to_string())?;
    let mut outcomes: Vec<Outcome> = vec![];
    let mut children = 0u64;
    while outcomes.len() < texts.len() {
        let start = outcomes.len();
        std::fs::write(&rec_file, serde_json::to_string(&json!({"signature": "", "case": {"half": "sandbox", "file": batch_file, "start": start}})).unwrap())
            .map_err(|e| e.to_string())?;
        let script = format!("ulimit -v {}; exec timeout {} \"$0\" C12 --replay \"$1\"", SANDBOX_KB, SANDBOX_TIMEOUT_S);
        let out = std::process::Command::new("sh")
            .arg("-c")
            .arg(&script)
            .arg(&exe)
            .arg(&rec_file)
            .env("VERIF_THREADS", "1")
            .env_remove("C12_TRACE")
            .output()
            .map_err(|e| format!("cannot start the sandbox child: {}", e))?;
        children += 1;
        let stdout = String::from_utf8_lossy(&out.stdout);
        let mut got = 0;
        for line in stdout.lines() {
            if let Some(rest) = line.strip_prefix("SB ") {
                let mut it = rest.splitn(2, ' ');
                let idx: usize = it.next().and_then(|x| x.parse().ok()).ok_or("bad sandbox line")?;
                let j: J = serde_json::from_str(it.next().unwrap_or("")).map_err(|e| e.to_string())?;
                if idx != outcomes.len() {
                    return Err("sandbox child answered out of order".into());
                }
                outcomes.push(outcome_from_json(&j));
                got += 1;
            }
        }
        if outcomes.len() < texts.len() {
            // the child died while working on case `outcomes.len()`
            let i = outcomes.len();
            let code = out.status.code();
            let stderr = String::from_utf8_lossy(&out.stderr);
            let last = stderr
                .lines()
                .find(|l| l.contains("memory allocation of"))
                .or_else(|| stderr.lines().filter(|l| !l.trim().is_empty()).last())
                .unwrap_or("")
                .to_string();
            if got == 0 && start == i && code == Some(2) && last.is_empty() {
                return Err("sandbox child could not read its batch".into());
            }
            let how = if code == Some(124) {
                "timeout".to_string()
            } else if last.contains("memory allocation") {
                "memory exhausted".to_string()
            } else {
                format!("died with {}", code.map(|c| format!("exit code {}", c)).unwrap_or_else(|| "a signal".into()))
            };
            outcomes.push(Outcome {
                class: "violation",
                viol: Some(Viol {
                    // one signature whatever the way of dying (it depends on the machine's load and memory)
                    sig: format!("C12:{}:abort:number@{}", target, fields[i]),
                    what: format!(
                        "{} deserialization kills the process ({}; address space limited to {} MiB, {} s): {}",
                        target,
                        how,
                        SANDBOX_KB >> 10,
                        SANDBOX_TIMEOUT_S,
                        first_line(&last)
                    ),
                }),
                ..Default::default()
            });
        }
    }
    let _ = std::fs::remove_file(&batch_file);
    let _ = std::fs::remove_file(&rec_file);
    Ok((outcomes, children))
}

// ------------------------------------------------------------------------------------------------
// half B driver

enum Mutn {
    Text(mutate::TextMut),
    Tree(mutate::TreeMut),
}

struct Case {
    class: String,
    desc: String,
    mutn: Mutn,
    /// a number was replaced by a value >= 2^31: executed in a memory-limited child process, because
    /// the library may try to allocate that much (an abort cannot be caught in-process)
    risky: bool,
    /// last named component of the mutated path (for the signature of a crash)
    field: String,
}

impl Case {
    /// the mutated text (built on demand)
    fn text(&self, seed_text: &str, seed_tree: &J) -> String {
        match &self.mutn {
            Mutn::Text(m) => String::from_utf8(m.apply(seed_text.as_bytes())).expect("ASCII"),
            Mutn::Tree(tm) => serde_json::to_string(&tm.apply(seed_tree)).expect("tree serializes"),
        }
    }
}

fn all_cases(seed_text: &str, seed_tree: &J, small: u64) -> Result<Vec<Case>, String> {
    let bytes = seed_text.as_bytes();
    if !seed_text.is_ascii() {
        return Err("seed serialization is not ASCII".into());
    }
    let mut cases = vec![];
    for m in mutate::text_mutations(bytes.len()) {
        if let mutate::TextMut::Subst(i, b) = &m {
            if bytes[*i] == *b {
                continue;
            }
        }
        cases.push(Case { class: format!("text:{}", m.class()), desc: m.describe(), mutn: Mutn::Text(m), risky: false, field: String::new() });
    }
    for tm in mutate::tree_mutations(seed_tree, small) {
        let risky = tm.class == "number" && tm.detail.parse::<u128>().map(|x| x >= (1u128 << 31)).unwrap_or(false);
        let field = tm
            .path
            .split('/')
            .filter(|c| !c.is_empty() && !c.chars().all(|ch| ch.is_ascii_digit()) && *c != "<json>")
            .last()
            .unwrap_or("")
            .to_string();
        cases.push(Case {
            class: format!("tree:{}", tm.class),
            desc: format!("{} at {} -> {}", tm.class, tm.path, tm.detail),
            mutn: Mutn::Tree(tm),
            risky,
            field,
        });
    }
    Ok(cases)
}

fn run_half_b(r: &Report) -> Result<(), String> {
    struct Seed {
        target: &'static str,
        name: String,
        text: String,
        small: u64,
    }
    let mut seeds_v: Vec<Seed> = vec![];
    for (n, c) in seeds::context_seeds() {
        let text = serde_json::to_string(&c).map_err(|e| e.to_string())?;
        let small = c.get_graphs().iter().map(|g| g.get_num_nodes()).max().unwrap_or(0).max(c.get_num_graphs()) + 1;
        seeds_v.push(Seed { target: "Context", name: n.to_string(), text, small });
    }
    if r.tier.thorough() {
        for (n, c) in seeds::thorough_context_seeds()? {
            let text = serde_json::to_string(&c).map_err(|e| e.to_string())?;
            let small = c.get_graphs().iter().map(|g| g.get_num_nodes()).max().unwrap_or(0).max(c.get_num_graphs()) + 1;
            seeds_v.push(Seed { target: "Context", name: n, text, small });
        }
    }
    for (n, v) in seeds::value_seeds() {
        seeds_v.push(Seed { target: "Value", name: n.to_string(), text: serde_json::to_string(&v).map_err(|e| e.to_string())?, small: 2 });
    }
    for (n, v) in seeds::typed_value_seeds() {
        seeds_v.push(Seed { target: "TypedValue", name: n.to_string(), text: serde_json::to_string(&v).map_err(|e| e.to_string())?, small: 2 });
    }
    let only_seed = std::env::var("C12_SEED").ok();
    let mut seen_sigs: std::collections::BTreeSet<String> = std::collections::BTreeSet::new();
    for sd in seeds_v.iter() {
        if let Some(o) = &only_seed {
            if *o != sd.name {
                continue;
            }
        }
        // baseline: the unmutated text, and the unmutated tree re-embedded by the mutation machinery,
        // must both be accepted - otherwise every "Err" below would be an artefact
        let tree: J = serde_json::from_str(&sd.text).map_err(|e| e.to_string())?;
        let reembedded = serde_json::to_string(&tree).map_err(|e| e.to_string())?;
        let o0 = check_text(sd.target, &sd.text, &sd.text, None);
        if o0.class != "ok" {
            // the unmutated serialization of a seed is itself not handled correctly: a round-trip violation
            let v = o0.viol.clone().unwrap_or(Viol {
                sig: format!("C12:{}:seed-rejected", sd.target),
                what: "from_str rejects the unmutated serialization of a seed".into(),
            });
            if v.sig.contains(":panic:") {
                r.count("deserialization_panics", 1);
            }
            r.violation(
                &v.sig,
                &format!("{} [unmutated seed {}]", v.what, sd.name),
                json!({"half": "B", "target": sd.target, "seed": sd.name, "mutation": "none", "seed_text": sd.text, "text": sd.text, "sandboxed": false, "field": ""}),
            );
            r.count("seeds_skipped_baseline_violation", 1);
            continue;
        }
        r.count("baseline_accepted", 1);
        let o1 = check_text(sd.target, &reembedded, &sd.text, None);
        if o1.class != "ok" {
            return Err(format!("re-embedded baseline of seed {}:{} is not accepted ({:?})", sd.target, sd.name, o1.viol));
        }
        r.count("baseline_accepted", 1);
        dbg(&format!("B seed {}:{} len {}", sd.target, sd.name, sd.text.len()));
        let cases = all_cases(&sd.text, &tree, sd.small)?;
        dbg(&format!("  {} cases", cases.len()));
        let seed_ctx: Option<String> = if sd.target == "Context" { Some(sd.text.clone()) } else { None };
        // parallel over a partition of the enumeration; every worker has its own copy of the seed context;
        // risky cases go to the memory-limited child process
        let safe_idx: Vec<usize> = (0..cases.len()).filter(|i| !cases[*i].risky).collect();
        let risky_idx: Vec<usize> = (0..cases.len()).filter(|i| cases[*i].risky).collect();
        let chunk = 256;
        let risky_texts: Vec<String> = risky_idx.iter().map(|i| cases[*i].text(&sd.text, &tree)).collect();
        let risky_fields: Vec<String> = risky_idx.iter().map(|i| cases[*i].field.clone()).collect();
        let (safe_out, sandbox_res) = rayon::join(
            || -> Vec<Vec<(Outcome, u64)>> {
                safe_idx
                    .par_chunks(chunk)
                    .map(|ix| {
                        let sc: Option<Context> = seed_ctx.as_ref().and_then(|t| serde_json::from_str(t).ok());
                        ix.iter()
                            .map(|i| {
                                let c = &cases[*i];
                                let text = c.text(&sd.text, &tree);
                                if std::env::var("C12_TRACE").is_ok() {
                                    eprintln!("TRACE {} {}", c.desc, text.len());
                                }
                                (check_text(sd.target, &text, &sd.text, sc.as_ref()), crate::common::hash_str(&text))
                            })
                            .collect()
                    })
                    .collect()
            },
            || sandbox_run(sd.target, &sd.text, &risky_texts, &risky_fields, &format!("{}-{}", sd.target, sd.name)),
        );
        let (risky_out, children) = sandbox_res?;
        r.count("sandboxed_cases", risky_idx.len() as u64);
        r.count("sandbox_children", children);
        let mut merged: Vec<Option<(Outcome, u64)>> = vec![None; cases.len()];
        for (i, o) in safe_idx.iter().zip(safe_out.into_iter().flatten()) {
            merged[*i] = Some(o);
        }
        for (k, (i, o)) in risky_idx.iter().zip(risky_out.into_iter()).enumerate() {
            if o.viol.as_ref().map(|v| v.sig.contains(":abort:")).unwrap_or(false) {
                r.count("sandbox_crashes", 1);
            }
            merged[*i] = Some((o, crate::common::hash_str(&risky_texts[k])));
        }
        let outcomes: Vec<(Outcome, u64)> = merged.into_iter().map(|o| o.unwrap()).collect();
        let mut per_class: BTreeMap<String, [u64; 3]> = BTreeMap::new();
        for (case, (o, text_hash)) in cases.iter().zip(outcomes.iter()) {
            r.count("evaluations", 1);
            r.count(&format!("malformed_{}_cases", sd.target), 1);
            let e = per_class.entry(case.class.clone()).or_insert([0; 3]);
            match o.class {
                "err" => {
                    e[0] += 1;
                    r.count("rejected_with_error", 1);
                }
                "ok" => {
                    e[1] += 1;
                    r.count("accepted_wellformed", 1);
                    if o.accepted_differs {
                        r.count("accepted_wellformed_differs_from_seed", 1);
                        r.distinct(text_hash ^ crate::common::hash_str(sd.target));
                    }
                }
                _ => {
                    e[2] += 1;
                }
            }
            if o.class != "ok" {
                r.distinct(text_hash ^ crate::common::hash_str(sd.target));
            }
            if o.evaluated {
                r.count("accepted_evaluated", 1);
            }
            if o.eval_ok {
                r.count("accepted_evaluated_ok", 1);
            }
            if o.eval_skipped_large {
                r.count("accepted_eval_skipped_large", 1);
            }
            if let Some(v) = &o.viol {
                if v.sig.contains(":panic:") {
                    r.count("deserialization_panics", 1);
                }
                let rec = if seen_sigs.insert(v.sig.clone()) {
                    json!({"half": "B", "target": sd.target, "seed": sd.name, "mutation": case.desc,
                           "seed_text": sd.text, "text": case.text(&sd.text, &tree), "sandboxed": case.risky, "field": case.field})
                } else {
                    J::Null // only the first case per signature is kept by the report
                };
                r.violation(&v.sig, &v.what, rec);
            }
            if r.want_sample() && case.class.starts_with("tree:number") {
                r.sample(json!({"half": "B", "target": sd.target, "seed": sd.name, "mutation": case.desc, "outcome": o.class}));
            }
        }
        let pc: serde_json::Map<String, J> = per_class
            .into_iter()
            .map(|(k, v)| (k, json!({"err": v[0], "ok": v[1], "violation": v[2]})))
            .collect();
        r.extra(&format!("B:{}:{}", sd.target, sd.name), json!({"text_len": sd.text.len(), "cases": cases.len(), "by_mutation_class": pc}));
    }
    Ok(())
}

// ------------------------------------------------------------------------------------------------
// half A

#[derive(Default)]
struct RtStats {
    built: bool,
    build_error: Option<String>,
    nodes: u64,
    graphs: u64,
    text_len: u64,
    evals: u64,
    evals_ok: u64,
    evaluable: bool,
    ops: Vec<String>,
    viols: Vec<Viol>,
}

fn op_names(c: &Context) -> Vec<String> {
    let mut v = vec![];
    for g in c.get_graphs() {
        for n in g.get_nodes() {
            let s = format!("{:?}", n.get_operation());
            let name: String = s.split(|ch| ch == '(' || ch == ' ' || ch == '{').next().unwrap_or("").to_string();
            if !v.contains(&name) {
                v.push(name);
            }
        }
    }
    v
}

/// operation tag of the first node whose serialization differs between the two texts
fn first_differing_operation(s1: &str, s2: &str) -> String {
    let (a, b) = match (inner_tree(s1), inner_tree(s2)) {
        (Some(a), Some(b)) => (a, b),
        _ => return "?".into(),
    };
    if a == b {
        // the JSON documents are equal as trees: only the order of the keys of some map differs
        return "map-key-order".into();
    }
    let key = mutate::first_diff_key(&a, &b);
    if key != "graphs" {
        return key;
    }
    let (ga, gb) = (a["graphs"].as_array().cloned().unwrap_or_default(), b["graphs"].as_array().cloned().unwrap_or_default());
    for (x, y) in ga.iter().zip(gb.iter()) {
        let (na, nb) = (x["nodes"].as_array().cloned().unwrap_or_default(), y["nodes"].as_array().cloned().unwrap_or_default());
        for (p, q) in na.iter().zip(nb.iter()) {
            if p != q {
                return match &p["operation"] {
                    J::String(s) => s.clone(),
                    J::Object(m) => m.keys().next().cloned().unwrap_or_default(),
                    _ => "?".into(),
                };
            }
        }
    }
    "graphs".into()
}

const RELOADS: usize = 4;

fn check_roundtrip(ctx: &Context, seed: u64, extra_inputs: usize) -> RtStats {
    let mut st = RtStats { built: true, ..Default::default() };
    let fail = |st: &mut RtStats, sig: String, what: String| {
        if !st.viols.iter().any(|v| v.sig == sig) {
            st.viols.push(Viol { sig, what });
        }
    };
    st.graphs = ctx.get_num_graphs();
    st.nodes = ctx.get_graphs().iter().map(|g| g.get_num_nodes()).sum();
    st.ops = op_names(ctx);
    let s1 = match catch(|| serde_json::to_string(ctx)) {
        Ok(Ok(s)) => s,
        Ok(Err(e)) => {
            fail(&mut st, "C12:roundtrip:serialize-error".into(), format!("to_string fails: {}", e));
            return st;
        }
        Err(p) => {
            fail(&mut st, panic_sig("roundtrip", "serialize-panic", "", &p), format!("to_string panics: {}", first_line(&p)));
            return st;
        }
    };
    st.text_len = s1.len() as u64;
    match catch(|| serde_json::to_string(ctx)) {
        Ok(Ok(s2)) if s2 == s1 => {}
        _ => fail(&mut st, "C12:roundtrip:text-not-deterministic".into(), "serializing the same context twice gives different texts".into()),
    }
    let mut reloaded: Vec<Context> = vec![];
    for k in 0..RELOADS {
        match catch(|| serde_json::from_str::<Context>(&s1)) {
            Ok(Ok(c2)) => reloaded.push(c2),
            Ok(Err(e)) => {
                fail(
                    &mut st,
                    format!("C12:roundtrip:rejected:{}", stable_msg(&e.to_string())),
                    format!("from_str rejects the serialization of a context the library produced: {}", first_line(&e.to_string())),
                );
                return st;
            }
            Err(p) => {
                fail(&mut st, panic_sig("roundtrip", "deserialize-panic", "", &p), format!("from_str panics on the serialization of a context the library produced: {}", first_line(&p)));
                return st;
            }
        }
        let c2 = &reloaded[k];
        let r = catch(|| {
            let mut v: Vec<(String, String)> = vec![];
            if !contexts_deep_equal(ctx, c2) || !ctx.deep_equal(c2.clone()) {
                v.push(("C12:roundtrip:not-deep-equal".into(), "the reloaded context is not deep_equal to the original".into()));
            }
            if let Err((cat, d)) = wf::same_structure(ctx, c2) {
                v.push((format!("C12:roundtrip:structure-differs:{}", cat), format!("the reloaded context differs from the original: {}", d)));
            }
            match serde_json::to_string(c2) {
                Ok(s3) => {
                    if s3 != s1 {
                        let op = first_differing_operation(&s1, &s3);
                        v.push((
                            format!("C12:roundtrip:reserialized-text-differs:{}", op),
                            format!("serializing the reloaded context does not reproduce the original text (first difference in {})", op),
                        ));
                    }
                    if let Err(why) = wf::well_formed(c2, &s3) {
                        v.push((format!("C12:roundtrip:reloaded-ill-formed:{}", stable_msg(&why)), format!("the reloaded context is ill-formed: {}", why)));
                    }
                }
                Err(e) => v.push(("C12:roundtrip:reserialize-error".into(), e.to_string())),
            }
            v
        });
        match r {
            Ok(v) => {
                for (s, w) in v {
                    fail(&mut st, s, w);
                }
            }
            Err(p) => fail(&mut st, panic_sig("roundtrip", "compare-panic", "", &p), format!("comparing original and reloaded context panics: {}", first_line(&p))),
        }
    }
    // same evaluation result with the same evaluator seed
    if ctx.check_finalized().is_ok() && ctx.get_main_graph().is_ok() {
        if let Some(types) = wf::main_input_types(ctx) {
            st.evaluable = true;
            let c2 = &reloaded[0];
            for (k, ins) in wf::input_alphabet(&types, seed, extra_inputs).iter().enumerate() {
                let es = seed ^ (k as u64 + 1);
                let a = wf::evaluate(ctx, ins, es);
                let b = wf::evaluate(c2, ins, es);
                st.evals += 1;
                if a.is_ok() {
                    st.evals_ok += 1;
                }
                if a != b {
                    let show = |x: &Result<Value, String>| match x {
                        Ok(_) => "a value".to_string(),
                        Err(e) => e.clone(),
                    };
                    fail(
                        &mut st,
                        "C12:roundtrip:evaluation-differs".into(),
                        format!("input pattern {}: original gives {}, reloaded gives {} (same evaluator seed)", k, show(&a), show(&b)),
                    );
                }
            }
        }
    }
    st
}

/// round trip of plain values and typed values (every scalar type, extremes, nesting)
fn run_half_a_values(r: &Report) {
    use crate::vals;
    use ciphercore_base::data_types::{array_type, scalar_type};
    let mut values: Vec<(String, Value)> = seeds::value_seeds().into_iter().map(|(n, v)| (n.to_string(), v)).collect();
    let mut typed: Vec<(String, TypedValue)> = seeds::typed_value_seeds().into_iter().map(|(n, v)| (n.to_string(), v)).collect();
    for st in vals::ALL_ST.iter() {
        let m = vals::st_mask(st);
        let top = if vals::st_bits(st) == 1 { 1 } else { 1u128 << (vals::st_bits(st) - 1) };
        let elems = [0u128, 1, m, top, top.wrapping_sub(1) & m, m - (m >> 1 > 0) as u128];
        for (k, e) in elems.iter().enumerate() {
            let v = vals::arr_value(&[*e], st);
            values.push((format!("{:?}:{}", st, k), v.clone()));
            if let Ok(tv) = TypedValue::new(scalar_type(*st), v) {
                typed.push((format!("scalar:{:?}:{}", st, k), tv));
            }
        }
        let v = vals::arr_value(&elems, st);
        if let Ok(tv) = TypedValue::new(array_type(vec![2, 3], *st), v.clone()) {
            typed.push((format!("array2x3:{:?}", st), tv));
        }
        if let Ok(tv) = TypedValue::new(array_type(vec![6], *st), v) {
            typed.push((format!("array6:{:?}", st), tv));
        }
    }
    for (n, v) in values.iter() {
        r.count("evaluations", 1);
        r.count("roundtrip_values", 1);
        r.distinct_str(&format!("AV|{}", n));
        let res = catch(|| -> Result<(), String> {
            let s1 = serde_json::to_string(v).map_err(|e| e.to_string())?;
            if serde_json::to_string(v).map_err(|e| e.to_string())? != s1 {
                return Err("text-not-deterministic".into());
            }
            let v2: Value = serde_json::from_str(&s1).map_err(|e| format!("rejected: {}", e))?;
            if v2 != *v {
                return Err("reloaded value differs".into());
            }
            if serde_json::to_string(&v2).map_err(|e| e.to_string())? != s1 {
                return Err("reserialized-text-differs".into());
            }
            Ok(())
        });
        let why = match res {
            Ok(Ok(())) => continue,
            Ok(Err(w)) => w,
            Err(p) => format!("panic: {}", first_line(&p)),
        };
        r.violation(&format!("C12:roundtrip:Value:{}", stable_msg(&why)), &format!("Value {} does not round-trip: {}", n, why), json!({"half": "AV", "kind": "Value", "name": n}));
    }
    for (n, tv) in typed.iter() {
        r.count("evaluations", 1);
        r.count("roundtrip_typed_values", 1);
        r.distinct_str(&format!("ATV|{}", n));
        let res = catch(|| -> Result<(), String> {
            let s1 = serde_json::to_string(tv).map_err(|e| format!("cannot be serialized: {}", e))?;
            if serde_json::to_string(tv).map_err(|e| e.to_string())? != s1 {
                return Err("text-not-deterministic".into());
            }
            let t2: TypedValue = serde_json::from_str(&s1).map_err(|e| format!("rejected: {}", e))?;
            if t2.t != tv.t {
                return Err("reloaded type differs".into());
            }
            if t2.value != tv.value {
                return Err("reloaded value differs".into());
            }
            if serde_json::to_string(&t2).map_err(|e| e.to_string())? != s1 {
                return Err("reserialized-text-differs".into());
            }
            Ok(())
        });
        let why = match res {
            Ok(Ok(())) => continue,
            Ok(Err(w)) => w,
            Err(p) => format!("panic: {}", first_line(&p)),
        };
        r.violation(&format!("C12:roundtrip:TypedValue:{}", stable_msg(&why)), &format!("TypedValue {} does not round-trip: {}", n, why), json!({"half": "AV", "kind": "TypedValue", "name": n}));
    }
}

fn run_half_a(r: &Report) {
    run_half_a_values(r);
    let entries = corpus::corpus(r.tier.thorough());
    let seed = r.seed;
    let stats: Vec<RtStats> = entries
        .par_iter()
        .map(|e| match catch(|| (e.build)()) {
            Ok(Ok(c)) => {
                dbg(&format!("A built {}", e.name));
                let st = check_roundtrip(&c, seed, 1);
                dbg(&format!("A done {} nodes {}", e.name, st.nodes));
                st
            }
            Ok(Err(m)) => RtStats { build_error: Some(m), ..Default::default() },
            Err(p) => RtStats { build_error: Some(format!("panic: {}", first_line(&p))), ..Default::default() },
        })
        .collect();
    let mut ops: Vec<String> = vec![];
    let mut not_built: Vec<J> = vec![];
    let mut by_kind: BTreeMap<&'static str, [u64; 3]> = BTreeMap::new();
    let mut max_nodes = 0;
    for (e, st) in entries.iter().zip(stats.iter()) {
        r.count("corpus_entries", 1);
        if !st.built {
            r.count("corpus_entries_not_built", 1);
            not_built.push(json!({"name": e.name, "why": st.build_error}));
            continue;
        }
        r.count("evaluations", 1);
        r.count("roundtrip_contexts", 1);
        r.count(&format!("roundtrip_{}", e.kind), 1);
        r.count("roundtrip_nodes_total", st.nodes);
        r.count("roundtrip_evaluations_compared", st.evals);
        r.count("extra_seeded_cases", if st.evals > 0 { 1 } else { 0 });
        r.count("roundtrip_evaluations_ok", st.evals_ok);
        let k = by_kind.entry(e.kind).or_insert([0; 3]);
        k[0] += 1;
        k[1] += st.nodes;
        k[2] = k[2].max(st.nodes);
        max_nodes = max_nodes.max(st.nodes);
        r.distinct_str(&format!("A|{}", e.name));
        for o in st.ops.iter() {
            if !ops.contains(o) {
                ops.push(o.clone());
            }
        }
        for v in st.viols.iter() {
            r.violation(&v.sig, &format!("{} [corpus entry {}]", v.what, e.name), json!({"half": "A", "name": e.name}));
        }
        if r.want_sample() && (e.kind == "compiled" || e.kind == "instantiated") {
            r.sample(json!({"half": "A", "name": e.name, "graphs": st.graphs, "nodes": st.nodes, "text_len": st.text_len,
                            "evaluations_compared": st.evals, "violations": st.viols.len()}));
        }
    }
    ops.sort();
    r.count("operation_variants_in_corpus", ops.len() as u64);
    r.extra("A:operation_variants", json!(ops));
    r.extra("A:not_built", json!(not_built));
    r.extra("A:largest_context_nodes", json!(max_nodes));
    let bk: serde_json::Map<String, J> = by_kind
        .into_iter()
        .map(|(k, v)| (k.to_string(), json!({"contexts": v[0], "nodes_total": v[1], "nodes_max": v[2]})))
        .collect();
    r.extra("A:by_kind", J::Object(bk));
}

fn dbg(msg: &str) {
    if std::env::var("C12_DEBUG").is_ok() {
        eprintln!("[c12 {:?}] {}", std::time::SystemTime::now().duration_since(std::time::UNIX_EPOCH).map(|d| d.as_secs() % 100000).unwrap_or(0), msg);
    }
}

pub fn run(r: &Report) -> i32 {
    let only = std::env::var("C12_HALF").unwrap_or_default();
    if only != "B" {
        run_half_a(r);
    }
    if only != "A" {
        if let Err(e) = run_half_b(r) {
            println!("MACHINERY-ERROR property=C12 {}", e);
            return 2;
        }
    }
    let a_keys = ["roundtrip_values", "roundtrip_typed_values", "roundtrip_contexts", "roundtrip_compiled", "roundtrip_instantiated", "roundtrip_inlined", "roundtrip_optimized", "roundtrip_evaluations_ok"];
    let b_keys = [
        "malformed_Context_cases",
        "malformed_Value_cases",
        "malformed_TypedValue_cases",
        "rejected_with_error",
        "accepted_wellformed_differs_from_seed",
        "accepted_evaluated_ok",
        "sandboxed_cases",
    ];
    let mut nonvac: Vec<&str> = vec![];
    if only != "B" {
        nonvac.extend(a_keys.iter());
    }
    if only != "A" {
        nonvac.extend(b_keys.iter());
    }
    r.finish(
        "fault_enumeration",
        "A: every corpus context (plain/custom/instantiated/inlined/optimized/compiled) is one case, all distinct by name. \
         B: per seed text every prefix, every 1-byte deletion, every 1-byte substitution by a different symbol of the 14-symbol alphabet, \
         every structural mutation of the JSON tree (envelope, payload, nested constant envelopes; numbers -> {0,1,2^31,2^64-1,-1,1.5,x-1,x+1,0..=n+1}, \
         arrays drop/dup/swap/empty, strings unknown/empty, keys removed/renamed/added, bool flip, null->id, wrong type x6); \
         distinct = distinct mutated texts that are rejected or accepted as a context different from the seed",
        true,
        &[
            "evaluation of accepted mutants is attempted only if all node types together hold <= 2^16 bits (others are counted as accepted_eval_skipped_large)",
            "single mutations only (no pairs)",
            "panic sites are identified by message + source file + mutated payload table, not by line number",
        ],
        &nonvac,
    )
}

pub fn replay(r: &Report, rec: &serde_json::Value) -> i32 {
    let case = &rec["case"];
    let want = rec["signature"].as_str().unwrap_or("");
    if case["half"].as_str() == Some("AV") {
        // the value corpus is tiny: re-run all of it and look for the recorded signature
        let rr = Report::new("C12", r.tier, r.seed);
        run_half_a_values(&rr);
        println!("replay C12 value round trip of {} {}", case["kind"], case["name"]);
        println!("expected: to_string deterministic, from_str Ok and equal, identical re-serialization");
        let n = rr.get("violating_cases");
        println!("observed: {} value(s) of the corpus do not round-trip", n);
        return if n > 0 { 1 } else { 0 };
    }
    if case["half"].as_str() == Some("A") {
        let name = case["name"].as_str().unwrap_or("");
        let entries = corpus::corpus(true);
        let e = match entries.iter().find(|e| e.name == name) {
            Some(e) => e,
            None => {
                println!("replay: corpus entry {} not found", name);
                return 2;
            }
        };
        let c = match catch(|| (e.build)()) {
            Ok(Ok(c)) => c,
            other => {
                println!("replay: corpus entry {} cannot be built: {:?}", name, other.map(|x| x.err()));
                return 2;
            }
        };
        let st = check_roundtrip(&c, r.seed, 1);
        println!("replay C12 half A, corpus entry {} ({} graphs, {} nodes)", name, st.graphs, st.nodes);
        println!("expected: identical text on repeated serialization, Ok reload, deep equality, identical re-serialization, identical evaluation");
        if st.viols.is_empty() {
            println!("observed: all round-trip checks hold");
        }
        for v in st.viols.iter() {
            println!("observed: [{}] {}", v.sig, v.what);
        }
        return if st.viols.iter().any(|v| v.sig == want) || (want.is_empty() && !st.viols.is_empty()) { 1 } else { 0 };
    }
    if case["half"].as_str() == Some("sandbox") {
        return sandbox_child(case);
    }
    let target = case["target"].as_str().unwrap_or("Context");
    let text = case["text"].as_str().unwrap_or("");
    let seed_text = case["seed_text"].as_str().unwrap_or("");
    let o = if case["sandboxed"].as_bool() == Some(true) {
        match sandbox_run(target, seed_text, &[text.to_string()], &[case["field"].as_str().unwrap_or("").to_string()], "replay") {
            Ok((mut v, _)) => v.remove(0),
            Err(e) => {
                println!("replay: sandbox failed: {}", e);
                return 2;
            }
        }
    } else {
        check_text(target, text, seed_text, None)
    };
    println!("replay C12 half B, target {}, seed {}, mutation {}", target, case["seed"], case["mutation"]);
    println!("input text: {}", text);
    println!("expected: from_str returns Err, or Ok with a well-formed, round-tripping, evaluable {}", target);
    match &o.viol {
        Some(v) => {
            println!("observed: [{}] {}", v.sig, v.what);
            if want.is_empty() || v.sig == want {
                1
            } else {
                println!("(a different violation than the recorded {})", want);
                1
            }
        }
        None => {
            println!("observed: {}", if o.class == "err" { "Err (rejected cleanly)" } else { "Ok, well-formed" });
            0
        }
    }
}
