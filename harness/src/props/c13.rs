//! C13 - values encode integers faithfully, in bytes and in JSON.
//!
//! Bounded-exhaustive exploration of the conversion API of `Value` / `TypedValue`:
//!  * `scalar`  : Value::from_scalar / TypedValue::from_scalar and the ten scalar getters
//!  * `flat`    : from_flattened_array(_u64) / from_ndarray, the ten flattened getters, the eleven to_ndarray
//!  * `bits`    : bit arrays of every length 1..=17 with every pattern (striped patterns for longer ones)
//!  * `ctype`   : check_type / TypedValue::new for every byte length 0..=40 and wrong-arity trees
//!  * `json`    : TypedValue -> JSON text -> TypedValue over a nested type alphabet x value alphabet
//! Oracle: native integer casts (`as`) for reduction / sign extension, the byte layout helpers of
//! `vals.rs`, and an expected-JSON builder written here.
use crate::common::Report;
use serde_json::{json, Value as J};
use std::collections::BTreeMap;

#[macro_use]
mod ints;
mod conv;
mod ctype;
mod tjson;

/// one failed expectation
#[derive(Clone, Debug)]
pub struct Fail {
    pub sig: String,
    pub what: String,
    pub case: J,
}

/// per-partition accumulator; merged into the Report in enumeration order
#[derive(Default)]
pub struct Acc {
    pub counters: BTreeMap<&'static str, u64>,
    pub fails: Vec<Fail>,
    pub nviol: u64,
    pub distinct: Vec<u64>,
    pub samples: Vec<J>,
    pub by_sig: BTreeMap<String, u64>,
}

/// violating cases per signature over the whole run (written to the evidence file)
static BY_SIG: std::sync::Mutex<BTreeMap<String, u64>> = std::sync::Mutex::new(BTreeMap::new());

impl Acc {
    pub fn c(&mut self, k: &'static str, n: u64) {
        *self.counters.entry(k).or_insert(0) += n;
    }
    pub fn fail(&mut self, sig: String, what: String, case: &dyn Fn() -> J) {
        self.nviol += 1;
        *self.by_sig.entry(sig.clone()).or_insert(0) += 1;
        if self.fails.iter().any(|f| f.sig == sig) {
            return;
        }
        self.fails.push(Fail { sig, what, case: case() });
    }
    pub fn merge_into(self, r: &Report) {
        for (k, v) in self.counters.iter() {
            r.count(k, *v);
        }
        for h in self.distinct.iter() {
            r.distinct(*h);
        }
        for s in self.samples.into_iter() {
            r.sample(s);
        }
        {
            let mut g = BY_SIG.lock().unwrap();
            for (k, v) in self.by_sig.iter() {
                *g.entry(k.clone()).or_insert(0) += *v;
            }
        }
        let kept = self.fails.len() as u64;
        for f in self.fails.into_iter() {
            r.violation(&f.sig, &f.what, f.case);
        }
        if self.nviol > kept {
            r.count("violating_cases", self.nviol - kept);
        }
    }
}

pub fn run(r: &Report) -> i32 {
    let thorough = r.tier.thorough();
    let timing = std::env::var("VERIF_TIMING").is_ok();
    let lap = |what: &str| {
        if timing {
            eprintln!("C13 timing: {} done at {:.2}s", what, r.elapsed());
        }
    };
    conv::run_scalar(r, thorough);
    lap("scalar");
    conv::run_flat(r, thorough);
    lap("flat");
    conv::run_bits(r, thorough);
    lap("bits");
    ctype::run(r, thorough);
    lap("ctype");
    tjson::run(r, thorough);
    lap("json");
    r.extra("violating_cases_by_signature", json!(*BY_SIG.lock().unwrap()));
    r.finish(
        "exploration",
        "scalar: every (scalar type, input integer, Rust input type the integer fits in): integers = [-2^w, 2^(w+1)] for the 8/16-bit types, \
         {0,+-1,+-2^k,+-2^k+-1 : k<=128} + min/max of every width for all types; flat/ndarray: every (constructor, scalar type, shape, input type) \
         on the boundary alphabet, all ten getters, same-size reinterpretations; bits: every pattern of every length 1..=17 (striped for longer); \
         ctype: every value (bytes of length 0..=40 x 3 fills, well-formed trees and all single-point mutants) x every type of the alphabet; \
         json: every type of the nested alphabet (depth<=2) x rotating value alphabet, all 8/16-bit scalars. \
         distinct_nontrivial = distinct (section, type, input) tuples with a non-zero input",
        true,
        &[
            "check_type is required to check sizes/arity only: its doc comment and examples speak of byte lengths; stray high bits in the last byte of a bit array are accepted and must be ignored by the readers (counted in ctype_stray_bits_accepted)",
            "from_scalar/from_flattened_array on BIT accept exactly {0,1} (bytes.rs: 'Input is not a bit'); other inputs must be an error, not a silent reduction",
            "from_flattened_array_u64 may reject an integer outside [-2^63, 2^64); if it accepts it the bytes must be the integer mod 2^w",
            "ndarray inputs are manufactured through to_ndarray of a zero value and overwritten element-wise (the harness crate has no direct ndarray dependency); their shape and logical order are asserted before use",
            "to_ndarray::<bool> is only specified for BIT arrays",
        ],
        &[
            "evaluations",
            "scalar_cases",
            "scalar_reduced_mod_2w",
            "scalar_sign_extended_reads",
            "scalar_bit_rejects",
            "flat_cases",
            "flat_getter_checks",
            "flat_reinterpretations",
            "ndarray_roundtrips",
            "ndarray_noncontiguous",
            "bits_patterns",
            "bits_ragged_patterns",
            "bits_stray_reads",
            "ctype_accept",
            "ctype_reject",
            "ctype_wrong_arity_rejects",
            "json_roundtrips",
            "json_negative_numbers",
            "json_numbers_over_64_bits",
            "json_nested_depth2",
        ],
    )
}

pub fn replay(_r: &Report, rec: &J) -> i32 {
    let case = &rec["case"];
    let want = rec["signature"].as_str().unwrap_or("").to_string();
    let mut acc = Acc::default();
    let section = case["section"].as_str().unwrap_or("");
    let ok = match section {
        "scalar" => conv::replay_scalar(case, &mut acc),
        "flat" => conv::replay_flat(case, &mut acc),
        "bits" => conv::replay_bits(case, &mut acc),
        "ctype" => ctype::replay(case, &mut acc),
        "json" => tjson::replay(case, &mut acc),
        _ => false,
    };
    if !ok {
        println!("MACHINERY-ERROR property=C13 cannot decode replay case (section '{}')", section);
        return 2;
    }
    println!("REPLAY property=C13 section={} case={}", section, case);
    if acc.fails.is_empty() {
        println!("REPLAY property=C13 all expectations hold on this case: not reproduced");
        return 0;
    }
    let mut hit = false;
    for f in acc.fails.iter() {
        println!("REPLAY property=C13 signature={} {}", f.sig, f.what);
        if f.sig == want {
            hit = true;
        }
    }
    if hit || want.is_empty() {
        println!("REPLAY property=C13 reproduced");
        1
    } else {
        println!("REPLAY property=C13 recorded signature {} not reproduced (other expectations fail)", want);
        1
    }
}

pub fn jerr(section: &str, rest: J) -> J {
    let mut m = serde_json::Map::new();
    m.insert("section".into(), json!(section));
    if let J::Object(o) = rest {
        for (k, v) in o {
            m.insert(k, v);
        }
    }
    J::Object(m)
}
