//! C17 - bit-level arithmetic helpers are exact: BinaryAdd (sum mod 2^w, carry-out), Mux, Clip2K,
//! LongDivision (floored quotient and remainder).
//!
//! As in C16: one graph per configuration built with the real builder, instantiated and inlined by
//! the real passes, evaluated once (or a few times) by the real evaluator on arrays holding all
//! operands. Oracles are native integer arithmetic.
use super::c16::bits::*;
use crate::common::Report;
use crate::vals;
use ciphercore_base::custom_ops::CustomOperation;
use ciphercore_base::data_types::{tuple_type, ScalarType, BIT};
use ciphercore_base::ops::adder::BinaryAdd;
use ciphercore_base::ops::clip::Clip2K;
use ciphercore_base::ops::long_division::LongDivision;
use ciphercore_base::ops::multiplexer::Mux;
use rayon::prelude::*;
use serde::{Deserialize, Serialize};
use serde_json::{json, Value as J};

#[derive(Clone, Debug, Serialize, Deserialize, Default)]
struct Spec {
    /// add | mux | muxa | clip | div
    kind: String,
    /// width (dividend width for div)
    w: u32,
    /// divisor width (div only)
    wd: u32,
    /// add: overflow bit requested; div: signed
    flag: bool,
    /// clip: k; mux: index of the shape triple
    k: u64,
    layout: String,
    mode: String,
    /// muxa: scalar type of the choices
    st: String,
    thorough: bool,
    /// clip rows: the input list is cut into `chunks` equal parts, this job evaluates part `chunk`
    /// (chunks == 0: the structured subset of the 16-bit inputs)
    #[serde(default)]
    chunk: u32,
    #[serde(default)]
    chunks: u32,
}

impl Spec {
    fn key(&self) -> String {
        match self.kind.as_str() {
            "add" => format!("add:ov={}:w{}:{}:{}", self.flag, self.w, self.layout, self.mode),
            "mux" => format!("mux:bits:shapes{}", self.k),
            "muxa" => format!("mux:{}:{}", self.st, self.layout),
            "clip" => format!(
                "clip:w{}:k{}:{}:{}{}",
                self.w,
                self.k,
                self.layout,
                self.mode,
                if self.layout != "rows" {
                    String::new()
                } else if self.chunks == 0 {
                    ":subset".to_string()
                } else {
                    format!(":part{}of{}", self.chunk + 1, self.chunks)
                }
            ),
            _ => format!(
                "div:{}:w{}/{}:{}:{}{}",
                if self.flag { "signed" } else { "unsigned" },
                self.w,
                self.wd,
                self.layout,
                self.mode,
                if self.chunks > 1 {
                    format!(":full:part{}of{}", self.chunk + 1, self.chunks)
                } else if self.thorough {
                    ":full".to_string()
                } else {
                    String::new()
                }
            ),
        }
    }
    fn json(&self) -> J {
        serde_json::to_value(self).unwrap()
    }
}

// ---------------------------------------------------------------------------------------------
// BinaryAdd

/// operand pairs of the paired layout: all pairs for w <= 8, else all pairs of the value alphabet plus,
/// for every bit i and in both orders: (2^i-1, 1) carry chain 0..i; (2^w-1, 2^i) and (ones<<i, 2^i)
/// chains from bit i through the top (carry-out); (2^i, 2^i) generate at bit i only;
/// (pattern with all lower bits set, 1); and the full-length chains (x, !x) [no carry], (x, !x + 1) [carry
/// through every position], (2^w-1, 1), (2^w-1, 2^w-1)
fn add_pairs(w: u32) -> (Vec<u128>, Vec<u128>) {
    let mut a = vec![];
    let mut b = vec![];
    if w <= 8 {
        let m = 1u128 << w;
        for x in 0..m {
            for y in 0..m {
                a.push(x);
                b.push(y);
            }
        }
        return (a, b);
    }
    let m = mask(w);
    let v = value_alphabet(w);
    for x in v.iter() {
        for y in v.iter() {
            a.push(*x);
            b.push(*y);
        }
    }
    let p55 = 0x5555_5555_5555_5555_5555_5555_5555_5555u128 & m;
    let mut both = |x: u128, y: u128| {
        a.push(x & m);
        b.push(y & m);
        a.push(y & m);
        b.push(x & m);
    };
    for x in [p55, !p55 & m, 0, m, 1u128 << (w - 1)] {
        both(x, !x);
        both(x, (!x).wrapping_add(1));
    }
    for i in 0..w {
        let bit = 1u128 << i;
        let below = bit - 1;
        both(below, 1);
        both(m, bit);
        both(m & !below, bit);
        both(bit, bit);
        both((p55 & !(bit | below)) | below, 1);
    }
    (a, b)
}

fn run_add(spec: &Spec) -> JobOut {
    let mut out = JobOut::default();
    let w = spec.w;
    let sig = |kind: &str| format!("C17:add:ov={}:{}:{}", spec.flag, kind, spec.layout);
    let (sa, sb, evals) = layout(w, &spec.layout, add_pairs);
    let built = match build(
        CustomOperation::new(BinaryAdd { overflow_bit: spec.flag }),
        &[bit_t(&sa), bit_t(&sb)],
        &spec.mode,
    ) {
        Ok(b) => b,
        Err(e) => {
            if !w.is_power_of_two() && e.contains("power of 2") {
                out.count("add_non_power_of_two_rejected_as_documented", 1);
            } else {
                out.violation(
                    &sig("rejected"),
                    format!("{} rejected for {:?} x {:?}: {}", spec.key(), sa, sb, e),
                    json!({"spec": spec.json(), "error": e}),
                );
            }
            return out;
        }
    };
    out.distinct.push(spec.key());
    out.count("graphs_built", 1);
    out.count("graph_nodes", built.nodes);
    let la = &sa[..sa.len() - 1];
    let lb = &sb[..sb.len() - 1];
    let lead = bcast_shape(la, lb).expect("layout shapes broadcast");
    let n = numel(&lead);
    let mut s_sum = lead.clone();
    s_sum.push(w as u64);
    let mut s_ov = lead.clone();
    s_ov.push(1);
    let exp_t = if spec.flag { tuple_type(vec![bit_t(&s_sum), bit_t(&s_ov)]) } else { bit_t(&s_sum) };
    if built.out_t != exp_t {
        out.violation(
            &sig("type"),
            format!("{}: output type {} instead of {}", spec.key(), built.out_t, exp_t),
            json!({"spec": spec.json(), "observed_type": format!("{}", built.out_t), "expected_type": format!("{}", exp_t)}),
        );
        return out;
    }
    let m = mask(w);
    let (mut n_pairs, mut n_carry, mut n_chain) = (0u64, 0u64, 0u64);
    for (ei, (a, b)) in evals.iter().enumerate() {
        out.count("graph_evaluations", 1);
        let v = match eval(&built, &[pack_words(a, w), pack_words(b, w)]) {
            Ok(v) => v,
            Err(e) => {
                out.violation(
                    &sig("eval-error"),
                    format!("{}: evaluation failed: {}", spec.key(), e),
                    json!({"spec": spec.json(), "evaluation": ei, "a": hex_list(a), "b": hex_list(b), "error": e}),
                );
                continue;
            }
        };
        let decoded = if spec.flag {
            match v.to_vector() {
                Ok(vs) if vs.len() == 2 => match (unpack_words(&vs[0], n, w), unpack_bits(&vs[1], n)) {
                    (Some(s), Some(o)) => Some((s, o)),
                    _ => None,
                },
                _ => None,
            }
        } else {
            unpack_words(&v, n, w).map(|s| (s, vec![]))
        };
        let (sums, ovs) = match decoded {
            Some(d) => d,
            None => {
                out.violation(
                    &sig("layout"),
                    format!("{}: output value does not have the layout of {}", spec.key(), exp_t),
                    json!({"spec": spec.json(), "evaluation": ei, "a": hex_list(a), "b": hex_list(b)}),
                );
                continue;
            }
        };
        for idx in 0..n {
            let x = a[bcast_index(&lead, idx, la)];
            let y = b[bcast_index(&lead, idx, lb)];
            let (s128, c128) = x.overflowing_add(y);
            let exp_sum = s128 & m;
            let exp_ov = if w == 128 { c128 as u128 } else { (s128 >> w) & 1 };
            n_pairs += 1;
            n_carry += exp_ov as u64;
            // a carry generated at bit 0 that is propagated by every higher position
            if x & y & 1 == 1 && ((x ^ y) | 1) & m == m {
                n_chain += 1;
            }
            if sums[idx] != exp_sum {
                out.violation(
                    &sig("wrong-sum"),
                    format!("BinaryAdd(overflow_bit={}) w={} {:?}x{:?}: {} + {} = {} but expected {}",
                        spec.flag, w, sa, sb, hex(x), hex(y), hex(sums[idx]), hex(exp_sum)),
                    json!({"spec": spec.json(), "evaluation": ei, "element": idx, "x": hex(x), "y": hex(y),
                           "observed": hex(sums[idx]), "expected": hex(exp_sum), "a": hex_list(a), "b": hex_list(b)}),
                );
            }
            if spec.flag && ovs[idx] != exp_ov {
                out.violation(
                    &sig("wrong-carry"),
                    format!("BinaryAdd(overflow_bit=true) w={} {:?}x{:?}: carry-out of {} + {} is {} but expected {}",
                        w, sa, sb, hex(x), hex(y), ovs[idx], exp_ov),
                    json!({"spec": spec.json(), "evaluation": ei, "element": idx, "x": hex(x), "y": hex(y),
                           "observed": hex(ovs[idx]), "expected": hex(exp_ov), "a": hex_list(a), "b": hex_list(b)}),
                );
            }
        }
        if ei == 0 {
            out.samples.push(json!({"spec": spec.key(), "shapes": [sa, sb], "pairs_in_first_evaluation": n,
                "first_pair": [hex(a[0]), hex(b[0])], "observed_sum": hex(sums[0])}));
        }
    }
    out.count("evaluations", n_pairs);
    out.count("add_pairs", n_pairs);
    if spec.flag {
        out.count("add_carry_out_expected", n_carry);
    }
    out.count("add_full_length_carry_chains", n_chain);
    if la != lb {
        out.count("broadcast_cases", n_pairs);
    }
    if w <= 8 && (spec.layout == "paired" || spec.layout == "outer") {
        out.count("exhaustive_sweeps", 1);
    }
    out
}

// ---------------------------------------------------------------------------------------------
// Mux

/// (flag shape, choice-1 shape, choice-0 shape); the second one is the documentation's example
fn mux_triples() -> Vec<(Vec<u64>, Vec<u64>, Vec<u64>)> {
    vec![
        (vec![], vec![], vec![]),
        (vec![1], vec![3], vec![3]),
        (vec![3], vec![], vec![3]),
        (vec![], vec![2, 2], vec![2]),
        (vec![2, 1, 1], vec![1, 2, 1], vec![1, 1, 2]),
        (vec![2, 1], vec![2, 2], vec![2]),
        (vec![2], vec![2, 2], vec![2, 2]),
        (vec![2, 3], vec![1, 3], vec![2, 1]),
    ]
}

fn mux_out_shape(sf: &[u64], s1: &[u64], s0: &[u64]) -> Vec<u64> {
    bcast_shape(&bcast_shape(sf, s1).expect("mux shapes"), s0).expect("mux shapes")
}

/// all assignments of bits to the three operands of one shape triple
fn run_mux_bits(spec: &Spec) -> JobOut {
    let mut out = JobOut::default();
    let (sf, s1, s0) = mux_triples()[spec.k as usize].clone();
    let sig = |kind: &str| format!("C17:mux:bits:{}", kind);
    let built = match build(CustomOperation::new(Mux {}), &[bit_t(&sf), bit_t(&s1), bit_t(&s0)], &spec.mode) {
        Ok(b) => b,
        Err(e) => {
            out.violation(
                &sig("rejected"),
                format!("Mux rejected for bit shapes {:?},{:?},{:?}: {}", sf, s1, s0, e),
                json!({"spec": spec.json(), "error": e}),
            );
            return out;
        }
    };
    out.distinct.push(spec.key());
    out.count("graphs_built", 1);
    out.count("graph_nodes", built.nodes);
    let so = mux_out_shape(&sf, &s1, &s0);
    let exp_t = bit_t(&so);
    if built.out_t != exp_t {
        out.violation(
            &sig("type"),
            format!("Mux {:?},{:?},{:?}: output type {} instead of {}", sf, s1, s0, built.out_t, exp_t),
            json!({"spec": spec.json(), "observed_type": format!("{}", built.out_t), "expected_type": format!("{}", exp_t)}),
        );
        return out;
    }
    let (nf, n1, n0, no) = (numel(&sf), numel(&s1), numel(&s0), numel(&so));
    let total = nf + n1 + n0;
    let (mut cases, mut sel1, mut sel0) = (0u64, 0u64, 0u64);
    for asg in 0u64..(1u64 << total) {
        let bits = |off: usize, n: usize| -> Vec<u128> { (0..n).map(|i| ((asg >> (off + i)) & 1) as u128).collect() };
        let f = bits(0, nf);
        let c1 = bits(nf, n1);
        let c0 = bits(nf + n1, n0);
        out.count("graph_evaluations", 1);
        let case = || json!({"spec": spec.json(), "assignment": asg, "flag": hex_list(&f), "choice1": hex_list(&c1), "choice0": hex_list(&c0)});
        let v = match eval(&built, &[pack_words(&f, 1), pack_words(&c1, 1), pack_words(&c0, 1)]) {
            Ok(v) => v,
            Err(e) => {
                out.violation(&sig("eval-error"), format!("Mux {:?},{:?},{:?}: evaluation failed: {}", sf, s1, s0, e), case());
                continue;
            }
        };
        let got = match unpack_bits(&v, no) {
            Some(g) => g,
            None => {
                out.violation(&sig("layout"), format!("Mux {:?},{:?},{:?}: bad output layout", sf, s1, s0), case());
                continue;
            }
        };
        for idx in 0..no {
            let fl = f[bcast_index(&so, idx, &sf)];
            let x1 = c1[bcast_index(&so, idx, &s1)];
            let x0 = c0[bcast_index(&so, idx, &s0)];
            let exp = if fl == 1 { x1 } else { x0 };
            cases += 1;
            if x1 != x0 {
                if fl == 1 {
                    sel1 += 1
                } else {
                    sel0 += 1
                }
            }
            if got[idx] != exp {
                let mut c = case();
                c["element"] = json!(idx);
                c["observed"] = json!(hex(got[idx]));
                c["expected"] = json!(hex(exp));
                out.violation(
                    &sig("wrong"),
                    format!("Mux on bits, shapes {:?},{:?},{:?}, element {}: flag={} choice1={} choice0={} gives {} instead of {}",
                        sf, s1, s0, idx, fl, x1, x0, got[idx], exp),
                    c,
                );
            }
        }
    }
    out.samples.push(json!({"spec": spec.key(), "shapes": [sf, s1, s0], "assignments": 1u64 << total, "output_elements": no}));
    out.count("evaluations", cases);
    out.count("mux_cases", cases);
    out.count("mux_selected_first", sel1);
    out.count("mux_selected_second", sel0);
    if sf != so || s1 != so || s0 != so {
        out.count("broadcast_cases", cases);
    }
    out
}

fn st_of(name: &str) -> Option<ScalarType> {
    vals::ALL_ST.iter().find(|s| format!("{}", s) == name).cloned()
}

/// Mux with integer choices: flag [2,1,1] x choice1 [1,K,1] x choice0 [1,1,K] (all combinations of the
/// flag with the value alphabet in one evaluation), "scalar": three scalars, one evaluation per combination
fn run_mux_arith(spec: &Spec) -> JobOut {
    let mut out = JobOut::default();
    let st = st_of(&spec.st).expect("scalar type");
    let bitsw = vals::st_bits(&st);
    let m = mask(bitsw);
    let alpha: Vec<u128> = vec![0, 1, m, 1u128 << (bitsw - 1), (1u128 << (bitsw - 1)) - 1, 0x5555_5555_5555_5555_5555_5555_5555_5555 & m];
    let k = alpha.len() as u64;
    let sig = |kind: &str| format!("C17:mux:{}:{}", spec.st, kind);
    let mut evals: Vec<(Vec<u128>, Vec<u128>, Vec<u128>)> = vec![];
    let (sf, s1, s0) = if spec.layout == "outer" {
        evals.push((vec![0, 1], alpha.clone(), alpha.clone()));
        (vec![2u64, 1, 1], vec![1, k, 1], vec![1, 1, k])
    } else {
        for f in [0u128, 1] {
            for x in alpha.iter() {
                for y in alpha.iter() {
                    evals.push((vec![f], vec![*x], vec![*y]));
                }
            }
        }
        (vec![], vec![], vec![])
    };
    let built = match build(CustomOperation::new(Mux {}), &[bit_t(&sf), typ(&s1, st.clone()), typ(&s0, st.clone())], &spec.mode) {
        Ok(b) => b,
        Err(e) => {
            out.violation(
                &sig("rejected"),
                format!("Mux rejected for flag {:?} and {} choices {:?},{:?}: {}", sf, spec.st, s1, s0, e),
                json!({"spec": spec.json(), "error": e}),
            );
            return out;
        }
    };
    out.distinct.push(spec.key());
    out.count("graphs_built", 1);
    out.count("graph_nodes", built.nodes);
    let so = mux_out_shape(&sf, &s1, &s0);
    let exp_t = typ(&so, st.clone());
    if built.out_t != exp_t {
        out.violation(
            &sig("type"),
            format!("Mux {}: output type {} instead of {}", spec.key(), built.out_t, exp_t),
            json!({"spec": spec.json(), "observed_type": format!("{}", built.out_t), "expected_type": format!("{}", exp_t)}),
        );
        return out;
    }
    let no = numel(&so);
    let (mut cases, mut sel1, mut sel0) = (0u64, 0u64, 0u64);
    for (ei, (f, c1, c0)) in evals.iter().enumerate() {
        out.count("graph_evaluations", 1);
        let case = || json!({"spec": spec.json(), "evaluation": ei, "flag": hex_list(f), "choice1": hex_list(c1), "choice0": hex_list(c0)});
        let v = match eval(&built, &[pack_words(f, 1), vals::arr_value(c1, &st), vals::arr_value(c0, &st)]) {
            Ok(v) => v,
            Err(e) => {
                out.violation(&sig("eval-error"), format!("Mux {}: evaluation failed: {}", spec.key(), e), case());
                continue;
            }
        };
        let got = match vals::arr_elems(&v, &exp_t) {
            Some(g) => g,
            None => {
                out.violation(&sig("layout"), format!("Mux {}: bad output layout", spec.key()), case());
                continue;
            }
        };
        for idx in 0..no {
            let fl = f[bcast_index(&so, idx, &sf)];
            let x1 = c1[bcast_index(&so, idx, &s1)];
            let x0 = c0[bcast_index(&so, idx, &s0)];
            let exp = if fl == 1 { x1 } else { x0 };
            cases += 1;
            if x1 != x0 {
                if fl == 1 {
                    sel1 += 1
                } else {
                    sel0 += 1
                }
            }
            if got[idx] != exp {
                let mut c = case();
                c["element"] = json!(idx);
                c["observed"] = json!(hex(got[idx]));
                c["expected"] = json!(hex(exp));
                // one defect class gets one signature: the selection is exactly the opposite one
                // (observed the other operand) for every type; anything else is keyed by the type
                let other = if fl == 1 { x0 } else { x1 };
                let s = if got[idx] == other {
                    "C17:mux:integer-choices:reversed-selection".to_string()
                } else {
                    sig("wrong")
                };
                out.violation(
                    &s,
                    format!("Mux on {} choices ({}): flag={} choice1={} choice0={} gives {} instead of {}",
                        spec.st, spec.layout, fl, hex(x1), hex(x0), hex(got[idx]), hex(exp)),
                    c,
                );
            }
        }
    }
    out.count("evaluations", cases);
    out.count("mux_cases", cases);
    out.count("mux_integer_cases", cases);
    out.count("mux_selected_first", sel1);
    out.count("mux_selected_second", sel0);
    if spec.layout == "outer" {
        out.count("broadcast_cases", cases);
    }
    out
}

// ---------------------------------------------------------------------------------------------
// Clip2K

/// all 2^w inputs for w <= 16; otherwise 0, +-1, +-2, min, min+1, max, max-1 and, for every bit j,
/// 2^j, 2^j-1, 2^j+1, -(2^j)
fn clip_inputs(w: u32) -> Vec<u128> {
    if w <= 16 {
        return (0..(1u128 << w)).collect();
    }
    let m = mask(w);
    let mut v: Vec<u128> = vec![];
    let mut push = |x: u128| {
        let x = x & m;
        if !v.contains(&x) {
            v.push(x);
        }
    };
    let min = 1u128 << (w - 1);
    for x in [0, 1, m, 2, m - 1, min, min + 1, min - 1, min - 2] {
        push(x);
    }
    for j in 0..w {
        let p = 1u128 << j;
        push(p);
        push(p - 1);
        push(p + 1);
        push(p.wrapping_neg());
    }
    v
}

fn clip_oracle(x: u128, w: u32, k: u64) -> u128 {
    let sx = sext(x, w);
    // k <= w-2 <= 126, so 2^k is representable
    let top = 1i128 << k;
    if sx <= 0 {
        0
    } else if sx >= top {
        top as u128
    } else {
        x
    }
}

fn run_clip(spec: &Spec) -> JobOut {
    let mut out = JobOut::default();
    let w = spec.w;
    let k = spec.k;
    let sig = |kind: &str| format!("C17:clip:{}:{}", kind, spec.layout);
    let mut all = clip_inputs(w);
    if spec.layout == "rows" {
        if spec.chunks == 0 {
            // quick-tier subset of the 16-bit inputs: all low bytes under 16 boundary high bytes
            let highs: [u128; 16] = [0, 1, 2, 3, 4, 8, 0x10, 0x20, 0x40, 0x55, 0x7e, 0x7f, 0x80, 0x81, 0xfe, 0xff];
            all.retain(|x| w <= 8 || highs.contains(&(x >> (w - 8))));
        } else {
            let per = (all.len() + spec.chunks as usize - 1) / spec.chunks as usize;
            let lo = (spec.chunk as usize * per).min(all.len());
            let hi = (lo + per).min(all.len());
            all = all[lo..hi].to_vec();
        }
    }
    // rows: one [N,w] array; single: [w], a handful of inputs, one evaluation each; rank3: [2,3,w]
    let (shape, evals): (Vec<u64>, Vec<Vec<u128>>) = match spec.layout.as_str() {
        "rows" => (vec![all.len() as u64, w as u64], vec![all.clone()]),
        "single" => {
            let top = 1u128 << k;
            let m = mask(w);
            let mut xs = vec![0u128, 1, m, top, top.wrapping_sub(1) & m, (top + 1) & m, 1u128 << (w - 1), (1u128 << (w - 1)) - 1, top << 1];
            xs.dedup();
            (vec![w as u64], xs.into_iter().map(|x| vec![x & m]).collect())
        }
        _ => {
            let top = 1u128 << k;
            let m = mask(w);
            let xs = vec![0u128, top.wrapping_sub(1) & m, top, m, (top + 1) & m, 1u128 << (w - 1),
                          1, (1u128 << (w - 1)) - 1, (top << 1) & m, m - 1, 2 & m, top >> 1];
            (vec![2, 3, w as u64], vec![xs[0..6].to_vec(), xs[6..12].to_vec()])
        }
    };
    let built = match build(CustomOperation::new(Clip2K { k }), &[bit_t(&shape)], &spec.mode) {
        Ok(b) => b,
        Err(e) => {
            out.violation(
                &sig("rejected"),
                format!("{} rejected for {:?}: {}", spec.key(), shape, e),
                json!({"spec": spec.json(), "error": e}),
            );
            return out;
        }
    };
    out.distinct.push(spec.key());
    out.count("graphs_built", 1);
    out.count("graph_nodes", built.nodes);
    let exp_t = bit_t(&shape);
    if built.out_t != exp_t {
        out.violation(
            &sig("type"),
            format!("{}: output type {} instead of {}", spec.key(), built.out_t, exp_t),
            json!({"spec": spec.json(), "observed_type": format!("{}", built.out_t), "expected_type": format!("{}", exp_t)}),
        );
        return out;
    }
    let (mut cases, mut neg, mut large, mut pass) = (0u64, 0u64, 0u64, 0u64);
    for (ei, xs) in evals.iter().enumerate() {
        out.count("graph_evaluations", 1);
        let v = match eval(&built, &[pack_words(xs, w)]) {
            Ok(v) => v,
            Err(e) => {
                out.violation(
                    &sig("eval-error"),
                    format!("{}: evaluation failed: {}", spec.key(), e),
                    json!({"spec": spec.json(), "evaluation": ei, "input": hex_list(xs), "error": e}),
                );
                continue;
            }
        };
        let got = match unpack_words(&v, xs.len(), w) {
            Some(g) => g,
            None => {
                out.violation(
                    &sig("layout"),
                    format!("{}: bad output layout", spec.key()),
                    json!({"spec": spec.json(), "evaluation": ei, "input": hex_list(xs)}),
                );
                continue;
            }
        };
        for (idx, x) in xs.iter().enumerate() {
            let exp = clip_oracle(*x, w, k);
            cases += 1;
            let sx = sext(*x, w);
            if sx < 0 {
                neg += 1
            } else if sx >= (1i128 << k) {
                large += 1
            } else if sx > 0 {
                pass += 1
            }
            if got[idx] != exp {
                out.violation(
                    &sig("wrong"),
                    format!("Clip2K(k={}) on {}-bit input {} ({}; shape {:?}, {}) gives {} instead of {}",
                        k, w, sx, hex(*x), shape, spec.mode, hex(got[idx]), hex(exp)),
                    json!({"spec": spec.json(), "evaluation": ei, "element": idx, "x": hex(*x),
                           "observed": hex(got[idx]), "expected": hex(exp), "input": hex_list(xs)}),
                );
            }
        }
        if ei == 0 && spec.layout == "rows" {
            out.samples.push(json!({"spec": spec.key(), "shape": shape, "inputs": xs.len()}));
        }
    }
    out.count("evaluations", cases);
    out.count("clip_cases", cases);
    out.count("clip_negative_inputs", neg);
    out.count("clip_inputs_at_or_above_2k", large);
    out.count("clip_inputs_passed_through", pass);
    if w <= 16 && spec.layout == "rows" && spec.chunks > 0 && spec.chunk == 0 {
        out.count("exhaustive_sweeps", 1);
    }
    out
}

// ---------------------------------------------------------------------------------------------
// LongDivision

/// floored division by native arithmetic; operands are bit patterns of wn / wd bits
fn div_oracle(signed: bool, wn: u32, wd: u32, n: u128, d: u128) -> (u128, u128) {
    if signed {
        let ni = sext(n, wn);
        let di = sext(d, wd);
        let mut q = ni.wrapping_div(di);
        let mut r = ni.wrapping_rem(di);
        if r != 0 && ((r < 0) != (di < 0)) {
            q -= 1;
            r += di;
        }
        ((q as u128) & mask(wn), (r as u128) & mask(wd))
    } else {
        ((n / d) & mask(wn), (n % d) & mask(wd))
    }
}

/// the two defining equations: q*d + r == n (mod 2^wn); r == 0 or (sign(r) == sign(d) and |r| < |d|)
fn div_equations_hold(signed: bool, wn: u32, wd: u32, n: u128, d: u128, q: u128, r: u128) -> bool {
    if signed {
        let (di, qi, ri) = (sext(d, wd), sext(q, wn), sext(r, wd));
        let lhs = (qi.wrapping_mul(di).wrapping_add(ri) as u128) & mask(wn);
        let sign_ok = ri == 0 || ((ri < 0) == (di < 0) && ri.unsigned_abs() < di.unsigned_abs());
        lhs == (sext(n, wn) as u128) & mask(wn) && sign_ok
    } else {
        let lhs = q.wrapping_mul(d).wrapping_add(r) & mask(wn);
        lhs == n & mask(wn) && r < d
    }
}

fn div_value_sets(signed: bool, w: u32, small: bool) -> (Vec<u128>, Vec<u128>) {
    // divisors (non-zero) and the dividends derived from each of them are assembled by the caller
    let m = mask(w);
    let min = 1u128 << (w - 1);
    let mut ds: Vec<u128> = vec![1, m, 3, min, min - 1, 0x5555_5555_5555_5555_5555_5555_5555_5555 & m];
    if !small {
        ds.extend([2, min + 1, 10, 10u128.wrapping_neg() & m, 7, (1u128 << (w / 2)) + 1, m - 1]);
    }
    let _ = signed;
    let mut seen = vec![];
    ds.retain(|d| {
        let keep = *d != 0 && !seen.contains(d);
        seen.push(*d);
        keep
    });
    let ns: Vec<u128> = vec![0, 1, m, min, min - 1];
    (ns, ds)
}

/// operand pairs (dividend pattern of wn bits, divisor pattern of wd bits), divisor non-zero
fn div_pairs(signed: bool, wn: u32, wd: u32, thorough: bool) -> (Vec<u128>, Vec<u128>) {
    let mut a = vec![];
    let mut b = vec![];
    let (mn, md) = (mask(wn), mask(wd));
    if wn <= 4 || wd <= 4 || (wn == 8 && wd == 8 && thorough) {
        if wn <= 16 && wd <= 16 && (wn + wd) <= 16 {
            // all pairs with non-zero divisor
            for n in 0..=mn {
                for d in 1..=md {
                    a.push(n);
                    b.push(d);
                }
            }
            return (a, b);
        }
    }
    if wn == 8 && wd == 8 {
        // quick tier: every pair of 4-bit-range operands, and complete boundary rows and columns
        let small: Vec<u128> = if signed { (0..8).chain(248..256).collect() } else { (0..16).collect() };
        for n in small.iter() {
            for d in small.iter() {
                if *d != 0 {
                    a.push(*n);
                    b.push(*d);
                }
            }
        }
        let rows = [0u128, 1, 2, 127, 128, 129, 254, 255];
        for n in rows {
            for d in 1..=255u128 {
                a.push(n);
                b.push(d);
            }
        }
        for d in [1u128, 2, 3, 127, 128, 129, 254, 255] {
            for n in 0..=255u128 {
                a.push(n);
                b.push(d);
            }
        }
        return (a, b);
    }
    // wider types: {0, +-1, min, max, +-divisor, divisor+-1, -divisor+-1, 2*divisor} for each divisor of the alphabet;
    // with different widths additionally the dividends whose leading bits are about the size of the divisor
    let small = !thorough && wn.max(wd) >= 128;
    let (ns, _) = div_value_sets(signed, wn, small);
    let (_, ds) = div_value_sets(signed, wd, small);
    for d in ds.iter() {
        // the divisor's value carried over to the dividend's width
        let dn: u128 = if signed { (sext(*d, wd) as u128) & mn } else { *d & mn };
        let mut cand: Vec<u128> = ns.clone();
        cand.extend([dn, dn.wrapping_neg() & mn, dn.wrapping_add(1) & mn, dn.wrapping_sub(1) & mn]);
        if !small {
            cand.extend([dn.wrapping_neg().wrapping_add(1) & mn, dn.wrapping_neg().wrapping_sub(1) & mn, dn.wrapping_mul(2) & mn]);
        }
        if wn > wd {
            // partial remainders close to the divisor while dividend bits are still to come
            let sh = wn - wd;
            cand.extend([(*d << sh) & mn, ((*d << sh) | 1) & mn, ((d.wrapping_sub(1) & md) << sh) & mn,
                         (((*d >> 1) | (1 << (wd - 1))) << (sh - 1)) & mn]);
        }
        let mut seen: Vec<u128> = vec![];
        for n in cand {
            if !seen.contains(&n) {
                seen.push(n);
                a.push(n);
                b.push(*d);
            }
        }
    }
    (a, b)
}

fn run_div(spec: &Spec) -> JobOut {
    let mut out = JobOut::default();
    let (wn, wd, signed) = (spec.w, spec.wd, spec.flag);
    let sgn = if signed { "signed" } else { "unsigned" };
    let widths = if wn == wd { "same-width" } else if wn > wd { "wider-dividend" } else { "wider-divisor" };
    let sig = |kind: &str| format!("C17:div:{}:{}:{}:{}", sgn, widths, kind, spec.layout);
    let (mut pa, mut pb) = div_pairs(signed, wn, wd, spec.thorough);
    if spec.chunks > 1 {
        // the complete 8-bit sweep is cut into equal parts evaluated by separate jobs
        let per = (pa.len() + spec.chunks as usize - 1) / spec.chunks as usize;
        let lo = (spec.chunk as usize * per).min(pa.len());
        let hi = (lo + per).min(pa.len());
        pa = pa[lo..hi].to_vec();
        pb = pb[lo..hi].to_vec();
    }
    let (sa, sb, evals): (Vec<u64>, Vec<u64>, Vec<(Vec<u128>, Vec<u128>)>) = match spec.layout.as_str() {
        "paired" => (vec![pa.len() as u64, wn as u64], vec![pb.len() as u64, wd as u64], vec![(pa, pb)]),
        "single" => {
            let step = (pa.len() / 6).max(1);
            let ev = (0..pa.len()).step_by(step).map(|i| (vec![pa[i]], vec![pb[i]])).collect();
            (vec![wn as u64], vec![wd as u64], ev)
        }
        "b3" => {
            // [3,wn] x [wd]
            let step = (pa.len() / 4).max(1);
            let ev = (0..pa.len()).step_by(step).map(|i| (window(&pa, i, 3), vec![pb[i]])).collect();
            (vec![3, wn as u64], vec![wd as u64], ev)
        }
        "b3r" => {
            // [wn] x [3,wd]
            let step = (pa.len() / 4).max(1);
            let ev = (0..pa.len()).step_by(step).map(|i| (vec![pa[i]], window(&pb, i, 3))).collect();
            (vec![wn as u64], vec![3, wd as u64], ev)
        }
        _ => {
            // b213: [2,1,wn] x [1,3,wd]
            let step = (pa.len() / 4).max(1);
            let ev = (0..pa.len()).step_by(step).map(|i| (window(&pa, i, 2), window(&pb, i + 1, 3))).collect();
            (vec![2, 1, wn as u64], vec![1, 3, wd as u64], ev)
        }
    };
    let built = match build(CustomOperation::new(LongDivision { signed }), &[bit_t(&sa), bit_t(&sb)], &spec.mode) {
        Ok(b) => b,
        Err(e) => {
            if wn == 1 || wd == 1 {
                // degenerate 1-bit words ("Empty slice" when the remainder register is shifted); not a wrong result
                out.count("div_one_bit_operands_rejected", 1);
            } else {
                out.violation(
                    &format!("C17:div:rejected:{}:{}", spec.layout, crate::common::stable_msg(&e)),
                    format!("{} rejected for {:?} x {:?}: {}", spec.key(), sa, sb, e),
                    json!({"spec": spec.json(), "error": e}),
                );
            }
            return out;
        }
    };
    out.distinct.push(spec.key());
    out.count("graphs_built", 1);
    out.count("graph_nodes", built.nodes);
    let la = &sa[..sa.len() - 1];
    let lb = &sb[..sb.len() - 1];
    let lead = bcast_shape(la, lb).expect("layout shapes broadcast");
    let n_out = numel(&lead);
    let mut sq = lead.clone();
    sq.push(wn as u64);
    let mut sr = lead.clone();
    sr.push(wd as u64);
    let exp_t = tuple_type(vec![bit_t(&sq), bit_t(&sr)]);
    if built.out_t != exp_t {
        out.violation(
            &sig("type"),
            format!("{}: output type {} instead of {}", spec.key(), built.out_t, exp_t),
            json!({"spec": spec.json(), "observed_type": format!("{}", built.out_t), "expected_type": format!("{}", exp_t)}),
        );
        return out;
    }
    let (mut cases, mut negn, mut negd, mut adj, mut minneg1, mut rem_nz) = (0u64, 0u64, 0u64, 0u64, 0u64, 0u64);
    for (ei, (a, b)) in evals.iter().enumerate() {
        out.count("graph_evaluations", 1);
        let v = match eval(&built, &[pack_words(a, wn), pack_words(b, wd)]) {
            Ok(v) => v,
            Err(e) => {
                out.violation(
                    &sig("eval-error"),
                    format!("{}: evaluation failed: {}", spec.key(), e),
                    json!({"spec": spec.json(), "evaluation": ei, "a": hex_list(a), "b": hex_list(b), "error": e}),
                );
                continue;
            }
        };
        let decoded = match v.to_vector() {
            Ok(vs) if vs.len() == 2 => match (unpack_words(&vs[0], n_out, wn), unpack_words(&vs[1], n_out, wd)) {
                (Some(q), Some(r)) => Some((q, r)),
                _ => None,
            },
            _ => None,
        };
        let (qs, rs) = match decoded {
            Some(d) => d,
            None => {
                out.violation(
                    &sig("layout"),
                    format!("{}: bad output layout", spec.key()),
                    json!({"spec": spec.json(), "evaluation": ei, "a": hex_list(a), "b": hex_list(b)}),
                );
                continue;
            }
        };
        for idx in 0..n_out {
            let n = a[bcast_index(&lead, idx, la)];
            let d = b[bcast_index(&lead, idx, lb)];
            if d == 0 {
                continue;
            }
            let (eq, er) = div_oracle(signed, wn, wd, n, d);
            assert!(div_equations_hold(signed, wn, wd, n, d, eq, er), "oracle self-check failed for {} / {}", n, d);
            cases += 1;
            if er != 0 {
                rem_nz += 1;
            }
            if signed {
                let (ni, di) = (sext(n, wn), sext(d, wd));
                negn += (ni < 0) as u64;
                negd += (di < 0) as u64;
                if er != 0 && ((ni < 0) != (di < 0)) {
                    adj += 1;
                }
                if di == -1 && n == 1u128 << (wn - 1) {
                    minneg1 += 1;
                }
            }
            if qs[idx] != eq || rs[idx] != er {
                let shown = |x: u128, w: u32| if signed { sext(x, w).to_string() } else { x.to_string() };
                let eqs_ok = div_equations_hold(signed, wn, wd, n, d, qs[idx], rs[idx]);
                // input class of the result: unsigned divisors above half of their range with a wider dividend
                // form one class (the partial remainder needs wd+1 bits there), independent of the layout
                let s = if !signed && wn > wd && d > (1u128 << (wd - 1)) {
                    "C17:div:unsigned:wider-dividend:divisor-above-half-range:wrong".to_string()
                } else {
                    sig("wrong")
                };
                out.violation(
                    &s,
                    format!("LongDivision({}) {}-bit / {}-bit, shapes {:?}x{:?}: {} / {} gives (q={}, r={}) instead of (q={}, r={}); defining equations {} for the observed pair",
                        sgn, wn, wd, sa, sb, shown(n, wn), shown(d, wd), shown(qs[idx], wn), shown(rs[idx], wd),
                        shown(eq, wn), shown(er, wd), if eqs_ok { "hold" } else { "fail" }),
                    json!({"spec": spec.json(), "evaluation": ei, "element": idx, "n": hex(n), "d": hex(d),
                           "observed": [hex(qs[idx]), hex(rs[idx])], "expected": [hex(eq), hex(er)],
                           "a": hex_list(a), "b": hex_list(b)}),
                );
            }
        }
        if ei == 0 && spec.layout == "paired" {
            out.samples.push(json!({"spec": spec.key(), "shapes": [sa, sb], "pairs": n_out,
                "first": {"n": hex(a[0]), "d": hex(b[0]), "q": hex(qs[0]), "r": hex(rs[0])}}));
        }
    }
    out.count("evaluations", cases);
    out.count("div_cases", cases);
    out.count("div_nonzero_remainder", rem_nz);
    out.count("div_negative_dividend", negn);
    out.count("div_negative_divisor", negd);
    out.count("div_floor_differs_from_truncation", adj);
    out.count("div_min_over_minus_one", minneg1);
    if la != lb {
        out.count("broadcast_cases", cases);
    }
    if spec.layout == "paired" && spec.chunk == 0 && ((wn + wd <= 16 && (wn <= 4 || wd <= 4)) || (wn == 8 && wd == 8 && spec.thorough)) {
        out.count("exhaustive_sweeps", 1);
    }
    out
}

// ---------------------------------------------------------------------------------------------

fn run_job(spec: &Spec) -> JobOut {
    let t0 = std::time::Instant::now();
    let o = run_job_inner(spec);
    if std::env::var("VERIF_PROFILE").is_ok() && t0.elapsed().as_secs_f64() > 1.0 {
        eprintln!("profile: {:.1} s {}", t0.elapsed().as_secs_f64(), spec.key());
    }
    o
}

fn run_job_inner(spec: &Spec) -> JobOut {
    match spec.kind.as_str() {
        "add" => run_add(spec),
        "mux" => run_mux_bits(spec),
        "muxa" => run_mux_arith(spec),
        "clip" => run_clip(spec),
        _ => run_div(spec),
    }
}

fn specs(thorough: bool) -> Vec<Spec> {
    let mut out = vec![];
    let s = |x: &str| x.to_string();
    // --- Mux
    for k in 0..mux_triples().len() {
        out.push(Spec { kind: s("mux"), k: k as u64, mode: s("simple"), ..Default::default() });
    }
    for st in vals::ALL_ST.iter().filter(|t| **t != BIT) {
        for layout in ["scalar", "outer"] {
            out.push(Spec { kind: s("muxa"), st: format!("{}", st), layout: s(layout), mode: s("simple"), ..Default::default() });
        }
    }
    // --- BinaryAdd: supported widths, then widths that must be rejected (or be exact)
    for w in [1u32, 2, 4, 8, 16, 32, 64, 128, 3, 5, 6, 7, 12] {
        for flag in [false, true] {
            let mut cfgs = vec![("paired", "simple"), ("single", "simple"), ("b3", "simple"), ("b3r", "simple"), ("b213", "simple"), ("c31", "simple"), ("c41s", "simple")];
            if thorough || w != 8 {
                cfgs.push(("outer", "simple"));
                cfgs.push(("paired", "depth"));
            }
            for (layout, mode) in cfgs {
                out.push(Spec { kind: s("add"), w, flag, layout: s(layout), mode: s(mode), ..Default::default() });
            }
        }
    }
    // --- Clip2K
    // (the evaluator needs ~15 us per input bit of this graph, so the 2^16 x 15 sweep is rationed in the quick tier)
    let clip_ws: Vec<u32> = if thorough { (2..=128).collect() } else { vec![2, 3, 4, 5, 6, 7, 8, 12, 16, 32, 33, 64, 128] };
    for w in clip_ws {
        let all_k = w <= 16 || (thorough && [24, 32, 33, 64, 65, 128].contains(&w)) || (!thorough && w == 33);
        let ks: Vec<u64> = if all_k {
            (0..(w as u64 - 1)).collect()
        } else {
            vec![0, 1, w as u64 / 2, w as u64 - 3, w as u64 - 2]
        };
        for k in ks {
            // rows: (mode, chunks); chunks == 0 is the structured subset
            let mut rows: Vec<(&str, u32)> = vec![];
            let full = thorough || w < 16 || [0, 7, 14].contains(&k);
            let parts = if w >= 16 { 8 } else if w >= 14 { 2 } else { 1 };
            rows.push(("simple", if w > 16 { 1 } else if full { parts } else { 0 }));
            // the Or-reduction is an Iterate over an associative graph: the depth-optimised inliner takes another path
            if w <= 12 || w >= 32 {
                rows.push(("depth", 1));
            } else if thorough && w <= 16 {
                rows.push(("depth", parts));
            }
            for (mode, chunks) in rows {
                for chunk in 0..chunks.max(1) {
                    out.push(Spec { kind: s("clip"), w, k, layout: s("rows"), mode: s(mode), chunk, chunks, ..Default::default() });
                }
            }
            let mut cfgs = vec![("single", "simple"), ("rank3", "simple")];
            if w <= 8 {
                cfgs.push(("single", "depth"));
            }
            for (layout, mode) in cfgs {
                out.push(Spec { kind: s("clip"), w, k, layout: s(layout), mode: s(mode), ..Default::default() });
            }
        }
    }
    // --- LongDivision
    let mut wpairs: Vec<(u32, u32)> = vec![(1, 1), (2, 2), (4, 2), (4, 4), (8, 8), (8, 4), (4, 8), (16, 16), (16, 8), (8, 16), (32, 32), (32, 8), (64, 64), (128, 128)];
    if thorough {
        wpairs.extend([(16, 4), (2, 8), (64, 16), (16, 64), (128, 32), (128, 64)]);
    }
    for (wn, wd) in wpairs {
        for flag in [false, true] {
            let mut cfgs = vec![("paired", "simple")];
            if wn <= 32 {
                cfgs.extend([("single", "simple"), ("b3", "simple"), ("b3r", "simple"), ("b213", "simple")]);
            }
            if thorough && wn <= 16 {
                cfgs.push(("paired", "depth"));
            }
            for (layout, mode) in cfgs {
                let chunks = if thorough && (wn, wd) == (8, 8) && layout == "paired" { 8 } else { 1 };
                for chunk in 0..chunks {
                    out.push(Spec { kind: s("div"), w: wn, wd, flag, layout: s(layout), mode: s(mode), thorough, chunk, chunks, ..Default::default() });
                }
            }
        }
    }
    out
}

pub fn run(r: &Report) -> i32 {
    let mut sp = specs(r.tier.thorough());
    // development knob: restrict to one kind (the run is then reported as vacuous for the other kinds)
    if let Ok(only) = std::env::var("VERIF_C17_ONLY") {
        sp.retain(|s| s.kind == only);
    }
    let outs: Vec<JobOut> = sp.par_iter().map(run_job).collect();
    for o in outs {
        o.merge_into(r);
    }
    profile_report();
    r.finish(
        "exploration",
        "one graph per configuration, all operands in one array. BinaryAdd(+-overflow bit): widths 1,2,4,8 all pairs (paired [P,w]x[P,w] and outer \
         [M,1,w]x[1,M,w] layouts), widths 16..128 pair alphabet (value alphabet squared; for every bit i carry chains 0..i, i..top, generate-only; \
         (x,!x), (x,!x+1) full-length chains), shapes [w]x[w], [3,w]x[w], [w]x[3,w], [2,1,w]x[1,3,w]; widths 3,5,6,7,12 must be rejected. \
         Mux: every bit assignment of 8 shape triples (incl. the documented [2,3],[1,3],[2,1]); integer choices of all 10 scalar types x value alphabet x flag. \
         Clip2K: all inputs for widths <=16 x all k<=w-2 (quick tier: widths 2..8, 12 and 16, and at 16 bits all inputs only for k in {0,7,14}, else the 4096 inputs with 16 boundary high bytes), wider widths boundary alphabet (0,+-1,+-2,min,max, 2^j, 2^j+-1, -2^j for every j); shapes [N,w], [w], [2,3,w]; \
         simple and depth-optimised inlining. LongDivision signed/unsigned: widths 2,4 and 8/4, 4/8 all pairs with non-zero divisor, 8/8 all 65280 pairs (quick: 4-bit-range \
         operands plus 8 complete boundary rows and 8 columns), wider and mixed widths {0,+-1,min,max,+-d,d+-1,-d+-1,2d} x divisor alphabet. \
         evaluations = operand tuples compared with the oracle; distinct = graph configurations built and evaluated",
        true,
        &[
            "the evaluator is the library's SimpleEvaluator on the instantiated and inlined graph (plaintext semantics)",
            "division by zero is outside the property; LongDivision on 1-bit words is rejected by the library and not counted as a violation",
            "BinaryAdd on a width that is not a power of two must be rejected (documented); if it were accepted the sums would be checked",
            "for widths above 16 (Clip2K) / above 8 (BinaryAdd, LongDivision) operands come from the described alphabets, not from all values",
        ],
        &[
            "evaluations",
            "graphs_built",
            "exhaustive_sweeps",
            "add_pairs",
            "add_carry_out_expected",
            "add_full_length_carry_chains",
            "add_non_power_of_two_rejected_as_documented",
            "mux_selected_first",
            "mux_selected_second",
            "mux_integer_cases",
            "clip_negative_inputs",
            "clip_inputs_at_or_above_2k",
            "clip_inputs_passed_through",
            "div_cases",
            "div_negative_dividend",
            "div_negative_divisor",
            "div_floor_differs_from_truncation",
            "div_min_over_minus_one",
            "broadcast_cases",
        ],
    )
}

pub fn replay(_r: &Report, rec: &J) -> i32 {
    let spec: Spec = match rec
        .get("case")
        .and_then(|c| c.get("spec"))
        .and_then(|s| serde_json::from_value(s.clone()).ok())
    {
        Some(s) => s,
        None => {
            println!("MACHINERY-ERROR property=C17 replay record has no usable case.spec");
            return 2;
        }
    };
    let want = rec.get("signature").and_then(|s| s.as_str()).unwrap_or("");
    println!("replaying {} (all evaluations of this graph configuration)", spec.key());
    let out = run_job(&spec);
    let mut hit = 0;
    for (sig, what, case) in out.violations.iter() {
        println!("signature={} {}", sig, what);
        if let Some(e) = case.get("error") {
            println!("  expected=accepted and evaluated observed={}", e);
        } else {
            println!(
                "  expected={} observed={}",
                case.get("expected").or(case.get("expected_type")).unwrap_or(&J::Null),
                case.get("observed").or(case.get("observed_type")).unwrap_or(&J::Null)
            );
        }
        if want.is_empty() || sig == want {
            hit = 1;
        }
    }
    if hit == 1 {
        println!("REPRODUCED property=C17 signature={}", want);
    } else {
        println!("NOT-REPRODUCED property=C17 signature={}", want);
    }
    hit
}
