//! C11 reference model of a pair of contexts: boring, written from the documentation of the
//! builder API; shares no code with graphs.rs / type_inference.rs.
use super::alpha::*;
use serde_json::{json, Value as J};

#[derive(Clone, Copy, PartialEq, Eq, Debug)]
pub enum St {
    Bit,
    I32,
    U8,
}
impl St {
    fn bits(self) -> u64 {
        match self {
            St::Bit => 1,
            St::I32 => 32,
            St::U8 => 8,
        }
    }
    fn s(self) -> &'static str {
        match self {
            St::Bit => "bit",
            St::I32 => "i32",
            St::U8 => "u8",
        }
    }
}

#[derive(Clone, PartialEq, Eq, Debug)]
pub enum MT {
    Sc(St),
    Arr(Vec<u64>, St),
    Tup(Vec<MT>),
    Vect(u64, Box<MT>),
}

impl MT {
    pub fn of(t: Ty) -> MT {
        match t {
            Ty::Bit => MT::Sc(St::Bit),
            Ty::I32x2 => MT::Arr(vec![2], St::I32),
            Ty::U8x100 => MT::Arr(vec![100], St::U8),
            Ty::I32x300 => MT::Arr(vec![300], St::I32),
            Ty::Vec2Bit => MT::Vect(2, Box::new(MT::Sc(St::Bit))),
        }
    }
    /// same text format as real::ty_str
    pub fn text(&self) -> String {
        match self {
            MT::Sc(s) => s.s().to_string(),
            MT::Arr(sh, s) => format!("{}{:?}", s.s(), sh),
            MT::Tup(v) => format!("({})", v.iter().map(|t| t.text()).collect::<Vec<_>>().join(",")),
            MT::Vect(n, e) => format!("vec{}<{}>", n, e.text()),
        }
    }
    /// documented memory estimate: element bits * (elements + 1), vectors (len + 1) * element, tuples sum; + 1 overhead
    pub fn size(&self) -> u64 {
        1 + match self {
            MT::Sc(s) => s.bits(),
            MT::Arr(sh, s) => s.bits() * (sh.iter().product::<u64>() + 1),
            MT::Vect(n, e) => (n + 1) * e.size(),
            MT::Tup(v) => v.iter().map(|t| t.size()).sum(),
        }
    }
    fn json(&self) -> J {
        match self {
            MT::Sc(s) => json!({"Scalar": s.s()}),
            MT::Arr(sh, s) => json!({"Array": [sh, s.s()]}),
            MT::Vect(n, e) => json!({"Vector": [n, e.json()]}),
            MT::Tup(v) => json!({"Tuple": v.iter().map(|t| t.json()).collect::<Vec<_>>()}),
        }
    }
}

/// NumPy broadcasting of scalars / arrays of one scalar type
fn broadcast(a: &MT, b: &MT) -> Option<MT> {
    let (sa, ta) = match a {
        MT::Sc(s) => (vec![], *s),
        MT::Arr(sh, s) => (sh.clone(), *s),
        _ => return None,
    };
    let (sb, tb) = match b {
        MT::Sc(s) => (vec![], *s),
        MT::Arr(sh, s) => (sh.clone(), *s),
        _ => return None,
    };
    if ta != tb {
        return None;
    }
    let n = sa.len().max(sb.len());
    let mut out = vec![0u64; n];
    for i in 0..n {
        let da = if i + sa.len() >= n { sa[i + sa.len() - n] } else { 1 };
        let db = if i + sb.len() >= n { sb[i + sb.len() - n] } else { 1 };
        out[i] = if da == db || db == 1 {
            da
        } else if da == 1 {
            db
        } else {
            return None;
        };
    }
    Some(if n == 0 { MT::Sc(ta) } else { MT::Arr(out, ta) })
}

#[derive(Clone, PartialEq, Eq, Debug)]
pub enum MOp {
    Input(MT),
    Add,
    Tuple,
    Const(MT, Vec<u8>),
    Not,
    Call,
    Iterate,
}
impl MOp {
    fn text(&self) -> String {
        match self {
            MOp::Input(t) => format!("Input({})", t.text()),
            MOp::Add => "Add".into(),
            MOp::Tuple => "CreateTuple".into(),
            MOp::Const(t, b) => format!("Constant({},{})", t.text(), hex(b)),
            MOp::Not => "Custom(Not)".into(),
            MOp::Call => "Call".into(),
            MOp::Iterate => "Iterate".into(),
        }
    }
    /// serialized form (format of the serialized contexts shipped with the repository's tests)
    fn json(&self) -> J {
        match self {
            MOp::Input(t) => json!({"Input": t.json()}),
            MOp::Add => json!("Add"),
            MOp::Tuple => json!("CreateTuple"),
            MOp::Const(t, b) => {
                let inner = format!(
                    "{{\"body\":{{\"Bytes\":[{}]}}}}",
                    b.iter().map(|x| x.to_string()).collect::<Vec<_>>().join(",")
                );
                json!({"Constant": [t.json(), {"version": 2, "data": inner}]})
            }
            MOp::Not => json!({"Custom": {"body": {"type": "Not"}}}),
            MOp::Call => json!("Call"),
            MOp::Iterate => json!("Iterate"),
        }
    }
}

pub fn hex(b: &[u8]) -> String {
    b.iter().map(|x| format!("{:02x}", x)).collect()
}

/// bytes of the constants of the alphabet (matching value); the mismatching value is a single bit scalar
pub fn const_bytes(t: Ty) -> Vec<u8> {
    match t {
        Ty::I32x2 => vec![1, 0, 0, 0, 2, 0, 0, 0],
        Ty::U8x100 => (0..100u8).collect(),
        _ => vec![],
    }
}

pub const NODE_ANNOT: [&str; 2] = ["AssociativeOperation", "Private"];
pub const GRAPH_ANNOT: &str = "AssociativeOperation";

#[derive(Clone, Debug)]
pub struct MNode {
    pub op: MOp,
    pub deps: Vec<usize>,
    pub gdeps: Vec<usize>,
    pub ty: MT,
    pub name: Option<Nm>,
    pub annots: Vec<u8>,
}
#[derive(Clone, Debug, Default)]
pub struct MGraph {
    pub nodes: Vec<MNode>,
    pub output: Option<usize>,
    pub finalized: bool,
    pub name: Option<Nm>,
    pub annots: usize,
}
#[derive(Clone, Debug, Default)]
pub struct MCtx {
    pub graphs: Vec<MGraph>,
    pub main: Option<usize>,
    pub finalized: bool,
    pub total: u64,
}

/// why the model rejects a call
#[derive(Clone, Copy, PartialEq, Eq, Debug)]
pub enum Why {
    CtxFinalized,
    GraphFinalized,
    BadNodeDeps,
    BadCallee,
    TypeError,
    SizeIndividual,
    SizeTotal,
    NameTwice,
    NameTaken,
    ForeignCtx,
    OutputAlreadySet,
    OutputForeign,
    NoOutput,
    MainAlreadySet,
    MainNotFinalized,
    GraphsNotFinalized,
    NoMain,
}
impl Why {
    /// the library has pushed the node and must roll it back
    pub fn is_rollback(self) -> bool {
        matches!(self, Why::TypeError | Why::SizeIndividual | Why::SizeTotal)
    }
}

#[derive(Clone, Debug)]
pub struct Model {
    pub ctx: [MCtx; 2],
    /// (MAX_INDIVIDUAL_NODE_SIZE, MAX_TOTAL_SIZE_NODES) of the build, None = practically unlimited
    pub limits: Option<(u64, u64)>,
}

impl Model {
    pub fn new(limits: Option<(u64, u64)>) -> Model {
        Model { ctx: [MCtx::default(), MCtx::default()], limits }
    }
    pub fn graph(&self, g: G) -> Option<&MGraph> {
        self.ctx[g.0.ix()].graphs.get(g.1)
    }
    pub fn node(&self, n: N) -> Option<&MNode> {
        self.graph(n.0).and_then(|g| g.nodes.get(n.1))
    }
    fn gmut(&mut self, g: G) -> &mut MGraph {
        &mut self.ctx[g.0.ix()].graphs[g.1]
    }

    /// exploration bound + existence of every referenced object
    pub fn enabled(&self, a: &Act) -> bool {
        let (gs, ns) = a.refs();
        if gs.iter().any(|g| self.graph(*g).is_none()) || ns.iter().any(|n| self.node(*n).is_none()) {
            return false;
        }
        if let Act::CreateGraph(c) = a {
            return self.ctx[c.ix()].graphs.len() < MAX_GRAPHS[c.ix()];
        }
        if let Some(g) = a.adds_node_to() {
            let mg = self.graph(g).unwrap();
            return mg.finalized || mg.nodes.len() < MAX_NODES;
        }
        true
    }

    fn add_node(
        &mut self,
        g: G,
        op: MOp,
        deps: &[N],
        callee: Option<G>,
        infer: impl FnOnce(&Model, &[MT]) -> Option<MT>,
    ) -> Result<(), Why> {
        if self.graph(g).unwrap().finalized {
            return Err(Why::GraphFinalized);
        }
        if deps.iter().any(|d| d.0 != g) {
            return Err(Why::BadNodeDeps);
        }
        if let Some(c) = callee {
            let mc = self.graph(c).unwrap();
            if !mc.finalized || c.0 != g.0 || c.1 >= g.1 {
                return Err(Why::BadCallee);
            }
        }
        let tys: Vec<MT> = deps.iter().map(|d| self.node(*d).unwrap().ty.clone()).collect();
        let ty = infer(self, &tys).ok_or(Why::TypeError)?;
        let sz = ty.size();
        if let Some((ind, tot)) = self.limits {
            if sz > ind {
                return Err(Why::SizeIndividual);
            }
            if matches!(op, MOp::Input(_) | MOp::Const(..)) && self.ctx[g.0.ix()].total + sz > tot {
                return Err(Why::SizeTotal);
            }
        }
        if matches!(op, MOp::Input(_) | MOp::Const(..)) {
            self.ctx[g.0.ix()].total += sz;
        }
        let node = MNode {
            op,
            deps: deps.iter().map(|d| d.1).collect(),
            gdeps: callee.iter().map(|c| c.1).collect(),
            ty,
            name: None,
            annots: vec![],
        };
        self.gmut(g).nodes.push(node);
        Ok(())
    }

    fn callee_inputs(&self, c: G) -> Vec<MT> {
        self.graph(c)
            .unwrap()
            .nodes
            .iter()
            .filter_map(|n| if let MOp::Input(t) = &n.op { Some(t.clone()) } else { None })
            .collect()
    }
    fn callee_output(&self, c: G) -> Option<MT> {
        let mg = self.graph(c).unwrap();
        mg.output.map(|o| mg.nodes[o].ty.clone())
    }

    /// Applies one call; Err(why) leaves the model unchanged.
    pub fn apply(&mut self, a: &Act) -> Result<(), Why> {
        match a {
            Act::CreateGraph(c) => {
                if self.ctx[c.ix()].finalized {
                    return Err(Why::CtxFinalized);
                }
                self.ctx[c.ix()].graphs.push(MGraph::default());
                Ok(())
            }
            Act::Input(g, t) => self.add_node(*g, MOp::Input(MT::of(*t)), &[], None, |_, _| Some(MT::of(*t))),
            Act::Add(g, x, y) => self.add_node(*g, MOp::Add, &[*x, *y], None, |_, t| broadcast(&t[0], &t[1])),
            Act::Tuple(g, x, y) => {
                self.add_node(*g, MOp::Tuple, &[*x, *y], None, |_, t| Some(MT::Tup(vec![t[0].clone(), t[1].clone()])))
            }
            Act::Const(g, t, ok) => {
                let bytes = if *ok { const_bytes(*t) } else { vec![1] };
                let ok = *ok;
                self.add_node(*g, MOp::Const(MT::of(*t), bytes), &[], None, |_, _| if ok { Some(MT::of(*t)) } else { None })
            }
            Act::Not(g, x) => self.add_node(*g, MOp::Not, &[*x], None, |_, t| broadcast(&t[0], &MT::Sc(St::Bit))),
            Act::Call(g, c, args) => {
                let c = *c;
                self.add_node(*g, MOp::Call, args, Some(c), |m, t| {
                    if m.callee_inputs(c) != t {
                        return None;
                    }
                    m.callee_output(c)
                })
            }
            Act::Iterate(g, c, s, i) => {
                let c = *c;
                self.add_node(*g, MOp::Iterate, &[*s, *i], Some(c), |m, t| {
                    let ins = m.callee_inputs(c);
                    if ins.len() != 2 {
                        return None;
                    }
                    let out = match m.callee_output(c)? {
                        MT::Tup(v) if v.len() == 2 => v,
                        _ => return None,
                    };
                    if out[0] != ins[0] || t[0] != ins[0] {
                        return None;
                    }
                    match &t[1] {
                        MT::Vect(len, e) if **e == ins[1] => {
                            Some(MT::Tup(vec![ins[0].clone(), MT::Vect(*len, Box::new(out[1].clone()))]))
                        }
                        _ => None,
                    }
                })
            }
            Act::SetName(n, nm) => self.set_node_name(n.0 .0, *n, *nm),
            Act::CtxSetNodeName(c, n, nm) => self.set_node_name(*c, *n, *nm),
            Act::SetGraphName(g, nm) => self.set_graph_name(g.0, *g, *nm),
            Act::CtxSetGraphName(c, g, nm) => self.set_graph_name(*c, *g, *nm),
            Act::NodeAnnot(n, k) => {
                if self.ctx[n.0 .0.ix()].finalized {
                    return Err(Why::CtxFinalized);
                }
                self.gmut(n.0).nodes[n.1].annots.push(*k);
                Ok(())
            }
            Act::GraphAnnot(g) => {
                if self.ctx[g.0.ix()].finalized {
                    return Err(Why::CtxFinalized);
                }
                self.gmut(*g).annots += 1;
                Ok(())
            }
            Act::SetOutput(g, n) => {
                if self.graph(*g).unwrap().output.is_some() {
                    return Err(Why::OutputAlreadySet);
                }
                if n.0 != *g {
                    return Err(Why::OutputForeign);
                }
                self.gmut(*g).output = Some(n.1);
                Ok(())
            }
            Act::Finalize(g) => {
                if self.graph(*g).unwrap().output.is_none() {
                    return Err(Why::NoOutput);
                }
                self.gmut(*g).finalized = true;
                Ok(())
            }
            Act::SetMain(c, g) => {
                if self.ctx[c.ix()].main.is_some() {
                    return Err(Why::MainAlreadySet);
                }
                if g.0 != *c {
                    return Err(Why::ForeignCtx);
                }
                if !self.graph(*g).unwrap().finalized {
                    return Err(Why::MainNotFinalized);
                }
                self.ctx[c.ix()].main = Some(g.1);
                Ok(())
            }
            Act::FinalizeCtx(c) => {
                let mc = &mut self.ctx[c.ix()];
                if mc.graphs.iter().any(|g| !g.finalized) {
                    return Err(Why::GraphsNotFinalized);
                }
                if mc.main.is_none() {
                    return Err(Why::NoMain);
                }
                mc.finalized = true;
                Ok(())
            }
        }
    }

    fn set_node_name(&mut self, c: Cx, n: N, nm: Nm) -> Result<(), Why> {
        if n.0 .0 != c {
            return Err(Why::ForeignCtx);
        }
        if self.ctx[c.ix()].finalized {
            return Err(Why::CtxFinalized);
        }
        if self.node(n).unwrap().name.is_some() {
            return Err(Why::NameTwice);
        }
        if self.graph(n.0).unwrap().nodes.iter().any(|x| x.name == Some(nm)) {
            return Err(Why::NameTaken);
        }
        self.gmut(n.0).nodes[n.1].name = Some(nm);
        Ok(())
    }
    fn set_graph_name(&mut self, c: Cx, g: G, nm: Nm) -> Result<(), Why> {
        if g.0 != c {
            return Err(Why::ForeignCtx);
        }
        if self.ctx[c.ix()].finalized {
            return Err(Why::CtxFinalized);
        }
        if self.graph(g).unwrap().name.is_some() {
            return Err(Why::NameTwice);
        }
        if self.ctx[c.ix()].graphs.iter().any(|x| x.name == Some(nm)) {
            return Err(Why::NameTaken);
        }
        self.gmut(g).name = Some(nm);
        Ok(())
    }

    /// expected observation through the public getters, same format as real::observe
    pub fn text(&self) -> String {
        let mut s = String::new();
        let opt = |o: Option<usize>| o.map(|x| x.to_string()).unwrap_or_else(|| "-".into());
        for (ci, c) in self.ctx.iter().enumerate() {
            s.push_str(&format!(
                "ctx{} fin={} main={} ngraphs={} rg[",
                ci,
                c.finalized as u8,
                opt(c.main),
                c.graphs.len()
            ));
            for nm in NAMES {
                s.push_str(&format!("{}={},", nm.s(), opt(c.graphs.iter().position(|g| g.name == Some(nm)))));
            }
            s.push_str("]\n");
            for (gi, g) in c.graphs.iter().enumerate() {
                s.push_str(&format!(
                    " g{} name={} ann=[{}] out={} n={} rn[",
                    gi,
                    g.name.map(|n| n.s()).unwrap_or("-"),
                    vec![GRAPH_ANNOT; g.annots].join(","),
                    opt(g.output),
                    g.nodes.len()
                ));
                for nm in NAMES {
                    s.push_str(&format!("{}={},", nm.s(), opt(g.nodes.iter().position(|n| n.name == Some(nm)))));
                }
                s.push_str("]\n");
                for (ni, n) in g.nodes.iter().enumerate() {
                    s.push_str(&format!(
                        "  n{} {} d={:?} gd={:?} t={} name={} ann=[{}]\n",
                        ni,
                        n.op.text(),
                        n.deps,
                        n.gdeps,
                        n.ty.text(),
                        n.name.map(|n| n.s()).unwrap_or("-"),
                        n.annots.iter().map(|k| NODE_ANNOT[*k as usize]).collect::<Vec<_>>().join(",")
                    ));
                }
            }
        }
        s
    }

    /// expected payload ("data") of the serialized context
    pub fn json(&self, c: Cx) -> J {
        let mc = &self.ctx[c.ix()];
        let mut graphs = vec![];
        let mut gnames = vec![];
        let mut nnames = vec![];
        let mut nann = vec![];
        let mut gann = vec![];
        for (gi, g) in mc.graphs.iter().enumerate() {
            let nodes: Vec<J> = g
                .nodes
                .iter()
                .map(|n| json!({"node_dependencies": n.deps, "graph_dependencies": n.gdeps, "operation": n.op.json()}))
                .collect();
            graphs.push(json!({"finalized": g.finalized, "nodes": nodes, "output_node": g.output}));
            if let Some(nm) = g.name {
                gnames.push(json!([gi, nm.s()]));
            }
            if g.annots > 0 {
                gann.push(json!([gi, vec![GRAPH_ANNOT; g.annots]]));
            }
            for (ni, n) in g.nodes.iter().enumerate() {
                if let Some(nm) = n.name {
                    nnames.push(json!([[gi, ni], nm.s()]));
                }
                if !n.annots.is_empty() {
                    nann.push(json!([[gi, ni], n.annots.iter().map(|k| NODE_ANNOT[*k as usize]).collect::<Vec<_>>()]));
                }
            }
        }
        json!({
            "finalized": mc.finalized,
            "graphs": graphs,
            "main_graph": mc.main,
            "graphs_names": gnames,
            "nodes_names": nnames,
            "nodes_annotations": nann,
            "graphs_annotations": gann,
        })
    }
}
