//! C11 action alphabet: slots, types, actions, preludes.

#[derive(Clone, Copy, PartialEq, Eq, Debug, Hash, PartialOrd, Ord)]
pub enum Cx {
    A,
    B,
}
impl Cx {
    pub fn ix(self) -> usize {
        match self {
            Cx::A => 0,
            Cx::B => 1,
        }
    }
}

/// graph slot: (context, index of the graph in that context)
#[derive(Clone, Copy, PartialEq, Eq, Debug, Hash, PartialOrd, Ord)]
pub struct G(pub Cx, pub usize);
/// node slot: (graph slot, index of the node in that graph)
#[derive(Clone, Copy, PartialEq, Eq, Debug, Hash, PartialOrd, Ord)]
pub struct N(pub G, pub usize);

#[derive(Clone, Copy, PartialEq, Eq, Debug, Hash, PartialOrd, Ord)]
pub enum Ty {
    Bit,
    I32x2,
    U8x100,
    I32x300,
    Vec2Bit,
}

#[derive(Clone, Copy, PartialEq, Eq, Debug, Hash, PartialOrd, Ord)]
pub enum Nm {
    A,
    B,
}
impl Nm {
    pub fn s(self) -> &'static str {
        match self {
            Nm::A => "a",
            Nm::B => "b",
        }
    }
}
pub const NAMES: [Nm; 2] = [Nm::A, Nm::B];

#[derive(Clone, PartialEq, Eq, Debug, Hash)]
pub enum Act {
    CreateGraph(Cx),
    Input(G, Ty),
    Add(G, N, N),
    Tuple(G, N, N),
    /// constant of the given type; bool = the value matches the type
    Const(G, Ty, bool),
    Not(G, N),
    /// Call(caller graph, callee graph, arguments)
    Call(G, G, Vec<N>),
    /// Iterate(caller graph, callee graph, state, input sequence)
    Iterate(G, G, N, N),
    /// node.set_name(name)
    SetName(N, Nm),
    /// context.set_node_name(node, name) called on the given context (node may be foreign)
    CtxSetNodeName(Cx, N, Nm),
    /// graph.set_name(name)
    SetGraphName(G, Nm),
    /// context.set_graph_name(graph, name) called on the given context (graph may be foreign)
    CtxSetGraphName(Cx, G, Nm),
    /// node.add_annotation: 0 = AssociativeOperation, 1 = Private
    NodeAnnot(N, u8),
    /// graph.add_annotation(AssociativeOperation)
    GraphAnnot(G),
    SetOutput(G, N),
    Finalize(G),
    SetMain(Cx, G),
    FinalizeCtx(Cx),
}

impl Act {
    pub fn kind(&self) -> &'static str {
        match self {
            Act::CreateGraph(..) => "CreateGraph",
            Act::Input(..) => "Input",
            Act::Add(..) => "Add",
            Act::Tuple(..) => "CreateTuple",
            Act::Const(..) => "Constant",
            Act::Not(..) => "CustomNot",
            Act::Call(..) => "Call",
            Act::Iterate(..) => "Iterate",
            Act::SetName(..) => "SetNodeName",
            Act::CtxSetNodeName(..) => "CtxSetNodeName",
            Act::SetGraphName(..) => "SetGraphName",
            Act::CtxSetGraphName(..) => "CtxSetGraphName",
            Act::NodeAnnot(..) => "NodeAnnotation",
            Act::GraphAnnot(..) => "GraphAnnotation",
            Act::SetOutput(..) => "SetOutput",
            Act::Finalize(..) => "FinalizeGraph",
            Act::SetMain(..) => "SetMain",
            Act::FinalizeCtx(..) => "FinalizeContext",
        }
    }
    /// graph that receives a new node, if the action is a node-adding one
    pub fn adds_node_to(&self) -> Option<G> {
        match self {
            Act::Input(g, _)
            | Act::Add(g, _, _)
            | Act::Tuple(g, _, _)
            | Act::Const(g, _, _)
            | Act::Not(g, _)
            | Act::Call(g, _, _)
            | Act::Iterate(g, _, _, _) => Some(*g),
            _ => None,
        }
    }
    /// every graph / node slot the action refers to (they must exist for the action to be enabled)
    pub fn refs(&self) -> (Vec<G>, Vec<N>) {
        match self {
            Act::CreateGraph(_) | Act::FinalizeCtx(_) => (vec![], vec![]),
            Act::Input(g, _) | Act::Const(g, _, _) => (vec![*g], vec![]),
            Act::Add(g, x, y) | Act::Tuple(g, x, y) => (vec![*g], vec![*x, *y]),
            Act::Not(g, x) => (vec![*g], vec![*x]),
            Act::Call(g, c, args) => (vec![*g, *c], args.clone()),
            Act::Iterate(g, c, s, i) => (vec![*g, *c], vec![*s, *i]),
            Act::SetName(n, _) | Act::CtxSetNodeName(_, n, _) | Act::NodeAnnot(n, _) => (vec![], vec![*n]),
            Act::SetGraphName(g, _) | Act::CtxSetGraphName(_, g, _) | Act::GraphAnnot(g) | Act::Finalize(g) => {
                (vec![*g], vec![])
            }
            Act::SetOutput(g, n) => (vec![*g], vec![*n]),
            Act::SetMain(_, g) => (vec![*g], vec![]),
        }
    }
}

pub const A0: G = G(Cx::A, 0);
pub const A1: G = G(Cx::A, 1);
pub const B0: G = G(Cx::B, 0);
/// bound: graphs per context (A, B) and explored nodes per graph
pub const MAX_GRAPHS: [usize; 2] = [2, 1];
pub const MAX_NODES: usize = 4;

/// The fixed action alphabet, in enumeration order (simplest first).
pub fn alphabet() -> Vec<Act> {
    use Act::*;
    let n = |g: G, i: usize| N(g, i);
    vec![
        CreateGraph(Cx::A),
        CreateGraph(Cx::B),
        // inputs: bit, i32[2] (97 bits), u8[100] (809 bits), i32[300] (9633 bits > individual limit), vector
        Input(A0, Ty::Bit),
        Input(A0, Ty::I32x2),
        Input(A0, Ty::U8x100),
        Input(A0, Ty::I32x300),
        Input(A1, Ty::Bit),
        Input(A1, Ty::I32x2),
        Input(A1, Ty::U8x100),
        Input(A1, Ty::I32x300),
        Input(A1, Ty::Vec2Bit),
        Input(B0, Ty::Bit),
        // add: same graph (type-compatible or not, depending on the state), cross-graph, cross-context
        Add(A0, n(A0, 0), n(A0, 1)),
        Add(A0, n(A0, 1), n(A0, 2)),
        Add(A1, n(A1, 0), n(A1, 1)),
        Add(A1, n(A0, 0), n(A1, 0)),
        Add(A0, n(B0, 0), n(A0, 0)),
        Add(B0, n(B0, 0), n(B0, 0)),
        // tuples (2 x u8[100] exceeds the individual limit after successful type inference)
        Tuple(A0, n(A0, 0), n(A0, 1)),
        Tuple(A1, n(A1, 0), n(A1, 1)),
        // constants
        Const(A0, Ty::I32x2, true),
        Const(A0, Ty::I32x2, false),
        Const(A1, Ty::U8x100, true),
        // custom op
        Not(A0, n(A0, 0)),
        Not(A1, n(A1, 0)),
        // call / iterate
        Call(A1, A0, vec![n(A1, 0)]),
        Call(A1, A0, vec![n(A1, 0), n(A1, 1)]),
        Call(A0, A1, vec![n(A0, 0)]),
        Call(A1, A1, vec![n(A1, 0)]),
        Call(A1, B0, vec![n(A1, 0)]),
        Iterate(A1, A0, n(A1, 0), n(A1, 1)),
        Iterate(A0, A1, n(A0, 0), n(A0, 1)),
        // names
        SetName(n(A0, 0), Nm::A),
        SetName(n(A0, 0), Nm::B),
        SetName(n(A0, 1), Nm::A),
        SetName(n(A0, 1), Nm::B),
        SetName(n(A1, 0), Nm::A),
        CtxSetNodeName(Cx::A, n(B0, 0), Nm::B),
        SetGraphName(A0, Nm::A),
        SetGraphName(A0, Nm::B),
        SetGraphName(A1, Nm::A),
        CtxSetGraphName(Cx::A, B0, Nm::B),
        // annotations
        NodeAnnot(n(A0, 0), 0),
        NodeAnnot(n(A1, 0), 1),
        GraphAnnot(A0),
        // output / finalize / main
        SetOutput(A0, n(A0, 0)),
        SetOutput(A0, n(A0, 2)),
        SetOutput(A1, n(A1, 0)),
        SetOutput(A0, n(A1, 0)),
        SetOutput(B0, n(B0, 0)),
        Finalize(A0),
        Finalize(A1),
        Finalize(B0),
        SetMain(Cx::A, A0),
        SetMain(Cx::A, A1),
        SetMain(Cx::A, B0),
        FinalizeCtx(Cx::A),
    ]
}

/// Start states: histories executed before exploration starts (not bounded by MAX_NODES).
pub fn preludes() -> Vec<(&'static str, Vec<Act>)> {
    use Act::*;
    let n = |g: G, i: usize| N(g, i);
    let mut filler = vec![CreateGraph(Cx::A)];
    for _ in 0..12 {
        filler.push(Input(A0, Ty::U8x100)); // 12 * 809 = 9708 of the 10000-bit budget
    }
    filler.push(SetOutput(A0, n(A0, 0)));
    filler.push(Finalize(A0));
    vec![
        ("empty", vec![]),
        (
            // finalized graph usable as Call callee (bit,bit)->(bit,bit) and as Iterate body
            "callee",
            vec![
                CreateGraph(Cx::A),
                Input(A0, Ty::Bit),
                Input(A0, Ty::Bit),
                Tuple(A0, n(A0, 0), n(A0, 1)),
                SetOutput(A0, n(A0, 2)),
                Finalize(A0),
            ],
        ),
        ("budget", filler),
        (
            // finalized graph in the OTHER context with a smaller id than the graphs explored in ctx A
            "foreign",
            vec![
                CreateGraph(Cx::B),
                Input(B0, Ty::Bit),
                SetOutput(B0, n(B0, 0)),
                Finalize(B0),
                CreateGraph(Cx::A),
            ],
        ),
    ]
}
