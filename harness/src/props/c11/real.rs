//! C11 real side: two live contexts, execution of one action through the public builder API,
//! observation through public getters + serde, model-independent well-formedness invariants.
use super::alpha::*;
use super::model::{const_bytes, hex};
use crate::common::catch;
use ciphercore_base::custom_ops::{CustomOperation, Not};
use ciphercore_base::data_types::{array_type, scalar_type, vector_type, ScalarType, Type, BIT, INT32, UINT8};
use ciphercore_base::data_values::Value;
use ciphercore_base::graphs::{create_context, Context, Graph, GraphAnnotation, Node, NodeAnnotation, Operation};
use serde_json::Value as J;

pub struct World {
    pub ctx: [Context; 2],
}

#[derive(Clone, PartialEq, Eq, Debug)]
pub enum Out {
    Ok,
    Err(String),
    Panic(String),
}
impl Out {
    pub fn is_ok(&self) -> bool {
        matches!(self, Out::Ok)
    }
    pub fn show(&self) -> String {
        match self {
            Out::Ok => "Ok".into(),
            Out::Err(m) => format!("Err({})", m.lines().next().unwrap_or("")),
            Out::Panic(m) => format!("PANIC({})", m),
        }
    }
}

pub fn real_ty(t: Ty) -> Type {
    match t {
        Ty::Bit => scalar_type(BIT),
        Ty::I32x2 => array_type(vec![2], INT32),
        Ty::U8x100 => array_type(vec![100], UINT8),
        Ty::I32x300 => array_type(vec![300], INT32),
        Ty::Vec2Bit => vector_type(2, scalar_type(BIT)),
    }
}

fn st_str(s: &ScalarType) -> String {
    if *s == BIT {
        "bit".into()
    } else if *s == INT32 {
        "i32".into()
    } else if *s == UINT8 {
        "u8".into()
    } else {
        format!("{:?}", s)
    }
}
pub fn ty_str(t: &Type) -> String {
    match t {
        Type::Scalar(s) => st_str(s),
        Type::Array(sh, s) => format!("{}{:?}", st_str(s), sh),
        Type::Tuple(v) => format!("({})", v.iter().map(|t| ty_str(t)).collect::<Vec<_>>().join(",")),
        Type::Vector(n, e) => format!("vec{}<{}>", n, ty_str(e)),
        other => format!("{:?}", other),
    }
}
fn op_str(op: &Operation) -> String {
    match op {
        Operation::Input(t) => format!("Input({})", ty_str(t)),
        Operation::Add => "Add".into(),
        Operation::CreateTuple => "CreateTuple".into(),
        Operation::Constant(t, v) => {
            let bytes = v.access_bytes(|b| Ok(b.to_vec())).unwrap_or_default();
            format!("Constant({},{})", ty_str(t), hex(&bytes))
        }
        Operation::Custom(c) => format!("Custom({})", c.get_name()),
        Operation::Call => "Call".into(),
        Operation::Iterate => "Iterate".into(),
        other => format!("{:?}", other),
    }
}

impl World {
    pub fn new() -> World {
        World { ctx: [create_context().expect("create_context"), create_context().expect("create_context")] }
    }
    fn c(&self, c: Cx) -> &Context {
        &self.ctx[c.ix()]
    }
    fn g(&self, g: G) -> Result<Graph, String> {
        self.c(g.0).get_graphs().get(g.1).cloned().ok_or_else(|| format!("HARNESS: no graph {:?}", g))
    }
    fn n(&self, n: N) -> Result<Node, String> {
        self.g(n.0)?.get_nodes().get(n.1).cloned().ok_or_else(|| format!("HARNESS: no node {:?}", n))
    }

    /// One real API call. Ok(()) / Err(message of the library) / panic
    pub fn exec(&self, a: &Act) -> Out {
        match catch(|| self.exec_inner(a)) {
            Ok(Ok(Ok(()))) => Out::Ok,
            Ok(Ok(Err(m))) => Out::Err(m),
            Ok(Err(h)) => Out::Panic(h),
            Err(p) => Out::Panic(p),
        }
    }

    /// outer Err = harness problem (missing object), inner = library result
    fn exec_inner(&self, a: &Act) -> Result<Result<(), String>, String> {
        fn r<T>(x: ciphercore_base::errors::Result<T>) -> Result<(), String> {
            x.map(|_| ()).map_err(|e| e.to_string())
        }
        Ok(match a {
            Act::CreateGraph(c) => r(self.c(*c).create_graph()),
            Act::Input(g, t) => r(self.g(*g)?.input(real_ty(*t))),
            Act::Add(g, x, y) => r(self.g(*g)?.add(self.n(*x)?, self.n(*y)?)),
            Act::Tuple(g, x, y) => r(self.g(*g)?.create_tuple(vec![self.n(*x)?, self.n(*y)?])),
            Act::Const(g, t, ok) => {
                let v = if *ok {
                    match t {
                        Ty::I32x2 => Value::from_flattened_array(&[1i32, 2], INT32),
                        _ => Value::from_flattened_array(&const_bytes(*t), UINT8),
                    }
                } else {
                    Value::from_scalar(1u8, BIT)
                }
                .map_err(|e| format!("HARNESS: value {}", e))?;
                r(self.g(*g)?.constant(real_ty(*t), v))
            }
            Act::Not(g, x) => r(self.g(*g)?.custom_op(CustomOperation::new(Not {}), vec![self.n(*x)?])),
            Act::Call(g, c, args) => {
                let mut v = vec![];
                for n in args {
                    v.push(self.n(*n)?);
                }
                r(self.g(*g)?.call(self.g(*c)?, v))
            }
            Act::Iterate(g, c, s, i) => r(self.g(*g)?.iterate(self.g(*c)?, self.n(*s)?, self.n(*i)?)),
            Act::SetName(n, nm) => r(self.n(*n)?.set_name(nm.s())),
            Act::CtxSetNodeName(c, n, nm) => r(self.c(*c).set_node_name(self.n(*n)?, nm.s())),
            Act::SetGraphName(g, nm) => r(self.g(*g)?.set_name(nm.s())),
            Act::CtxSetGraphName(c, g, nm) => r(self.c(*c).set_graph_name(self.g(*g)?, nm.s())),
            Act::NodeAnnot(n, k) => r(self.n(*n)?.add_annotation(if *k == 0 {
                NodeAnnotation::AssociativeOperation
            } else {
                NodeAnnotation::Private
            })),
            Act::GraphAnnot(g) => r(self.g(*g)?.add_annotation(GraphAnnotation::AssociativeOperation)),
            Act::SetOutput(g, n) => r(self.g(*g)?.set_output_node(self.n(*n)?)),
            Act::Finalize(g) => r(self.g(*g)?.finalize()),
            Act::SetMain(c, g) => r(self.c(*c).set_main_graph(self.g(*g)?)),
            Act::FinalizeCtx(c) => r(self.c(*c).finalize()),
        })
    }
}

pub struct Obs {
    /// observation through the public getters (format shared with Model::text)
    pub text: String,
    /// serde_json::to_string(&context) of both contexts
    pub ser: [String; 2],
    /// parsed payloads of `ser` (full mode only)
    pub data: Option<[J; 2]>,
    /// violated model-independent invariants: (name, message) (full mode only)
    pub broken: Vec<(String, String)>,
}
impl Obs {
    pub fn hash(&self) -> u128 {
        hash128(&[self.text.as_bytes(), self.ser[0].as_bytes(), self.ser[1].as_bytes()])
    }
}

pub fn hash128(parts: &[&[u8]]) -> u128 {
    // two independent 64-bit FNV-style hashes (different offsets / primes)
    let mut a: u64 = 0xcbf29ce484222325;
    let mut b: u64 = 0x84222325cbf29ce4;
    for p in parts {
        for x in p.iter().chain([0xffu8].iter()) {
            a = (a ^ *x as u64).wrapping_mul(0x100000001b3);
            b = (b ^ *x as u64).wrapping_mul(0x9E3779B97F4A7C15).rotate_left(23);
        }
    }
    ((a as u128) << 64) | b as u128
}

fn opt(o: Option<u64>) -> String {
    o.map(|x| x.to_string()).unwrap_or_else(|| "-".into())
}

/// Observes both contexts; `full` additionally parses the serialized form and checks the invariants.
/// Err = a getter or the serializer panicked.
pub fn observe(w: &World, full: bool) -> Result<Obs, String> {
    catch(|| observe_inner(w, full))
}

fn observe_inner(w: &World, full: bool) -> Obs {
    let mut s = String::new();
    let mut broken: Vec<(String, String)> = vec![];
    let mut bad = |name: &str, msg: String| broken.push((name.to_string(), msg));
    let ser = [serde_json::to_string(&w.ctx[0]).unwrap(), serde_json::to_string(&w.ctx[1]).unwrap()];
    let data: Option<[J; 2]> = if full {
        let p = |t: &String| -> J {
            let outer: J = serde_json::from_str(t).unwrap_or(J::Null);
            outer.get("data").and_then(|d| d.as_str()).and_then(|d| serde_json::from_str(d).ok()).unwrap_or(J::Null)
        };
        Some([p(&ser[0]), p(&ser[1])])
    } else {
        None
    };
    for (ci, ctx) in w.ctx.iter().enumerate() {
        let graphs = ctx.get_graphs();
        let fin = ctx.check_finalized().is_ok();
        let main = ctx.get_main_graph().ok();
        s.push_str(&format!(
            "ctx{} fin={} main={} ngraphs={} rg[",
            ci,
            fin as u8,
            opt(main.as_ref().map(|g| g.get_id())),
            ctx.get_num_graphs()
        ));
        for nm in NAMES {
            let rg = catch(|| ctx.retrieve_graph(nm.s()).ok());
            match rg {
                Ok(rg) => {
                    s.push_str(&format!("{}={},", nm.s(), opt(rg.as_ref().map(|g| g.get_id()))));
                    if let (true, Some(g)) = (full, rg) {
                        let here = graphs.get(g.get_id() as usize).map(|x| *x == g).unwrap_or(false);
                        if !here || g.get_name().ok().as_deref() != Some(nm.s()) {
                            bad("graph-name-not-bijective", format!("ctx{} retrieve_graph({}) gives a graph that is not the stored graph with that name", ci, nm.s()));
                        }
                    }
                }
                Err(p) => {
                    s.push_str(&format!("{}=PANIC,", nm.s()));
                    bad("stale-graph-name", format!("ctx{} retrieve_graph({}) panics: {}", ci, nm.s(), p));
                }
            }
        }
        s.push_str("]\n");
        let jd = data.as_ref().map(|d| &d[ci]);
        let jfin = |gi: usize| -> Option<bool> { jd?.get("graphs")?.get(gi)?.get("finalized")?.as_bool() };
        if full {
            if ctx.get_num_graphs() != graphs.len() as u64 {
                bad("ids-not-dense", format!("ctx{} get_num_graphs != get_graphs().len()", ci));
            }
            if let Some(m) = &main {
                let here = graphs.get(m.get_id() as usize).map(|x| x == m).unwrap_or(false);
                if !here || jfin(m.get_id() as usize) != Some(true) {
                    bad("main-graph-invalid", format!("ctx{} main graph is not a finalized graph of this context", ci));
                }
            }
            if fin && (main.is_none() || (0..graphs.len()).any(|gi| jfin(gi) != Some(true))) {
                bad("finalized-context-incomplete", format!("ctx{} is finalized without main graph or with an unfinalized graph", ci));
            }
        }
        for (gi, g) in graphs.iter().enumerate() {
            let nodes = g.get_nodes();
            let out = g.get_output_node().ok();
            let anns = g.get_annotations().map(|v| v.iter().map(|a| format!("{:?}", a)).collect::<Vec<_>>().join(",")).unwrap_or_else(|e| format!("ERR {}", e));
            s.push_str(&format!(
                " g{} name={} ann=[{}] out={} n={} rn[",
                g.get_id(),
                g.get_name().unwrap_or_else(|_| "-".into()),
                anns,
                opt(out.as_ref().map(|n| n.get_id())),
                g.get_num_nodes()
            ));
            for nm in NAMES {
                let rn = catch(|| g.retrieve_node(nm.s()).ok());
                match rn {
                    Ok(rn) => {
                        s.push_str(&format!("{}={},", nm.s(), opt(rn.as_ref().map(|n| n.get_id()))));
                        if let (true, Some(n)) = (full, rn) {
                            let here = nodes.get(n.get_id() as usize).map(|x| *x == n).unwrap_or(false);
                            if !here || n.get_name().ok().flatten().as_deref() != Some(nm.s()) {
                                bad("node-name-not-bijective", format!("ctx{} g{} retrieve_node({}) gives a node that is not the stored node with that name", ci, gi, nm.s()));
                            }
                        }
                    }
                    Err(p) => {
                        s.push_str(&format!("{}=PANIC,", nm.s()));
                        bad("stale-node-name", format!("ctx{} g{} retrieve_node({}) panics: {}", ci, gi, nm.s(), p));
                    }
                }
            }
            s.push_str("]\n");
            if full {
                if g.get_id() != gi as u64 || ctx.get_graph_by_id(gi as u64).map(|x| x != *g).unwrap_or(true) {
                    bad("ids-not-dense", format!("ctx{} graph at position {} has id {}", ci, gi, g.get_id()));
                }
                if g.get_context() != *ctx {
                    bad("wrong-owner", format!("ctx{} g{} belongs to another context", ci, gi));
                }
                if g.get_num_nodes() != nodes.len() as u64 {
                    bad("ids-not-dense", format!("ctx{} g{} get_num_nodes != get_nodes().len()", ci, gi));
                }
                if let Some(o) = &out {
                    if nodes.get(o.get_id() as usize).map(|x| x != o).unwrap_or(true) {
                        bad("output-node-invalid", format!("ctx{} g{} output node is not a stored node of the graph", ci, gi));
                    }
                }
                if jfin(gi) == Some(true) && out.is_none() {
                    bad("finalized-graph-without-output", format!("ctx{} g{}", ci, gi));
                }
                if let Ok(name) = g.get_name() {
                    if ctx.retrieve_graph(&name).map(|x| x != *g).unwrap_or(true) {
                        bad("graph-name-not-bijective", format!("ctx{} g{} has name {} which does not resolve back", ci, gi, name));
                    }
                }
            }
            for (ni, n) in nodes.iter().enumerate() {
                let deps = n.get_node_dependencies();
                let gdeps = n.get_graph_dependencies();
                let ty = n.get_type();
                let name = n.get_name().ok().flatten();
                let anns = n.get_annotations().map(|v| v.iter().map(|a| format!("{:?}", a)).collect::<Vec<_>>().join(",")).unwrap_or_else(|e| format!("ERR {}", e));
                s.push_str(&format!(
                    "  n{} {} d={:?} gd={:?} t={} name={} ann=[{}]\n",
                    n.get_id(),
                    op_str(&n.get_operation()),
                    deps.iter().map(|d| d.get_id()).collect::<Vec<_>>(),
                    gdeps.iter().map(|d| d.get_id()).collect::<Vec<_>>(),
                    ty.as_ref().map(ty_str).unwrap_or_else(|e| format!("ERR {}", e)),
                    name.as_deref().unwrap_or("-"),
                    anns
                ));
                if !full {
                    continue;
                }
                if n.get_id() != ni as u64 || g.get_node_by_id(ni as u64).map(|x| x != *n).unwrap_or(true) {
                    bad("ids-not-dense", format!("ctx{} g{} node at position {} has id {}", ci, gi, ni, n.get_id()));
                }
                if n.get_graph() != *g {
                    bad("wrong-owner", format!("ctx{} g{} n{} belongs to another graph", ci, gi, ni));
                }
                for d in deps.iter() {
                    let id = d.get_id() as usize;
                    if d.get_graph() != *g || id >= ni || nodes[id] != *d {
                        bad("bad-node-dependency", format!("ctx{} g{} n{} depends on a node that is not an earlier node of the same graph", ci, gi, ni));
                    }
                }
                for d in gdeps.iter() {
                    let id = d.get_id() as usize;
                    if d.get_context() != *ctx || id >= gi || graphs[id] != *d || jfin(id) != Some(true) {
                        bad("bad-graph-dependency", format!("ctx{} g{} n{} calls a graph that is not an older finalized graph of the same context", ci, gi, ni));
                    }
                }
                if let Err(e) = &ty {
                    bad("node-without-type", format!("ctx{} g{} n{} get_type fails: {}", ci, gi, ni, e));
                }
                if let Some(name) = &name {
                    if g.retrieve_node(name).map(|x| x != *n).unwrap_or(true) {
                        bad("node-name-not-bijective", format!("ctx{} g{} n{} has name {} which does not resolve back", ci, gi, ni, name));
                    }
                }
            }
            if full {
                let mut names: Vec<String> = nodes.iter().filter_map(|n| n.get_name().ok().flatten()).collect();
                let k = names.len();
                names.sort();
                names.dedup();
                if names.len() != k {
                    bad("node-name-not-bijective", format!("ctx{} g{} two nodes share a name", ci, gi));
                }
            }
        }
        if let Some(d) = jd {
            // no dangling entries in the serialized tables
            let ng = graphs.len() as u64;
            let nn = |gi: u64| graphs.get(gi as usize).map(|g| g.get_num_nodes()).unwrap_or(0);
            let u = |j: &J| j.as_u64().unwrap_or(u64::MAX);
            let arr = |k: &str| d.get(k).and_then(|x| x.as_array()).cloned().unwrap_or_default();
            for e in arr("graphs_names").iter().chain(arr("graphs_annotations").iter()) {
                if u(&e[0]) >= ng {
                    bad("dangling-table-entry", format!("ctx{} serialized graph table refers to graph {}", ci, e[0]));
                }
            }
            for e in arr("nodes_names").iter().chain(arr("nodes_annotations").iter()) {
                if u(&e[0][0]) >= ng || u(&e[0][1]) >= nn(u(&e[0][0])) {
                    bad("dangling-table-entry", format!("ctx{} serialized node table refers to node {}", ci, e[0]));
                }
            }
            if let Some(m) = d.get("main_graph").and_then(|m| m.as_u64()) {
                if m >= ng {
                    bad("dangling-table-entry", format!("ctx{} serialized main_graph {}", ci, m));
                }
            }
            if d.is_null() {
                bad("serialization-unreadable", format!("ctx{} serialized context has no JSON payload", ci));
            }
        }
    }
    Obs { text: s, ser, data, broken }
}
