//! The small seed contexts / values whose serializations are mutated in half B.
//! Together they contain every table of the payload: graph names, node names, node annotations of
//! every kind, graph annotations, Call/Iterate with graph dependencies, a custom operation,
//! constants (128-bit scalar, nested vector value), unset Option fields, parametrised operations.
use ciphercore_base::custom_ops::{CustomOperation, Not};
use ciphercore_base::data_types::{
    array_type, named_tuple_type, scalar_type, tuple_type, vector_type, BIT, INT128, INT32, INT64, UINT128,
    UINT64, UINT8,
};
use ciphercore_base::data_values::Value;
use ciphercore_base::errors::Result;
use ciphercore_base::graphs::{
    create_context, Context, GraphAnnotation, JoinType, NodeAnnotation, SliceElement,
};
use ciphercore_base::ops::clip::Clip2K;
use ciphercore_base::ops::comparisons::GreaterThan;
use ciphercore_base::typed_value::TypedValue;
use ciphercore_base::typed_value_operations::{FromVectorMode, TypedValueOperations};
use std::collections::HashMap;

fn s1_names() -> Result<Context> {
    let c = create_context()?;
    let g = c.create_graph()?;
    g.set_name("main")?;
    let a = g.input(scalar_type(INT32))?;
    a.set_name("a")?;
    let b = g.input(array_type(vec![2], INT32))?;
    b.set_name("b")?;
    let o = a.add(b)?;
    o.set_name("out")?;
    o.set_as_output()?;
    g.finalize()?;
    g.set_as_main()?;
    c.finalize()?;
    Ok(c)
}

fn s2_annotations() -> Result<Context> {
    let c = create_context()?;
    let h = c.create_graph()?;
    h.set_name("helper")?;
    let x = h.input(scalar_type(BIT))?;
    let y = h.input(scalar_type(BIT))?;
    h.multiply(x, y)?.set_as_output()?;
    h.add_annotation(GraphAnnotation::AssociativeOperation)?;
    h.add_annotation(GraphAnnotation::OneBitState)?;
    h.finalize()?;
    let g = c.create_graph()?;
    g.add_annotation(GraphAnnotation::SmallState)?;
    let a = g.input(array_type(vec![3], UINT8))?;
    a.add_annotation(NodeAnnotation::Private)?;
    let b = g.input(array_type(vec![3], UINT8))?;
    b.add_annotation(NodeAnnotation::Send(0, 1))?;
    b.add_annotation(NodeAnnotation::Send(2, 0))?;
    let m = a.multiply(b.clone())?;
    m.add_annotation(NodeAnnotation::PRFMultiplication)?;
    m.add_annotation(NodeAnnotation::AssociativeOperation)?;
    let n = m.nop()?;
    n.add_annotation(NodeAnnotation::PRFB2A)?;
    let s = n.subtract(b)?;
    s.add_annotation(NodeAnnotation::PRFTruncate)?;
    s.add_annotation(NodeAnnotation::MpcCall)?;
    s.set_name("res")?;
    s.set_as_output()?;
    g.finalize()?;
    g.set_as_main()?;
    c.finalize()?;
    Ok(c)
}

fn s3_call_iterate() -> Result<Context> {
    let c = create_context()?;
    let f = c.create_graph()?;
    f.set_name("f")?;
    let x = f.input(scalar_type(UINT64))?;
    let y = f.input(scalar_type(UINT64))?;
    f.add(x, y)?.set_as_output()?;
    f.finalize()?;
    let st = c.create_graph()?;
    let s = st.input(scalar_type(UINT64))?;
    let e = st.input(scalar_type(UINT64))?;
    let ns = st.call(f.clone(), vec![s, e.clone()])?;
    st.create_tuple(vec![ns, e])?.set_as_output()?;
    st.finalize()?;
    let g = c.create_graph()?;
    let a = g.input(scalar_type(UINT64))?;
    let v = g.input(vector_type(2, scalar_type(UINT64)))?;
    let r = g.iterate(st, a.clone(), v)?;
    let fin = r.tuple_get(0)?;
    let o = g.call(f, vec![fin, a])?;
    o.set_name("o")?;
    o.set_as_output()?;
    g.finalize()?;
    g.set_as_main()?;
    c.finalize()?;
    Ok(c)
}

fn s4_custom() -> Result<Context> {
    let c = create_context()?;
    let g = c.create_graph()?;
    let a = g.input(array_type(vec![2, 8], BIT))?;
    let b = g.input(array_type(vec![2, 8], BIT))?;
    let gt = g.custom_op(CustomOperation::new(GreaterThan { signed_comparison: true }), vec![a.clone(), b])?;
    let n = g.custom_op(CustomOperation::new(Not {}), vec![gt])?;
    let cl = g.custom_op(CustomOperation::new(Clip2K { k: 3 }), vec![a])?;
    g.create_tuple(vec![n, cl])?.set_as_output()?;
    g.finalize()?;
    g.set_as_main()?;
    c.finalize()?;
    Ok(c)
}

fn s5_constants() -> Result<Context> {
    let c = create_context()?;
    let g = c.create_graph()?;
    let big = g.constant(scalar_type(UINT128), Value::from_scalar(u128::MAX - 5, UINT128)?)?;
    big.set_name("big")?;
    let neg = g.constant(
        array_type(vec![2], INT128),
        Value::from_flattened_array(&[-1i128, i128::MIN], INT128)?,
    )?;
    let tt = tuple_type(vec![scalar_type(BIT), vector_type(2, scalar_type(UINT8))]);
    let tv = Value::from_vector(vec![
        Value::from_scalar(1, BIT)?,
        Value::from_vector(vec![Value::from_scalar(7, UINT8)?, Value::from_scalar(255, UINT8)?]),
    ]);
    let t = g.constant(tt, tv)?;
    let i = g.input(scalar_type(UINT128))?;
    let s = i.add(big)?;
    g.create_tuple(vec![s, neg, t])?.set_as_output()?;
    g.finalize()?;
    g.set_as_main()?;
    c.finalize()?;
    Ok(c)
}

/// not finalized, no main graph, one graph without output node; operations with parameters
fn s6_open_params() -> Result<Context> {
    let c = create_context()?;
    let g = c.create_graph()?;
    g.set_name("open")?;
    let a = g.input(array_type(vec![4, 3], INT64))?;
    let sl = a.get_slice(vec![
        SliceElement::SubArray(Some(1), None, Some(2)),
        SliceElement::Ellipsis,
        SliceElement::SingleIndex(-1),
    ])?;
    let r = sl.reshape(array_type(vec![2, 1], INT64))?;
    let s = r.sum(vec![1])?;
    let p = s.permute_axes(vec![0])?;
    let k = g.random(array_type(vec![128], BIT))?;
    let prf = k.prf(5, array_type(vec![2], INT64))?;
    let q = p.add(prf)?;
    let t = q.truncate(4)?;
    t.set_name("t")?;
    let nt = named_tuple_type(vec![
        (ciphercore_base::type_inference::NULL_HEADER.to_string(), array_type(vec![2], BIT)),
        ("id".to_string(), array_type(vec![2], UINT64)),
    ]);
    let t0 = g.input(nt.clone())?;
    let t1 = g.input(nt)?;
    let mut h = HashMap::new();
    h.insert("id".to_string(), "id".to_string());
    let j = t0.join(t1, JoinType::Inner, h)?;
    j.set_name("j")?;
    let g2 = c.create_graph()?;
    let z = g2.zeros(scalar_type(BIT))?;
    z.set_as_output()?;
    g2.finalize()?;
    Ok(c)
}

pub fn context_seeds() -> Vec<(&'static str, Context)> {
    let v: Vec<(&'static str, Result<Context>)> = vec![
        ("names", s1_names()),
        ("annotations", s2_annotations()),
        ("call_iterate", s3_call_iterate()),
        ("custom", s4_custom()),
        ("constants", s5_constants()),
        ("open_params", s6_open_params()),
    ];
    v.into_iter()
        .map(|(n, c)| (n, c.unwrap_or_else(|e| panic!("seed context {} cannot be built: {}", n, e))))
        .collect()
}

pub fn value_seeds() -> Vec<(&'static str, Value)> {
    vec![
        ("bytes", Value::from_bytes(vec![0, 1, 127, 128, 255])),
        ("empty_bytes", Value::from_bytes(vec![])),
        (
            "nested",
            Value::from_vector(vec![
                Value::from_bytes(vec![9]),
                Value::from_vector(vec![]),
                Value::from_vector(vec![Value::from_bytes(vec![1, 2]), Value::from_vector(vec![Value::from_bytes(vec![3])])]),
            ]),
        ),
    ]
}

pub fn typed_value_seeds() -> Vec<(&'static str, TypedValue)> {
    let sc = |x: u128, st| TypedValue::from_scalar(x, st).unwrap();
    let arr2 = TypedValue::new(
        array_type(vec![2, 2], INT32),
        Value::from_flattened_array(&[1i32, -2, 3, i32::MIN], INT32).unwrap(),
    );
    let mut out = vec![
        ("scalar_bit", sc(1, BIT)),
        ("scalar_i64_neg", TypedValue::from_scalar(-3i64, INT64).unwrap()),
        ("scalar_u128", sc(u128::MAX - 1, UINT128)),
    ];
    if let Ok(a) = arr2 {
        out.push(("array_2x2_i32", a));
    }
    let a1 = TypedValue::new(
        array_type(vec![3], UINT128),
        Value::from_flattened_array(&[1u128, u128::MAX, 1u128 << 64], UINT128).unwrap(),
    )
    .unwrap();
    out.push(("array_u128", a1.clone()));
    let tup = TypedValue::from_vector(vec![sc(1, BIT), a1.clone()], FromVectorMode::Tuple).unwrap();
    out.push(("tuple", tup.clone()));
    let vecv = TypedValue::from_vector(vec![sc(5, UINT8), sc(6, UINT8)], FromVectorMode::Vector).unwrap();
    out.push(("vector", vecv.clone()));
    let nt = TypedValue::from_vector(
        vec![
            TypedValue::new_named(scalar_type(BIT), Value::from_scalar(0, BIT).unwrap(), "flag".into()).unwrap(),
            TypedValue::new_named(vecv.t.clone(), vecv.value.clone(), "vals".into()).unwrap(),
            TypedValue::new_named(tup.t.clone(), tup.value.clone(), "tup".into()).unwrap(),
        ],
        FromVectorMode::Tuple,
    )
    .unwrap();
    out.push(("named_tuple", nt));
    out
}

/// larger seeds for the thorough tier: an instantiated custom operation (Call + generated graph) and a
/// small MPC-compiled context (Send / PRF annotations, PRF keys, tuples of shares)
pub fn thorough_context_seeds() -> std::result::Result<Vec<(String, Context)>, String> {
    use crate::mpcx::{self, Owner};
    use ciphercore_base::inline::inline_ops::InlineMode;
    let mut out = vec![];
    let c = create_context().map_err(|e| e.to_string())?;
    let build = || -> Result<Context> {
        let g = c.create_graph()?;
        let a = g.input(array_type(vec![2], BIT))?;
        let b = g.input(array_type(vec![2], BIT))?;
        let o = g.custom_op(CustomOperation::new(ciphercore_base::custom_ops::Or {}), vec![a, b])?;
        o.set_as_output()?;
        g.finalize()?;
        g.set_as_main()?;
        c.finalize()?;
        Ok(ciphercore_base::custom_ops::run_instantiation_pass(c.clone())?.get_context())
    };
    out.push(("instantiated_or".to_string(), build().map_err(|e| e.to_string())?));
    let src = (|| -> Result<Context> {
        let c = create_context()?;
        let g = c.create_graph()?;
        let a = g.input(scalar_type(UINT8))?;
        let b = g.input(scalar_type(UINT8))?;
        a.multiply(b)?.set_as_output()?;
        g.finalize()?;
        g.set_as_main()?;
        c.finalize()?;
        Ok(c)
    })()
    .map_err(|e| e.to_string())?;
    let m = mpcx::compile(&src, &[Owner::P(0), Owner::P(1)], &[2], &InlineMode::Simple)?;
    out.push(("compiled_mul".to_string(), m));
    let src2 = (|| -> Result<Context> {
        let c = create_context()?;
        let g = c.create_graph()?;
        let a = g.input(scalar_type(UINT8))?;
        a.set_name("a")?;
        let b = g.input(scalar_type(UINT8))?;
        let o = a.add(b)?;
        o.set_name("sum")?;
        o.set_as_output()?;
        g.finalize()?;
        g.set_as_main()?;
        c.finalize()?;
        Ok(c)
    })()
    .map_err(|e| e.to_string())?;
    let m2 = mpcx::compile(&src2, &[Owner::Shared, Owner::P(1)], &[], &InlineMode::Simple)?;
    out.push(("compiled_add_shared".to_string(), m2));
    let gt = (|| -> Result<Context> {
        let c = create_context()?;
        let g = c.create_graph()?;
        let a = g.input(array_type(vec![4], BIT))?;
        let b = g.input(array_type(vec![4], BIT))?;
        let o = g.custom_op(CustomOperation::new(GreaterThan { signed_comparison: false }), vec![a, b])?;
        o.set_as_output()?;
        g.finalize()?;
        g.set_as_main()?;
        c.finalize()?;
        Ok(ciphercore_base::custom_ops::run_instantiation_pass(c)?.get_context())
    })()
    .map_err(|e| e.to_string())?;
    out.push(("instantiated_gt".to_string(), gt));
    Ok(out)
}
