//! Independent well-formedness oracle for a deserialized context (public getters only), the
//! library-independent structural comparison of two contexts, and evaluation helpers.
use crate::common::catch;
use crate::exec::{first_line, new_eval};
use crate::vals;
use ciphercore_base::data_types::{get_size_in_bits, Type};
use ciphercore_base::data_values::Value;
use ciphercore_base::evaluators::Evaluator;
use ciphercore_base::graphs::{Context, Operation};
use serde_json::Value as J;

/// finalized flags (context, per graph) read from the serialized text - the only public view of them
pub fn finalized_flags(text: &str) -> Option<(bool, Vec<bool>)> {
    let outer: J = serde_json::from_str(text).ok()?;
    let inner: J = serde_json::from_str(outer.get("data")?.as_str()?).ok()?;
    let cf = inner.get("finalized")?.as_bool()?;
    let gs = inner
        .get("graphs")?
        .as_array()?
        .iter()
        .map(|g| g.get("finalized").and_then(|x| x.as_bool()))
        .collect::<Option<Vec<bool>>>()?;
    Some((cf, gs))
}

/// C11-style invariants of a context: ids dense, dependencies precede users and live in the right
/// graph/context, graph dependencies finalized, names resolve back, every node has a valid type,
/// output/main ids resolve, finalization flags consistent. `text` is the context's own serialization.
pub fn well_formed(c: &Context, text: &str) -> Result<(), String> {
    let (cfin, gfin) = finalized_flags(text).ok_or("serialization of the context is not readable")?;
    let graphs = c.get_graphs();
    if gfin.len() != graphs.len() {
        return Err("serialization lists a different number of graphs".into());
    }
    if c.check_finalized().is_ok() != cfin {
        return Err("finalized flag in serialization differs from check_finalized()".into());
    }
    if c.get_num_graphs() != graphs.len() as u64 {
        return Err("get_num_graphs differs from get_graphs().len()".into());
    }
    let mut graph_names = std::collections::BTreeSet::new();
    for (gi, g) in graphs.iter().enumerate() {
        if g.get_id() != gi as u64 {
            return Err(format!("graph at position {} has id {}", gi, g.get_id()));
        }
        if g.get_context() != *c {
            return Err(format!("graph {} belongs to another context", gi));
        }
        let nodes = g.get_nodes();
        if g.get_num_nodes() != nodes.len() as u64 {
            return Err(format!("graph {}: get_num_nodes differs from get_nodes().len()", gi));
        }
        let mut node_names = std::collections::BTreeSet::new();
        for (ni, n) in nodes.iter().enumerate() {
            if n.get_id() != ni as u64 {
                return Err(format!("node at position ({},{}) has id {}", gi, ni, n.get_id()));
            }
            if n.get_graph() != *g {
                return Err(format!("node ({},{}) belongs to another graph", gi, ni));
            }
            for d in n.get_node_dependencies() {
                if d.get_graph() != *g || d.get_id() >= ni as u64 || nodes[d.get_id() as usize] != d {
                    return Err(format!("node ({},{}) has a dependency that does not precede it", gi, ni));
                }
            }
            for gd in n.get_graph_dependencies() {
                let id = gd.get_id() as usize;
                if gd.get_context() != *c || id >= gi || graphs[id] != gd {
                    return Err(format!("node ({},{}) has a graph dependency that does not precede its graph", gi, ni));
                }
                if !gfin[id] {
                    return Err(format!("node ({},{}) depends on the non-finalized graph {}", gi, ni, id));
                }
            }
            let op = n.get_operation();
            let nd = n.get_node_dependencies().len();
            let ng = n.get_graph_dependencies().len();
            match op {
                Operation::Call | Operation::Iterate => {
                    if ng != 1 {
                        return Err(format!("node ({},{}) {} has {} graph dependencies", gi, ni, op, ng));
                    }
                }
                _ => {
                    if ng != 0 {
                        return Err(format!("node ({},{}) {} has {} graph dependencies", gi, ni, op, ng));
                    }
                }
            }
            if op.is_input() && nd != 0 {
                return Err(format!("input node ({},{}) has dependencies", gi, ni));
            }
            match n.get_type() {
                Ok(t) => {
                    if !t.is_valid() {
                        return Err(format!("node ({},{}) has the invalid type {}", gi, ni, first_line(&t.to_string())));
                    }
                    if let Operation::Constant(ct, v) = n.get_operation() {
                        if ct != t {
                            return Err(format!("constant ({},{}) has a type different from its declared type", gi, ni));
                        }
                        if !value_fits(&v, &t) {
                            return Err(format!("constant ({},{}) holds a value that does not fit its type", gi, ni));
                        }
                    }
                }
                Err(e) => return Err(format!("node ({},{}) has no type: {}", gi, ni, first_line(&e.to_string()))),
            }
            n.get_annotations().map_err(|e| format!("annotations of ({},{}): {}", gi, ni, first_line(&e.to_string())))?;
            match n.get_name() {
                Ok(Some(name)) => {
                    if !node_names.insert(name.clone()) {
                        return Err(format!("node name {:?} is used twice in graph {}", name, gi));
                    }
                    match c.retrieve_node(g.clone(), &name) {
                        Ok(m) if m == *n => {}
                        _ => return Err(format!("name {:?} of node ({},{}) does not resolve back to it", name, gi, ni)),
                    }
                }
                Ok(None) => {}
                Err(e) => return Err(format!("get_name of ({},{}): {}", gi, ni, first_line(&e.to_string()))),
            }
        }
        match g.get_output_node() {
            Ok(o) => {
                if o.get_graph() != *g || (o.get_id() as usize) >= nodes.len() || nodes[o.get_id() as usize] != o {
                    return Err(format!("output node of graph {} is not one of its nodes", gi));
                }
            }
            Err(_) => {
                if gfin[gi] {
                    return Err(format!("graph {} is finalized without an output node", gi));
                }
            }
        }
        if let Ok(name) = g.get_name() {
            if !graph_names.insert(name.clone()) {
                return Err(format!("graph name {:?} is used twice", name));
            }
            match c.retrieve_graph(&name) {
                Ok(h) if h == *g => {}
                _ => return Err(format!("name {:?} of graph {} does not resolve back to it", name, gi)),
            }
        }
        g.get_annotations().map_err(|e| format!("annotations of graph {}: {}", gi, first_line(&e.to_string())))?;
    }
    match c.get_main_graph() {
        Ok(m) => {
            let id = m.get_id() as usize;
            if id >= graphs.len() || graphs[id] != m {
                return Err("main graph is not one of the context's graphs".into());
            }
            if cfin && !gfin[id] {
                return Err("context is finalized but its main graph is not".into());
            }
        }
        Err(_) => {
            if cfin {
                return Err("context is finalized without a main graph".into());
            }
        }
    }
    if cfin && gfin.iter().any(|f| !f) {
        return Err("context is finalized but one of its graphs is not".into());
    }
    Ok(())
}

/// Structural comparison through public getters only (operations, dependencies, names, annotations,
/// node TYPES, outputs, main graph) - independent of contexts_deep_equal.
pub fn same_structure(a: &Context, b: &Context) -> Result<(), (String, String)> {
    let e = |cat: &str, d: String| -> Result<(), (String, String)> { Err((cat.to_string(), d)) };
    let ga = a.get_graphs();
    let gb = b.get_graphs();
    if ga.len() != gb.len() {
        return e("graph-count", format!("{} graphs vs {}", ga.len(), gb.len()));
    }
    if a.check_finalized().is_ok() != b.check_finalized().is_ok() {
        return e("context-finalized", "context finalized flag differs".into());
    }
    let ma = a.get_main_graph().ok().map(|g| g.get_id());
    let mb = b.get_main_graph().ok().map(|g| g.get_id());
    if ma != mb {
        return e("main-graph", format!("main graph {:?} vs {:?}", ma, mb));
    }
    for (gi, (x, y)) in ga.iter().zip(gb.iter()).enumerate() {
        if x.get_name().ok() != y.get_name().ok() {
            return e("graph-name", format!("graph {} name differs", gi));
        }
        if x.get_annotations().ok() != y.get_annotations().ok() {
            return e("graph-annotations", format!("graph {} annotations differ", gi));
        }
        let oa = x.get_output_node().ok().map(|n| n.get_id());
        let ob = y.get_output_node().ok().map(|n| n.get_id());
        if oa != ob {
            return e("output-node", format!("graph {} output node {:?} vs {:?}", gi, oa, ob));
        }
        let na = x.get_nodes();
        let nb = y.get_nodes();
        if na.len() != nb.len() {
            return e("node-count", format!("graph {}: {} nodes vs {}", gi, na.len(), nb.len()));
        }
        for (ni, (p, q)) in na.iter().zip(nb.iter()).enumerate() {
            if p.get_operation() != q.get_operation() {
                return e("operation", format!("node ({},{}) operation {} vs {}", gi, ni, p.get_operation(), q.get_operation()));
            }
            let da: Vec<u64> = p.get_node_dependencies().iter().map(|n| n.get_id()).collect();
            let db: Vec<u64> = q.get_node_dependencies().iter().map(|n| n.get_id()).collect();
            if da != db {
                return e("node-dependencies", format!("node ({},{}) dependencies {:?} vs {:?}", gi, ni, da, db));
            }
            let ha: Vec<u64> = p.get_graph_dependencies().iter().map(|g| g.get_id()).collect();
            let hb: Vec<u64> = q.get_graph_dependencies().iter().map(|g| g.get_id()).collect();
            if ha != hb {
                return e("graph-dependencies", format!("node ({},{}) graph dependencies {:?} vs {:?}", gi, ni, ha, hb));
            }
            if p.get_name().ok() != q.get_name().ok() {
                return e("node-name", format!("node ({},{}) name differs", gi, ni));
            }
            if p.get_annotations().ok() != q.get_annotations().ok() {
                return e("node-annotations", format!("node ({},{}) annotations differ", gi, ni));
            }
            let ta = p.get_type().map_err(|e| ("type-missing".to_string(), format!("node ({},{}) of the original has no type: {}", gi, ni, first_line(&e.to_string()))))?;
            let tb = q.get_type().map_err(|e| ("type-missing".to_string(), format!("node ({},{}) of the reloaded context has no type: {}", gi, ni, first_line(&e.to_string()))))?;
            if ta != tb {
                return e("node-type", format!("node ({},{}) {} has type {} in the original and {} after reload", gi, ni, p.get_operation(), first_line(&ta.to_string()), first_line(&tb.to_string())));
            }
        }
    }
    Ok(())
}

/// total number of value bits an evaluation would hold (None on overflow / invalid types)
pub fn eval_cost_bits(c: &Context) -> Option<u64> {
    let mut total: u64 = 0;
    for g in c.get_graphs() {
        for n in g.get_nodes() {
            let t = n.get_type().ok()?;
            let b = get_size_in_bits(t).ok()?;
            total = total.checked_add(b)?;
        }
    }
    Some(total)
}

pub fn main_input_types(c: &Context) -> Option<Vec<Type>> {
    let g = c.get_main_graph().ok()?;
    Some(
        g.get_nodes()
            .iter()
            .filter_map(|n| if let Operation::Input(t) = n.get_operation() { Some(t) } else { None })
            .collect(),
    )
}

/// evaluation of the main graph: Ok(value) | Err("error: ..") | Err("panic: ..")
pub fn evaluate(c: &Context, inputs: &[Value], seed: u64) -> Result<Value, String> {
    let mut ev = new_eval(seed);
    let cc = c.clone();
    let ins = inputs.to_vec();
    match catch(move || {
        ev.preprocess(&cc)?;
        ev.evaluate_context(cc, ins)
    }) {
        Ok(Ok(v)) => Ok(v),
        Ok(Err(e)) => Err(format!("error: {}", first_line(&e.to_string()))),
        Err(p) => Err(format!("panic: {}", p)),
    }
}

/// the input alphabet: for every input a byte pattern (all 0x00, all 0xFF, 0x01.., 0xA5/0x3C mix) plus
/// `extra` seed-derived patterns
pub fn input_alphabet(types: &[Type], seed: u64, extra: usize) -> Vec<Vec<Value>> {
    let mut out = vec![];
    for k in 0..4u8 {
        let mut ctr: u32 = 0;
        let mut f = move || -> u8 {
            ctr = ctr.wrapping_add(1);
            match k {
                0 => 0x00,
                1 => 0xFF,
                2 => 0x01,
                _ => {
                    if ctr % 2 == 0 {
                        0xA5
                    } else {
                        0x3C
                    }
                }
            }
        };
        out.push(types.iter().map(|t| vals::pattern_value(t, &mut f)).collect());
    }
    let mut sm = crate::common::SplitMix(seed ^ 0xC12C12);
    for _ in 0..extra {
        let mut f = || (sm.next() & 0xFF) as u8;
        out.push(types.iter().map(|t| vals::pattern_value(t, &mut f)).collect());
    }
    out
}

/// byte lengths / arities of the value match the type (nothing else is demanded); types larger than
/// 2^24 bits are not inspected
pub fn value_fits(v: &Value, t: &Type) -> bool {
    match get_size_in_bits(t.clone()) {
        Ok(b) if b <= (1 << 24) => {}
        _ => return true,
    }
    match t {
        Type::Scalar(st) | Type::Array(_, st) => {
            let n: u64 = match t {
                Type::Array(s, _) => s.iter().product(),
                _ => 1,
            };
            let bits = n * vals::st_bits(st) as u64;
            v.access_bytes(|b| Ok(b.len() as u64 == (bits + 7) / 8)).unwrap_or(false)
        }
        _ => {
            let ts = match ciphercore_base::data_types::get_types_vector(t.clone()) {
                Ok(ts) => ts,
                Err(_) => return false,
            };
            match v.to_vector() {
                Ok(vs) => vs.len() == ts.len() && vs.iter().zip(ts.iter()).all(|(x, tt)| value_fits(x, tt)),
                Err(_) => false,
            }
        }
    }
}
