//! E5 - text-mutation and JSON-tree-mutation enumerators (fixed order, complete).
use serde_json::{Map, Number, Value as J};
use std::str::FromStr;

/// the 14-symbol substitution alphabet
pub const ALPHABET: [u8; 14] = [
    b'{', b'}', b'[', b']', b'"', b':', b',', b'0', b'1', b'9', b'-', b'a', b'\\', b' ',
];

#[derive(Clone, Debug)]
pub enum TextMut {
    Prefix(usize),
    Delete(usize),
    Subst(usize, u8),
}

impl TextMut {
    pub fn describe(&self) -> String {
        match self {
            TextMut::Prefix(n) => format!("prefix:{}", n),
            TextMut::Delete(i) => format!("delete:{}", i),
            TextMut::Subst(i, b) => format!("subst:{}:{}", i, *b as char),
        }
    }
    pub fn class(&self) -> &'static str {
        match self {
            TextMut::Prefix(_) => "prefix",
            TextMut::Delete(_) => "delete",
            TextMut::Subst(_, _) => "subst",
        }
    }
    pub fn apply(&self, text: &[u8]) -> Vec<u8> {
        match self {
            TextMut::Prefix(n) => text[..*n].to_vec(),
            TextMut::Delete(i) => {
                let mut v = text.to_vec();
                v.remove(*i);
                v
            }
            TextMut::Subst(i, b) => {
                let mut v = text.to_vec();
                v[*i] = *b;
                v
            }
        }
    }
}

/// Every proper prefix (lengths 0..len), every single-byte deletion, every single-byte substitution
/// by a different symbol of the alphabet. Order: prefixes by length, deletions by position,
/// substitutions by position then symbol.
pub fn text_mutations(len: usize) -> Vec<TextMut> {
    let mut out = Vec::with_capacity(len * 16);
    for n in 0..len {
        out.push(TextMut::Prefix(n));
    }
    for i in 0..len {
        out.push(TextMut::Delete(i));
    }
    for i in 0..len {
        for b in ALPHABET.iter() {
            out.push(TextMut::Subst(i, *b));
        }
    }
    out
}

fn num(s: &str) -> J {
    J::Number(Number::from_str(s).unwrap())
}

/// One structural mutation of a JSON tree: the mutated tree and a description
/// (class, path, detail). Strings that themselves contain a JSON document (the nested versioned
/// envelopes of constants) are opened, mutated inside and re-embedded.
pub struct TreeMut {
    pub class: &'static str,
    pub path: String,
    pub detail: String,
    steps: Vec<Step>,
    new: J,
}

impl TreeMut {
    /// the mutated tree (built on demand, so that an enumeration holds only the small replacements)
    pub fn apply(&self, root: &J) -> J {
        replace_at(root, &self.steps, self.new.clone())
    }
}

/// `small` = upper bound (inclusive) of the "every small id" alphabet for numbers: each number is
/// replaced by every value in 0..=small besides the fixed alphabet {0,1,2^31,2^64-1,-1,1.5} and its
/// own neighbours x-1, x+1. This hits every table boundary (id == len, len+1) exactly.
pub fn tree_mutations(root: &J, small: u64) -> Vec<TreeMut> {
    let mut out = vec![];
    let mut path = vec![];
    walk(root, root, &mut path, small, &mut out);
    out
}

#[derive(Clone, Debug)]
enum Step {
    Key(String),
    Idx(usize),
    /// descend into a string holding a JSON document
    Embedded,
}

fn path_str(p: &[Step]) -> String {
    let mut s = String::new();
    for st in p {
        match st {
            Step::Key(k) => {
                s.push('/');
                s.push_str(k);
            }
            Step::Idx(i) => {
                s.push('/');
                s.push_str(&i.to_string());
            }
            Step::Embedded => s.push_str("/<json>"),
        }
    }
    if s.is_empty() {
        s.push('/');
    }
    s
}

/// rebuilds root with the subtree at `path` replaced by `new`
fn replace_at(root: &J, path: &[Step], new: J) -> J {
    if path.is_empty() {
        return new;
    }
    match (&path[0], root) {
        (Step::Key(k), J::Object(m)) => {
            let mut m2 = m.clone();
            let child = replace_at(&m[k], &path[1..], new);
            m2.insert(k.clone(), child);
            J::Object(m2)
        }
        (Step::Idx(i), J::Array(a)) => {
            let mut a2 = a.clone();
            a2[*i] = replace_at(&a[*i], &path[1..], new);
            J::Array(a2)
        }
        (Step::Embedded, J::String(s)) => {
            let inner: J = serde_json::from_str(s).unwrap();
            let inner2 = replace_at(&inner, &path[1..], new);
            J::String(serde_json::to_string(&inner2).unwrap())
        }
        _ => unreachable!("path does not match tree"),
    }
}

fn push(
    out: &mut Vec<TreeMut>,
    _root: &J,
    path: &[Step],
    class: &'static str,
    detail: String,
    new: J,
) {
    out.push(TreeMut { class, path: path_str(path), detail, steps: path.to_vec(), new });
}

fn wrong_types(cur: &J) -> Vec<(&'static str, J)> {
    let all: Vec<(&'static str, J)> = vec![
        ("null", J::Null),
        ("bool", J::Bool(true)),
        ("number", num("7")),
        ("string", J::String("x".into())),
        ("array", J::Array(vec![])),
        ("object", J::Object(Map::new())),
    ];
    all.into_iter()
        .filter(|(k, _)| {
            !matches!(
                (*k, cur),
                ("null", J::Null)
                    | ("bool", J::Bool(_))
                    | ("number", J::Number(_))
                    | ("string", J::String(_))
                    | ("array", J::Array(_))
                    | ("object", J::Object(_))
            )
        })
        .collect()
}

fn walk(root: &J, cur: &J, path: &mut Vec<Step>, small: u64, out: &mut Vec<TreeMut>) {
    // wrong field type at every position
    for (k, v) in wrong_types(cur) {
        push(out, root, path, "wrong_type", k.to_string(), v);
    }
    match cur {
        J::Null => {
            // an unset Option becomes every small id
            for x in 0..=small {
                push(out, root, path, "null_to_id", x.to_string(), num(&x.to_string()));
            }
        }
        J::Bool(b) => {
            push(out, root, path, "bool_flip", (!b).to_string(), J::Bool(!b));
        }
        J::Number(n) => {
            let own = n.to_string();
            let mut cands: Vec<String> = vec![
                "0".into(),
                "1".into(),
                "2147483648".into(),
                "18446744073709551615".into(),
                "-1".into(),
                "1.5".into(),
            ];
            if let Ok(x) = own.parse::<u128>() {
                if x > 0 {
                    cands.push((x - 1).to_string());
                }
                if let Some(y) = x.checked_add(1) {
                    cands.push(y.to_string());
                }
            }
            for x in 0..=small {
                cands.push(x.to_string());
            }
            let mut seen: Vec<String> = vec![own];
            for c in cands {
                if seen.contains(&c) {
                    continue;
                }
                seen.push(c.clone());
                push(out, root, path, "number", c.clone(), num(&c));
            }
        }
        J::String(s) => {
            push(out, root, path, "string_unknown", "UnknownTag_x".into(), J::String("UnknownTag_x".into()));
            if !s.is_empty() {
                push(out, root, path, "string_empty", "".into(), J::String(String::new()));
            }
            // nested JSON document (object or array) inside a string
            if s.starts_with('{') || s.starts_with('[') {
                if let Ok(inner) = serde_json::from_str::<J>(s) {
                    if inner.is_object() || inner.is_array() {
                        push(out, root, path, "embedded_not_json", "{".into(), J::String("{".into()));
                        path.push(Step::Embedded);
                        walk(root, &inner, path, small, out);
                        path.pop();
                    }
                }
            }
        }
        J::Array(a) => {
            if !a.is_empty() {
                push(out, root, path, "array_empty", "".into(), J::Array(vec![]));
            }
            for i in 0..a.len() {
                let mut b = a.clone();
                b.remove(i);
                push(out, root, path, "array_drop", i.to_string(), J::Array(b));
            }
            for i in 0..a.len() {
                let mut b = a.clone();
                b.insert(i + 1, a[i].clone());
                push(out, root, path, "array_dup", i.to_string(), J::Array(b));
            }
            if a.len() >= 2 {
                // swap of neighbours: reorders table rows / dependencies / nodes
                for i in 0..a.len() - 1 {
                    if a[i] != a[i + 1] {
                        let mut b = a.clone();
                        b.swap(i, i + 1);
                        push(out, root, path, "array_swap", i.to_string(), J::Array(b));
                    }
                }
            }
            for i in 0..a.len() {
                path.push(Step::Idx(i));
                walk(root, &a[i], path, small, out);
                path.pop();
            }
        }
        J::Object(m) => {
            for k in m.keys() {
                let mut m2 = m.clone();
                m2.remove(k);
                push(out, root, path, "key_removed", k.clone(), J::Object(m2));
            }
            for k in m.keys() {
                let mut m2 = m.clone();
                let v = m2.remove(k).unwrap();
                m2.insert(format!("{}_x", k), v);
                push(out, root, path, "key_renamed", k.clone(), J::Object(m2));
            }
            for k in m.keys() {
                // an extra unknown key next to the known ones
                let _ = k;
            }
            {
                let mut m2 = m.clone();
                m2.insert("zz_unknown".into(), num("0"));
                push(out, root, path, "key_added", "zz_unknown".into(), J::Object(m2));
            }
            for (k, v) in m.iter() {
                path.push(Step::Key(k.clone()));
                walk(root, v, path, small, out);
                path.pop();
            }
        }
    }
}

/// first top-level key whose subtree differs between the two trees ("" if none / not objects)
pub fn first_diff_key(a: &J, b: &J) -> String {
    match (a, b) {
        (J::Object(x), J::Object(y)) => {
            for (k, v) in x.iter() {
                if y.get(k) != Some(v) {
                    return k.clone();
                }
            }
            for k in y.keys() {
                if !x.contains_key(k) {
                    return k.clone();
                }
            }
            String::new()
        }
        _ => String::new(),
    }
}
