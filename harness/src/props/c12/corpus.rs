//! Half A corpus: contexts built with the real API - plain (names, every annotation kind, 128-bit
//! constants, Call/Iterate, every operation variant the builder accepts), every public custom
//! operation before/after instantiation, inlined (3 modes), optimized, MPC-compiled.
use super::seeds;
use crate::exec::new_eval;
use crate::mpcx::{self, Owner};
use ciphercore_base::custom_ops::{run_instantiation_pass, CustomOperation, Not, Or};
use ciphercore_base::data_types::{
    array_type, named_tuple_type, scalar_type, tuple_type, vector_type, Type, BIT, INT128, INT32, INT64,
    UINT128, UINT64, UINT8,
};
use ciphercore_base::data_values::Value;
use ciphercore_base::errors::Result;
use ciphercore_base::graphs::{
    create_context, Context, Graph, GraphAnnotation, JoinType, Node, NodeAnnotation, ShardConfig, SliceElement,
};
use ciphercore_base::inline::inline_ops::{inline_operations, InlineMode};
use ciphercore_base::ops::adder::BinaryAdd;
use ciphercore_base::ops::auc::AucScore;
use ciphercore_base::ops::clip::Clip2K;
use ciphercore_base::ops::comparisons::{
    Equal, GreaterThan, GreaterThanEqualTo, LessThan, LessThanEqualTo, NotEqual,
};
use ciphercore_base::ops::fixed_precision::fixed_multiply::FixedMultiply;
use ciphercore_base::ops::fixed_precision::fixed_precision_config::FixedPrecisionConfig;
use ciphercore_base::ops::goldschmidt_division::GoldschmidtDivision;
use ciphercore_base::ops::integer_key_sort::SortByIntegerKey;
use ciphercore_base::ops::inverse_sqrt::InverseSqrt;
use ciphercore_base::ops::long_division::LongDivision;
use ciphercore_base::ops::min_max::{Max, Min};
use ciphercore_base::ops::multiplexer::Mux;
use ciphercore_base::ops::newton_inversion::NewtonInversion;
use ciphercore_base::ops::pwl::approx_exponent::ApproxExponent;
use ciphercore_base::ops::pwl::approx_gelu::ApproxGelu;
use ciphercore_base::ops::pwl::approx_gelu_derivative::ApproxGeluDerivative;
use ciphercore_base::ops::pwl::approx_sigmoid::ApproxSigmoid;
use ciphercore_base::ops::taylor_exponent::TaylorExponent;
use ciphercore_base::optimizer::optimize::optimize_context;
use ciphercore_base::type_inference::NULL_HEADER;
use std::collections::HashMap;

pub type Builder = Box<dyn Fn() -> std::result::Result<Context, String> + Send + Sync>;

pub struct Entry {
    pub name: String,
    pub kind: &'static str,
    pub build: Builder,
}

fn es<T>(r: Result<T>) -> std::result::Result<T, String> {
    r.map_err(|e| crate::exec::first_line(&e.to_string()))
}

fn finish(c: &Context, g: &Graph, o: Node) -> Result<()> {
    o.set_as_output()?;
    g.finalize()?;
    g.set_as_main()?;
    c.finalize()?;
    Ok(())
}

/// names on everything, every node annotation kind, every graph annotation kind
fn plain_annotated() -> Result<Context> {
    let c = create_context()?;
    let h = c.create_graph()?;
    h.set_name("assoc")?;
    let x = h.input(array_type(vec![3], INT32))?;
    x.set_name("lhs")?;
    let y = h.input(array_type(vec![3], INT32))?;
    y.set_name("rhs")?;
    let o = h.add(x, y)?;
    o.set_name("sum")?;
    o.set_as_output()?;
    h.add_annotation(GraphAnnotation::AssociativeOperation)?;
    h.add_annotation(GraphAnnotation::OneBitState)?;
    h.add_annotation(GraphAnnotation::SmallState)?;
    h.finalize()?;
    let g = c.create_graph()?;
    g.set_name("main graph with spaces \"and quotes\" \\ and a backslash")?;
    g.add_annotation(GraphAnnotation::SmallState)?;
    let a = g.input(array_type(vec![3], INT32))?;
    a.set_name("a")?;
    a.add_annotation(NodeAnnotation::Private)?;
    let b = g.input(array_type(vec![3], INT32))?;
    b.set_name("b \u{e9}\u{4e2d}")?;
    for s in 0..3u64 {
        for r in 0..3u64 {
            if s != r {
                b.add_annotation(NodeAnnotation::Send(s, r))?;
            }
        }
    }
    let m = a.multiply(b.clone())?;
    m.add_annotation(NodeAnnotation::PRFMultiplication)?;
    m.add_annotation(NodeAnnotation::AssociativeOperation)?;
    let cl = g.call(h, vec![m, b.clone()])?;
    cl.add_annotation(NodeAnnotation::MpcCall)?;
    cl.set_name("call")?;
    let n = cl.nop()?;
    n.add_annotation(NodeAnnotation::PRFB2A)?;
    n.add_annotation(NodeAnnotation::PRFB2A)?;
    let s = n.subtract(b)?;
    s.add_annotation(NodeAnnotation::PRFTruncate)?;
    let _ = s.set_name("");
    finish(&c, &g, s)?;
    Ok(c)
}

fn constants_128() -> Result<Context> {
    let c = create_context()?;
    let g = c.create_graph()?;
    let i = g.input(array_type(vec![2], UINT128))?;
    let k1 = g.constant(scalar_type(UINT128), Value::from_scalar(u128::MAX, UINT128)?)?;
    let k2 = g.constant(
        array_type(vec![2], UINT128),
        Value::from_flattened_array(&[1u128 << 127, (1u128 << 64) + 1], UINT128)?,
    )?;
    let j = g.input(array_type(vec![2], INT128))?;
    let k3 = g.constant(
        array_type(vec![2], INT128),
        Value::from_flattened_array(&[i128::MIN, -1i128], INT128)?,
    )?;
    let k4 = g.constant(scalar_type(INT128), Value::from_scalar(-(1i128 << 100), INT128)?)?;
    let u = i.add(k1)?.multiply(k2)?;
    let s = j.subtract(k3)?.multiply(k4)?;
    let tt = tuple_type(vec![
        scalar_type(BIT),
        vector_type(2, array_type(vec![2], UINT8)),
        named_tuple_type(vec![("x".into(), scalar_type(INT64)), ("y".into(), tuple_type(vec![]))]),
    ]);
    let tv = Value::from_vector(vec![
        Value::from_scalar(1, BIT)?,
        Value::from_vector(vec![
            Value::from_flattened_array(&[1u8, 2], UINT8)?,
            Value::from_flattened_array(&[255u8, 0], UINT8)?,
        ]),
        Value::from_vector(vec![Value::from_scalar(-7i64, INT64)?, Value::from_vector(vec![])]),
    ]);
    let t = g.constant(tt, tv)?;
    let o = g.create_tuple(vec![u, s, t])?;
    finish(&c, &g, o)?;
    Ok(c)
}

/// nested Call inside an Iterate body, Iterate inside a called graph, a graph used twice
fn call_iterate_nested() -> Result<Context> {
    let c = create_context()?;
    let f = c.create_graph()?;
    f.set_name("f")?;
    let x = f.input(scalar_type(INT64))?;
    let y = f.input(scalar_type(INT64))?;
    f.multiply(f.add(x.clone(), y)?, x)?.set_as_output()?;
    f.finalize()?;
    let st = c.create_graph()?;
    st.set_name("step")?;
    let s = st.input(scalar_type(INT64))?;
    let e = st.input(scalar_type(INT64))?;
    let ns = st.call(f.clone(), vec![s.clone(), e.clone()])?;
    st.create_tuple(vec![ns, st.subtract(e, s)?])?.set_as_output()?;
    st.finalize()?;
    let w = c.create_graph()?;
    let a0 = w.input(scalar_type(INT64))?;
    let v0 = w.input(vector_type(3, scalar_type(INT64)))?;
    let it = w.iterate(st.clone(), a0, v0)?;
    it.set_as_output()?;
    w.finalize()?;
    let g = c.create_graph()?;
    let a = g.input(scalar_type(INT64))?;
    let arr = g.input(array_type(vec![3], INT64))?;
    let v = arr.array_to_vector()?;
    let r1 = g.call(w.clone(), vec![a.clone(), v.clone()])?;
    let fin = r1.tuple_get(0)?;
    let outs = r1.tuple_get(1)?.vector_to_array()?;
    let r2 = g.iterate(st, fin, v)?;
    let o = g.create_tuple(vec![r2.tuple_get(0)?, outs, g.call(f, vec![a.clone(), a])?])?;
    o.set_name("result")?;
    finish(&c, &g, o)?;
    Ok(c)
}

/// Name grid: two graphs (a callee and the main graph calling it) with two nodes each; every assignment of a
/// name from {none, "a", "b"} to the two graphs and the four nodes that the builder accepts (node names are
/// unique per graph, graph names per context - the same name in both graphs, or on a node and a graph, is legal).
fn name_grid(code: usize) -> Result<Context> {
    let pick = |k: usize| -> Option<&'static str> {
        match (code / 3usize.pow(k as u32)) % 3 {
            0 => None,
            1 => Some("a"),
            _ => Some("b"),
        }
    };
    let c = create_context()?;
    let f = c.create_graph()?;
    if let Some(n) = pick(0) {
        f.set_name(n)?;
    }
    let x = f.input(scalar_type(INT32))?;
    if let Some(n) = pick(1) {
        x.set_name(n)?;
    }
    let y = x.add(x.clone())?;
    if let Some(n) = pick(2) {
        y.set_name(n)?;
    }
    y.set_as_output()?;
    f.finalize()?;
    let g = c.create_graph()?;
    if let Some(n) = pick(3) {
        g.set_name(n)?;
    }
    let a = g.input(scalar_type(INT32))?;
    if let Some(n) = pick(4) {
        a.set_name(n)?;
    }
    let o = g.call(f, vec![a])?;
    if let Some(n) = pick(5) {
        o.set_name(n)?;
    }
    finish(&c, &g, o)?;
    Ok(c)
}

/// one context holding every operation variant the builder accepts (each attempt that the builder
/// rejects is skipped, the accepted variants are listed in the evidence)
fn all_operations() -> Result<Context> {
    let c = create_context()?;
    let f = c.create_graph()?;
    let fx = f.input(scalar_type(UINT64))?;
    let fy = f.input(scalar_type(UINT64))?;
    f.add(fx, fy)?.set_as_output()?;
    f.finalize()?;
    let st = c.create_graph()?;
    let ss = st.input(scalar_type(UINT64))?;
    let se = st.input(scalar_type(UINT64))?;
    st.create_tuple(vec![st.add(ss.clone(), se)?, ss])?.set_as_output()?;
    st.finalize()?;

    let g = c.create_graph()?;
    let mut keep: Vec<Node> = vec![];
    let a = g.input(array_type(vec![2, 3], INT64))?;
    let b = g.input(array_type(vec![3, 2], INT64))?;
    let bits = g.input(array_type(vec![2, 3], BIT))?;
    let u = g.input(scalar_type(UINT64))?;
    let z = g.zeros(array_type(vec![2, 3], INT64))?;
    let o = g.ones(array_type(vec![2, 3], INT64))?;
    let add = a.add(z)?;
    let sub = add.subtract(o)?;
    let mul = sub.multiply(a.clone())?;
    keep.push(a.mixed_multiply(bits.clone())?);
    keep.push(a.dot(b.clone())?);
    keep.push(a.matmul(b.clone())?);
    keep.push(a.gemm(a.clone(), false, true)?);
    let tr = mul.truncate(8)?;
    let sum = tr.sum(vec![0])?;
    let cs = a.cum_sum(1)?;
    keep.push(a.permute_axes(vec![1, 0])?);
    let get = a.get(vec![1])?;
    keep.push(a.get_slice(vec![SliceElement::SubArray(None, None, Some(-1)), SliceElement::Ellipsis])?);
    let rs = a.reshape(array_type(vec![6], INT64))?;
    keep.push(rs.nop()?);
    let rnd = g.random(array_type(vec![128], BIT))?;
    keep.push(rnd.prf(3, array_type(vec![2, 3], INT64))?);
    keep.push(rnd.permutation_from_prf(4, 5)?);
    keep.push(g.stack(vec![get.clone(), sum.clone()], vec![2])?);
    keep.push(g.concatenate(vec![a.clone(), cs], 0)?);
    let a2b = a.a2b()?;
    keep.push(a2b.b2a(INT64)?);
    let tup = g.create_tuple(vec![get.clone(), u.clone()])?;
    let nt = g.create_named_tuple(vec![("x".into(), get.clone()), ("y".into(), sum.clone())])?;
    let vec = g.create_vector(get.get_type()?, vec![get.clone(), sum.clone()])?;
    keep.push(tup.tuple_get(1)?);
    keep.push(nt.named_tuple_get("y".into())?);
    let idx = g.constant(scalar_type(UINT64), Value::from_scalar(1, UINT64)?)?;
    keep.push(vec.vector_get(idx)?);
    keep.push(g.zip(vec![vec.clone(), vec.clone()])?);
    let rep = u.repeat(3)?;
    keep.push(g.call(f, vec![u.clone(), u.clone()])?);
    keep.push(g.iterate(st, u.clone(), rep)?);
    let a2v = a.array_to_vector()?;
    keep.push(a2v.vector_to_array()?);
    keep.push(g.print("value of a:".into(), a.clone())?);
    let cond = g.ones(scalar_type(BIT))?;
    keep.push(g.assert("must hold".into(), cond, a.clone())?);
    keep.push(g.custom_op(CustomOperation::new(Not {}), vec![bits.clone()])?);

    // operations the compiler emits / that "should not be used before MPC compilation":
    // each is attempted; a rejection by type inference just leaves it out
    let mut attempt = |r: Result<Node>| {
        if let Ok(n) = r {
            keep.push(n);
        }
    };
    attempt(g.random_permutation(5));
    let perm = g.input(array_type(vec![3], UINT64))?;
    attempt(g.inverse_permutation(perm.clone()));
    let a3 = g.input(array_type(vec![3, 2], INT64))?;
    attempt(g.apply_permutation(a3.clone(), perm.clone()));
    attempt(g.apply_inverse_permutation(a3.clone(), perm.clone()));
    let ind = g.input(array_type(vec![2], UINT64))?;
    attempt(g.gather(a3.clone(), ind, 0));
    let strings = g.input(array_type(vec![4, 8], BIT))?;
    let hm = g.input(array_type(vec![3, 3, 8], BIT))?;
    let ch = g.cuckoo_hash(strings, hm);
    if let Ok(chn) = &ch {
        attempt(g.cuckoo_to_permutation(chn.clone()));
    }
    attempt(ch);
    let sm = g.input(array_type(vec![4], UINT64))?;
    attempt(g.decompose_switching_map(sm, 6));
    let sc_in = g.input(array_type(vec![3, 2], INT64))?;
    let sc_b = g.input(array_type(vec![3], BIT))?;
    let sc_first = g.input(array_type(vec![2], INT64))?;
    attempt(g.segment_cumsum(sc_in, sc_b, sc_first));
    let table_t = named_tuple_type(vec![
        (NULL_HEADER.to_string(), array_type(vec![4], BIT)),
        ("id".to_string(), array_type(vec![4], UINT64)),
        ("k2".to_string(), array_type(vec![4, 2], INT32)),
        ("v".to_string(), array_type(vec![4], INT64)),
    ]);
    let table2_t = named_tuple_type(vec![
        (NULL_HEADER.to_string(), array_type(vec![3], BIT)),
        ("id".to_string(), array_type(vec![3], UINT64)),
        ("k2".to_string(), array_type(vec![3, 2], INT32)),
        ("w".to_string(), array_type(vec![3], UINT8)),
    ]);
    let t1 = g.input(table_t)?;
    let t2 = g.input(table2_t)?;
    let mut one = HashMap::new();
    one.insert("id".to_string(), "id".to_string());
    for jt in [JoinType::Inner, JoinType::Left, JoinType::Union, JoinType::Full] {
        attempt(g.join(t1.clone(), t2.clone(), jt, one.clone()));
    }
    let cfg = ShardConfig { num_shards: 2, shard_size: 3, shard_headers: vec!["id".into()] };
    attempt(g.shard(t1.clone(), cfg.clone()));
    let mask = |n: u64, t: Type| tuple_type(vec![array_type(vec![n], BIT), t]);
    let m1 = g.input(named_tuple_type(vec![
        (NULL_HEADER.to_string(), array_type(vec![4], BIT)),
        ("id".to_string(), mask(4, array_type(vec![4], UINT64))),
        ("v".to_string(), mask(4, array_type(vec![4], INT64))),
    ]))?;
    let m2 = g.input(named_tuple_type(vec![
        (NULL_HEADER.to_string(), array_type(vec![3], BIT)),
        ("id".to_string(), mask(3, array_type(vec![3], UINT64))),
        ("w".to_string(), mask(3, array_type(vec![3], UINT8))),
    ]))?;
    attempt(g.join_with_column_masks(m1.clone(), m2, JoinType::Inner, one.clone()));
    attempt(g.shard_with_column_masks(m1, cfg));
    let key = g.input(array_type(vec![4, 8], BIT))?;
    let val = g.input(array_type(vec![4], INT32))?;
    let snt = g.create_named_tuple(vec![("key".into(), key), ("val".into(), val)])?;
    attempt(g.sort(snt, "key".into()));
    drop(attempt);
    let out = g.create_tuple(keep)?;
    finish(&c, &g, out)?;
    Ok(c)
}

/// a join along six key columns: the operation holds a HashMap with six entries
fn join_six_keys() -> Result<Context> {
    let c = create_context()?;
    let g = c.create_graph()?;
    let cols = ["ka", "kb", "kc", "kd", "ke", "kf"];
    let mk = |n: u64, extra: &str| {
        let mut v = vec![(NULL_HEADER.to_string(), array_type(vec![n], BIT))];
        for k in cols.iter() {
            v.push((k.to_string(), array_type(vec![n], UINT8)));
        }
        v.push((extra.to_string(), array_type(vec![n], INT32)));
        named_tuple_type(v)
    };
    let t1 = g.input(mk(3, "left_val"))?;
    let t2 = g.input(mk(2, "right_val"))?;
    let mut h = HashMap::new();
    for k in cols.iter() {
        h.insert(k.to_string(), k.to_string());
    }
    let j = g.join(t1, t2, JoinType::Inner, h)?;
    finish(&c, &g, j)?;
    Ok(c)
}

/// not finalized anywhere, graphs without output, no main graph, an empty graph
fn unfinished() -> Result<Context> {
    let c = create_context()?;
    let _e = c.create_graph()?;
    let g = c.create_graph()?;
    g.set_name("draft")?;
    let a = g.input(scalar_type(UINT8))?;
    a.set_name("only")?;
    a.add_annotation(NodeAnnotation::Private)?;
    g.add_annotation(GraphAnnotation::OneBitState)?;
    let h = c.create_graph()?;
    let b = h.input(scalar_type(UINT8))?;
    b.set_as_output()?;
    h.finalize()?;
    h.set_as_main()?;
    Ok(c)
}

fn empty_context() -> Result<Context> {
    create_context()
}

// ---------------------------------------------------------------- custom operations

pub fn custom_alphabet() -> Vec<(String, CustomOperation, Vec<Type>)> {
    let bits = array_type(vec![2, 8], BIT);
    let i64a = array_type(vec![3], INT64);
    let u64a = array_type(vec![2], UINT64);
    let mut v: Vec<(String, CustomOperation, Vec<Type>)> = vec![];
    let mut p = |n: &str, op: CustomOperation, t: Vec<Type>| v.push((n.to_string(), op, t));
    p("Not", CustomOperation::new(Not {}), vec![bits.clone()]);
    p("Or", CustomOperation::new(Or {}), vec![bits.clone(), bits.clone()]);
    p("Mux", CustomOperation::new(Mux {}), vec![array_type(vec![2, 1], BIT), bits.clone(), bits.clone()]);
    for s in [false, true] {
        p(&format!("GreaterThan:{}", s), CustomOperation::new(GreaterThan { signed_comparison: s }), vec![bits.clone(), bits.clone()]);
        p(&format!("LessThan:{}", s), CustomOperation::new(LessThan { signed_comparison: s }), vec![bits.clone(), bits.clone()]);
        p(&format!("LessThanEqualTo:{}", s), CustomOperation::new(LessThanEqualTo { signed_comparison: s }), vec![bits.clone(), bits.clone()]);
        p(&format!("GreaterThanEqualTo:{}", s), CustomOperation::new(GreaterThanEqualTo { signed_comparison: s }), vec![bits.clone(), bits.clone()]);
        p(&format!("Min:{}", s), CustomOperation::new(Min { signed_comparison: s }), vec![bits.clone(), bits.clone()]);
        p(&format!("Max:{}", s), CustomOperation::new(Max { signed_comparison: s }), vec![bits.clone(), bits.clone()]);
        p(&format!("BinaryAdd:{}", s), CustomOperation::new(BinaryAdd { overflow_bit: s }), vec![bits.clone(), bits.clone()]);
        p(&format!("LongDivision:{}", s), CustomOperation::new(LongDivision { signed: s }), vec![bits.clone(), bits.clone()]);
        p(
            &format!("FixedMultiply:debug={}", s),
            CustomOperation::new(FixedMultiply { config: FixedPrecisionConfig { fractional_bits: 10, debug: s } }),
            vec![i64a.clone(), i64a.clone()],
        );
    }
    p("Equal", CustomOperation::new(Equal {}), vec![bits.clone(), bits.clone()]);
    p("NotEqual", CustomOperation::new(NotEqual {}), vec![bits.clone(), bits.clone()]);
    p("Clip2K:3", CustomOperation::new(Clip2K { k: 3 }), vec![bits.clone()]);
    p(
        "SortByIntegerKey",
        CustomOperation::new(SortByIntegerKey { key: "k".into() }),
        vec![named_tuple_type(vec![("k".into(), array_type(vec![4], INT32)), ("v".into(), array_type(vec![4], INT64))])],
    );
    p("ApproxSigmoid", CustomOperation::new(ApproxSigmoid { precision: 4, approximation_log_buckets: 3 }), vec![i64a.clone()]);
    p("ApproxGelu", CustomOperation::new(ApproxGelu { precision: 4, approximation_log_buckets: 3 }), vec![i64a.clone()]);
    p("ApproxGeluDerivative", CustomOperation::new(ApproxGeluDerivative { precision: 4, approximation_log_buckets: 3 }), vec![i64a.clone()]);
    p("ApproxExponent", CustomOperation::new(ApproxExponent { precision: 4 }), vec![i64a.clone()]);
    p("NewtonInversion", CustomOperation::new(NewtonInversion { iterations: 3, denominator_cap_2k: 4 }), vec![u64a.clone()]);
    p("NewtonInversion:guess", CustomOperation::new(NewtonInversion { iterations: 2, denominator_cap_2k: 5 }), vec![u64a.clone(), u64a.clone()]);
    p("GoldschmidtDivision", CustomOperation::new(GoldschmidtDivision { iterations: 3, denominator_cap_2k: 4 }), vec![u64a.clone(), u64a.clone()]);
    p("InverseSqrt", CustomOperation::new(InverseSqrt { iterations: 3, denominator_cap_2k: 4 }), vec![u64a.clone()]);
    p("TaylorExponent", CustomOperation::new(TaylorExponent { taylor_terms: 3, fixed_precision_points: 4 }), vec![i64a.clone()]);
    p("AucScore", CustomOperation::new(AucScore { fp: FixedPrecisionConfig::default() }), vec![array_type(vec![5], INT64), array_type(vec![5], INT64)]);
    drop(p);
    v
}

fn custom_ctx(op: &CustomOperation, types: &[Type]) -> Result<Context> {
    let c = create_context()?;
    let g = c.create_graph()?;
    let mut ins = vec![];
    for (i, t) in types.iter().enumerate() {
        let n = g.input(t.clone())?;
        n.set_name(&format!("arg{}", i))?;
        ins.push(n);
    }
    let o = g.custom_op(op.clone(), ins)?;
    o.set_name("custom result")?;
    finish(&c, &g, o)?;
    Ok(c)
}

fn instantiated(c: Context) -> Result<Context> {
    Ok(run_instantiation_pass(c)?.get_context())
}
fn inlined(c: Context, mode: &InlineMode) -> Result<Context> {
    Ok(inline_operations(&c, mpcx::inline_config(mode))?.get_context())
}
fn optimized(c: Context) -> Result<Context> {
    Ok(optimize_context(&c, new_eval(1))?.get_context())
}

// ---------------------------------------------------------------- MPC programs

fn prog_add() -> Result<Context> {
    let c = create_context()?;
    let g = c.create_graph()?;
    let a = g.input(array_type(vec![2], INT32))?;
    a.set_name("a")?;
    let b = g.input(array_type(vec![2], INT32))?;
    b.set_name("b")?;
    let o = a.add(b)?;
    o.set_name("sum")?;
    finish(&c, &g, o)?;
    Ok(c)
}
fn prog_mul() -> Result<Context> {
    let c = create_context()?;
    let g = c.create_graph()?;
    let a = g.input(array_type(vec![2], INT32))?;
    let b = g.input(array_type(vec![2], INT32))?;
    let k = g.constant(scalar_type(INT32), Value::from_scalar(-3i32, INT32)?)?;
    let o = a.multiply(b)?.add(k)?;
    finish(&c, &g, o)?;
    Ok(c)
}
fn prog_cmp() -> Result<Context> {
    let c = create_context()?;
    let g = c.create_graph()?;
    let a = g.input(array_type(vec![2], INT32))?;
    let b = g.input(array_type(vec![2], INT32))?;
    let o = g.custom_op(
        CustomOperation::new(GreaterThan { signed_comparison: true }),
        vec![a.a2b()?, b.a2b()?],
    )?;
    finish(&c, &g, o)?;
    Ok(c)
}
fn prog_sort() -> Result<Context> {
    let c = create_context()?;
    let g = c.create_graph()?;
    let k = g.input(array_type(vec![4], UINT8))?;
    let v = g.input(array_type(vec![4], INT32))?;
    let nt = g.create_named_tuple(vec![("k".into(), k.a2b()?), ("v".into(), v)])?;
    let o = nt.sort("k".into())?;
    finish(&c, &g, o)?;
    Ok(c)
}
fn prog_join() -> Result<Context> {
    let c = create_context()?;
    let g = c.create_graph()?;
    let t1 = g.input(named_tuple_type(vec![
        (NULL_HEADER.to_string(), array_type(vec![3], BIT)),
        ("id".to_string(), array_type(vec![3], UINT64)),
        ("v".to_string(), array_type(vec![3], INT32)),
    ]))?;
    let t2 = g.input(named_tuple_type(vec![
        (NULL_HEADER.to_string(), array_type(vec![2], BIT)),
        ("id".to_string(), array_type(vec![2], UINT64)),
        ("w".to_string(), array_type(vec![2], UINT8)),
    ]))?;
    let mut h = HashMap::new();
    h.insert("id".to_string(), "id".to_string());
    let o = t1.join(t2, JoinType::Inner, h)?;
    finish(&c, &g, o)?;
    Ok(c)
}

fn owner_name(o: &[Owner]) -> String {
    o.iter().map(|x| x.name()).collect::<Vec<_>>().join(",")
}

pub fn corpus(thorough: bool) -> Vec<Entry> {
    let mut out: Vec<Entry> = vec![];
    let mut push = |name: String, kind: &'static str, b: Builder| out.push(Entry { name, kind, build: b });

    // the half-B seeds are part of the corpus as well
    for (i, (n, _)) in seeds::context_seeds().into_iter().enumerate() {
        push(format!("seed:{}", n), "plain", Box::new(move || Ok(seeds::context_seeds().swap_remove(i).1)));
    }
    let plain: Vec<(&'static str, fn() -> Result<Context>)> = vec![
        ("plain:annotated", plain_annotated),
        ("plain:constants128", constants_128),
        ("plain:call_iterate_nested", call_iterate_nested),
        ("plain:all_operations", all_operations),
        ("plain:join_six_keys", join_six_keys),
        ("plain:unfinished", unfinished),
        ("plain:empty", empty_context),
    ];
    for (n, f) in plain.iter() {
        let f = *f;
        push(n.to_string(), "plain", Box::new(move || es(f())));
    }
    // name grid: all 3^6 assignments minus those with a name clash inside one scope
    for code in 0..729usize {
        let d = |k: u32| (code / 3usize.pow(k)) % 3;
        let clash = |a: usize, b: usize| a != 0 && a == b;
        if clash(d(0), d(3)) || clash(d(1), d(2)) || clash(d(4), d(5)) {
            continue; // rejected by the builder (C11's subject)
        }
        push(format!("plain:name_grid:{}", code), "plain", Box::new(move || es(name_grid(code))));
    }
    let modes = mpcx::modes();
    // inlining / optimization of the Call/Iterate contexts in every mode
    let ci: Vec<(&'static str, fn() -> Result<Context>)> = vec![
        ("call_iterate_nested", call_iterate_nested),
        ("annotated", plain_annotated),
    ];
    for (n, f) in ci.iter() {
        let f = *f;
        for (mn, mode) in modes.iter() {
            let m = mode.clone();
            push(format!("inlined:{}:{}", n, mn), "inlined", Box::new(move || es(f().and_then(|c| inlined(c, &m)))));
            let m = mode.clone();
            push(
                format!("optimized:{}:{}", n, mn),
                "optimized",
                Box::new(move || es(f().and_then(|c| inlined(c, &m)).and_then(optimized))),
            );
        }
    }
    // every public custom operation: as built, instantiated, instantiated+inlined (every mode), optimized
    let n_custom = custom_alphabet().len();
    for i in 0..n_custom {
        let name = custom_alphabet()[i].0.clone();
        let get = move || {
            let (_, op, ts) = custom_alphabet().swap_remove(i);
            custom_ctx(&op, &ts)
        };
        push(format!("custom:{}", name), "custom", Box::new(move || es(get())));
        push(format!("instantiated:{}", name), "instantiated", Box::new(move || es(get().and_then(instantiated))));
        for (mi, (mn, mode)) in modes.iter().enumerate() {
            // quick: all three modes for the first members of each family, Simple for all
            if !thorough && mi > 0 && i % 5 != 0 {
                continue;
            }
            let m = mode.clone();
            push(
                format!("inlined:{}:{}", name, mn),
                "inlined",
                Box::new(move || es(get().and_then(instantiated).and_then(|c| inlined(c, &m)))),
            );
            if mi == 0 || thorough {
                let m = mode.clone();
                push(
                    format!("optimized:{}:{}", name, mn),
                    "optimized",
                    Box::new(move || es(get().and_then(instantiated).and_then(|c| inlined(c, &m)).and_then(optimized))),
                );
            }
        }
    }
    // two different custom operations + a custom operation used twice in one context
    push(
        "instantiated:mixed".into(),
        "instantiated",
        Box::new(|| {
            es((|| {
                let c = create_context()?;
                let g = c.create_graph()?;
                let a = g.input(array_type(vec![2, 8], BIT))?;
                let b = g.input(array_type(vec![2, 8], BIT))?;
                let x = g.custom_op(CustomOperation::new(Min { signed_comparison: true }), vec![a.clone(), b.clone()])?;
                let y = g.custom_op(CustomOperation::new(Max { signed_comparison: false }), vec![a.clone(), b.clone()])?;
                let z = g.custom_op(CustomOperation::new(Min { signed_comparison: true }), vec![x, y])?;
                let w = g.custom_op(CustomOperation::new(BinaryAdd { overflow_bit: false }), vec![z, a])?;
                finish(&c, &g, w)?;
                instantiated(c)
            })())
        }),
    );

    // MPC-compiled contexts
    let progs: Vec<(&'static str, fn() -> Result<Context>, bool)> = vec![
        ("add", prog_add, false),
        ("mul", prog_mul, false),
        ("cmp", prog_cmp, false),
        ("sort", prog_sort, true),
        ("join", prog_join, true),
    ];
    let owners_quick: Vec<Vec<Owner>> = vec![
        vec![Owner::P(0), Owner::P(1)],
        vec![Owner::P(2), Owner::P(2)],
        vec![Owner::Public, Owner::P(0)],
        vec![Owner::Shared, Owner::P(1)],
        vec![Owner::Shared, Owner::Shared],
        vec![Owner::Public, Owner::Public],
    ];
    let outs_quick: Vec<Vec<u8>> = vec![vec![], vec![0], vec![1, 2], vec![0, 1, 2]];
    for (pn, pf, heavy) in progs.iter() {
        let pf = *pf;
        if *heavy {
            // large compiler outputs: one configuration in quick (sort), a few in thorough
            let cfgs: Vec<(Vec<Owner>, Vec<u8>)> = if thorough {
                vec![
                    (vec![Owner::P(0), Owner::P(1)], vec![0]),
                    (vec![Owner::Shared, Owner::P(2)], vec![]),
                    (vec![Owner::P(1), Owner::Public], vec![0, 1, 2]),
                ]
            } else if *pn == "sort" {
                vec![(vec![Owner::P(0), Owner::P(1)], vec![0])]
            } else {
                vec![]
            };
            for (ow, ou) in cfgs {
                for (mi, (mn, mode)) in modes.iter().enumerate() {
                    if !thorough && mi > 0 {
                        continue;
                    }
                    let (ow2, ou2, m) = (ow.clone(), ou.clone(), mode.clone());
                    push(
                        format!("compiled:{}:[{}]:{:?}:{}", pn, owner_name(&ow), ou, mn),
                        "compiled",
                        Box::new(move || es(pf()).and_then(|c| mpcx::compile(&c, &ow2, &ou2, &m))),
                    );
                }
            }
            continue;
        }
        let owners = if thorough { mpcx::owner_vectors(2) } else { owners_quick.clone() };
        let outs = if thorough { mpcx::output_subsets() } else { outs_quick.clone() };
        for (oi, ow) in owners.iter().enumerate() {
            for (ui, ou) in outs.iter().enumerate() {
                for (mi, (mn, mode)) in modes.iter().enumerate() {
                    // quick: every owner/output pair in Simple mode, the other modes on a diagonal
                    if !thorough && mi > 0 && (oi + ui) % 3 != mi {
                        continue;
                    }
                    let (ow2, ou2, m) = (ow.clone(), ou.clone(), mode.clone());
                    push(
                        format!("compiled:{}:[{}]:{:?}:{}", pn, owner_name(ow), ou, mn),
                        "compiled",
                        Box::new(move || es(pf()).and_then(|c| mpcx::compile(&c, &ow2, &ou2, &m))),
                    );
                }
            }
        }
    }
    drop(push);
    out
}
