//! C18 - sorting is a stable sort; permutation application and inversion agree.
//!
//! Bounded-exhaustive exploration of the real `Sort`, `SortByIntegerKey`, `ApplyPermutation`,
//! `InversePermutation` code (plaintext evaluator) and of the compiled secure sort / compiled
//! permutation application (global and three-party execution through E1), against Rust's stable
//! `sort_by_key` on (key, index) and the direct definition of gather / scatter by a permutation.
//!
//! Sections (all verdict-bearing):
//!  A  plaintext `Sort` on named-tuple tables, all key columns of the bounds below, several layouts
//!  B  `SortByIntegerKey` custom op (and applications/sort.rs graphs), all integer key types
//!  C  ApplyPermutation / ApplyInversePermutation / InversePermutation, all permutations
//!  D  compiled secure sort: compile_context + E1 global / three-party execution
//!  E  compiled ApplyPermutation with a public permutation
use crate::common::{hash_str, stable_msg, Report, SplitMix};
use crate::exec::{Oracle, Plan, RealRandomness};
use crate::mpcx::{self, Owner};
use crate::vals;
use ciphercore_base::applications::sort::{create_binary_sort_graph, create_sort_graph};
use ciphercore_base::custom_ops::{run_instantiation_pass, CustomOperation};
use ciphercore_base::data_types::{array_type, ScalarType, Type, BIT};
use ciphercore_base::data_values::Value;
use ciphercore_base::errors::Result as CResult;
use ciphercore_base::graphs::{create_context, Context, Operation};
use ciphercore_base::inline::inline_ops::{DepthOptimizationLevel, InlineMode};
use ciphercore_base::ops::integer_key_sort::SortByIntegerKey;
use rayon::prelude::*;
use serde_json::{json, Value as J};
use std::collections::BTreeMap;

// ---------------------------------------------------------------------------------------------
// per-worker result, merged into the Report in enumeration order
// ---------------------------------------------------------------------------------------------

#[derive(Default)]
struct Out {
    counts: BTreeMap<&'static str, u64>,
    distinct: Vec<u64>,
    samples: Vec<J>,
    viols: Vec<(String, String, J)>,
}

impl Out {
    fn c(&mut self, k: &'static str, n: u64) {
        *self.counts.entry(k).or_insert(0) += n;
    }
    fn viol(&mut self, sig: String, what: String, case: J) {
        // keep only the first case per signature inside one worker (the Report does the same globally)
        if self.viols.iter().any(|v| v.0 == sig) {
            self.c("violating_cases_extra", 1);
            return;
        }
        self.viols.push((sig, what, case));
    }
    fn merge(self, r: &Report) {
        for (k, v) in self.counts.iter() {
            if *k == "violating_cases_extra" {
                r.count("violating_cases", *v);
            } else {
                r.count(k, *v);
            }
        }
        for h in self.distinct {
            r.distinct(h);
        }
        for s in self.samples {
            r.sample(s);
        }
        for (sig, what, case) in self.viols {
            r.violation(&sig, &what, case);
        }
    }
}

fn lib<T>(f: impl FnOnce() -> CResult<T>) -> Result<T, String> {
    match crate::common::catch(f) {
        Ok(Ok(v)) => Ok(v),
        Ok(Err(e)) => Err(format!("error: {}", crate::exec::first_line(&e.to_string()))),
        Err(p) => Err(format!("panic: {}", p)),
    }
}

fn st_name(st: &ScalarType) -> String {
    format!("{}", st)
}

fn st_by_name(s: &str) -> Option<ScalarType> {
    vals::ALL_ST.iter().find(|t| st_name(t) == s).cloned()
}

// ---------------------------------------------------------------------------------------------
// tables
// ---------------------------------------------------------------------------------------------

#[derive(Clone)]
struct Col {
    name: &'static str,
    st: ScalarType,
    /// shape after the row dimension
    inner: Vec<u64>,
    /// fill the high bits too (negative for signed types)
    wide: bool,
    is_key: bool,
}

impl Col {
    fn row_size(&self) -> usize {
        self.inner.iter().product::<u64>() as usize
    }
    fn ty(&self, n: usize) -> Type {
        let mut shape = vec![n as u64];
        shape.extend_from_slice(&self.inner);
        array_type(shape, self.st)
    }
    /// a column whose rows are pairwise different, so the row permutation can be read off
    fn identifies_rows(&self, n: usize) -> bool {
        if self.is_key {
            return false;
        }
        if self.st == BIT {
            return (1usize << self.row_size().min(20)) >= n;
        }
        // the fill pattern is 16*i+j+1 (xor a constant in wide columns): distinct rows while it does not wrap
        let w = vals::st_bits(&self.st);
        w >= 64 || ((n * 16 + self.row_size() + 1) as u128) < (1u128 << w)
    }
}

fn pcol(name: &'static str, st: ScalarType, inner: &[u64], wide: bool) -> Col {
    Col { name, st, inner: inner.to_vec(), wide, is_key: false }
}
fn kcol(b: u32) -> Col {
    Col { name: "key", st: BIT, inner: vec![b as u64], wide: false, is_key: true }
}

const N_LAYOUTS: usize = 4;
/// layout 0 is the key-only graph of applications/sort.rs (`create_binary_sort_graph`, output = key array)
fn layout(id: usize, b: u32) -> Vec<Col> {
    use ScalarType::*;
    match id {
        0 => vec![kcol(b)],
        1 => vec![
            pcol("idx", U8, &[], false),
            kcol(b),
            pcol("pair", I32, &[2], true),
            pcol("bits", Bit, &[4], false),
        ],
        2 => vec![
            kcol(b),
            pcol("cube", U64, &[2, 2], true),
            pcol("big", I128, &[], false),
            pcol("flag", Bit, &[], false),
            pcol("w16", U16, &[1], true),
        ],
        3 => vec![
            pcol("tri", I8, &[3], true),
            pcol("u32c", U32, &[], true),
            pcol("i64m", I64, &[1, 2], true),
            pcol("ubig", U128, &[2], false),
            pcol("i16c", I16, &[], true),
            kcol(b),
        ],
        // 128-bit payloads with the high bits in use
        4 => vec![kcol(b), pcol("wide_i128", I128, &[], true)],
        5 => vec![pcol("wide_u128", U128, &[2], true), kcol(b)],
        // compiled sort with a 128-bit payload holding small values
        11 => vec![kcol(b), pcol("big", I128, &[], false)],
        // compiled sort: index column, key in the middle, a 2-d signed payload
        10 => vec![pcol("idx", U8, &[], false), kcol(b), pcol("pair", I32, &[2], true)],
        _ => panic!("unknown layout"),
    }
}

/// payload element of row i, position j inside the row (residue mod 2^w)
fn fill(c: &Col, i: usize, j: usize) -> u128 {
    if c.st == BIT {
        return ((i >> j) & 1) as u128;
    }
    let base = (i * 16 + j + 1) as u128;
    if c.wide {
        let w = vals::st_bits(&c.st);
        (base ^ (0xA5u128 << (w - 8))) & vals::st_mask(&c.st)
    } else {
        // long tables: the value wraps in narrow columns (rows 16 apart then coincide in a u8 column; the wide
        // columns of every layout still tell all rows apart)
        base & vals::st_mask(&c.st)
    }
}

fn key_bits(rows: &[u64], b: u32) -> Vec<u128> {
    let mut out = Vec::with_capacity(rows.len() * b as usize);
    for r in rows {
        for j in 0..b {
            out.push(((r >> (b - 1 - j)) & 1) as u128);
        }
    }
    out
}

/// flat elements of every column (key column from `rows`)
fn table_elems(cols: &[Col], rows: &[u64], b: u32) -> Vec<Vec<u128>> {
    let n = rows.len();
    cols.iter()
        .map(|c| {
            if c.is_key {
                key_bits(rows, b)
            } else {
                let m = c.row_size();
                let mut v = Vec::with_capacity(n * m);
                for i in 0..n {
                    for j in 0..m {
                        v.push(fill(c, i, j));
                    }
                }
                v
            }
        })
        .collect()
}

fn table_values(cols: &[Col], elems: &[Vec<u128>]) -> Vec<Value> {
    cols.iter().zip(elems.iter()).map(|(c, e)| vals::arr_value(e, &c.st)).collect()
}

/// THE ORACLE: Rust's stable sort on (key, index)
fn stable_order<K: Ord + Copy>(keys: &[K]) -> Vec<usize> {
    let mut idx: Vec<usize> = (0..keys.len()).collect();
    idx.sort_by_key(|&i| (keys[i], i));
    idx
}

fn permute_rows(e: &[u128], m: usize, order: &[usize]) -> Vec<u128> {
    let mut out = Vec::with_capacity(e.len());
    for &i in order {
        out.extend_from_slice(&e[i * m..(i + 1) * m]);
    }
    out
}

fn build_sort_ctx(layout_id: usize, n: usize, b: u32) -> Result<Context, String> {
    let cols = layout(layout_id, b);
    lib(|| {
        let c = create_context()?;
        let g = if layout_id == 0 {
            create_binary_sort_graph(c.clone(), n as u64, b as u64)?
        } else {
            let g = c.create_graph()?;
            let mut elems = vec![];
            for col in cols.iter() {
                elems.push((col.name.to_string(), g.input(col.ty(n))?));
            }
            let t = g.create_named_tuple(elems)?;
            t.sort("key".to_string())?.set_as_output()?;
            g.finalize()?;
            g
        };
        c.set_main_graph(g)?;
        c.finalize()?;
        Ok(c)
    })
}

/// Compares an output table with the oracle; Err((kind, detail)) classifies the mismatch.
fn check_table(
    out: &Value,
    cols: &[Col],
    n: usize,
    in_elems: &[Vec<u128>],
    order: &[usize],
    single: bool,
) -> Result<(), (String, String)> {
    let colvals: Vec<Value> = if single {
        vec![out.clone()]
    } else {
        match out.to_vector() {
            Ok(v) => v,
            Err(_) => return Err(("layout".into(), "output is not a tuple".into())),
        }
    };
    if colvals.len() != cols.len() {
        return Err(("layout".into(), format!("{} columns instead of {}", colvals.len(), cols.len())));
    }
    let mut got: Vec<Vec<u128>> = vec![];
    for (c, v) in cols.iter().zip(colvals.iter()) {
        let t = c.ty(n);
        if !vals::layout_ok(v, &t) {
            return Err(("layout".into(), format!("column {} does not have the layout of {}", c.name, t)));
        }
        got.push(vals::arr_elems(v, &t).unwrap());
    }
    let mut all_ok = true;
    for (ci, c) in cols.iter().enumerate() {
        if got[ci] != permute_rows(&in_elems[ci], c.row_size(), order) {
            all_ok = false;
        }
    }
    if all_ok {
        return Ok(());
    }
    // classification
    let ki = cols.iter().position(|c| c.is_key).unwrap();
    let b = cols[ki].row_size();
    let rowkey = |e: &[u128], i: usize| -> u64 {
        let mut v = 0u64;
        for j in 0..b {
            v = (v << 1) | (e[i * b + j] as u64 & 1);
        }
        v
    };
    let in_keys: Vec<u64> = (0..n).map(|i| rowkey(&in_elems[ki], i)).collect();
    let out_keys: Vec<u64> = (0..n).map(|i| rowkey(&got[ki], i)).collect();
    let detail = |extra: &str| -> String {
        let mut s = format!("{}; input keys {:?}, output keys {:?}", extra, in_keys, out_keys);
        for (ci, c) in cols.iter().enumerate() {
            if !c.is_key && got[ci].len() <= 24 {
                let exp = permute_rows(&in_elems[ci], c.row_size(), order);
                if exp != got[ci] {
                    let sh = |v: &Vec<u128>| -> Vec<String> {
                        v.iter().map(|x| vals::to_signed(*x, &c.st).to_string()).collect()
                    };
                    s += &format!("; column {}: expected {:?}, observed {:?}", c.name, sh(&exp), sh(&got[ci]));
                }
            }
        }
        s
    };
    if out_keys.windows(2).any(|w| w[0] > w[1]) {
        return Err(("not-sorted".into(), detail("output keys are not in non-decreasing order")));
    }
    let mut a = in_keys.clone();
    a.sort_unstable();
    if a != out_keys {
        return Err(("keys-changed".into(), detail("output keys are not the multiset of the input keys")));
    }
    // read the row permutation off every identifying payload column
    let mut perm: Option<Vec<usize>> = None;
    for (ci, c) in cols.iter().enumerate() {
        if !c.identifies_rows(n) {
            continue;
        }
        let m = c.row_size();
        let mut p = vec![];
        for t in 0..n {
            let row = &got[ci][t * m..(t + 1) * m];
            match (0..n).find(|&i| &in_elems[ci][i * m..(i + 1) * m] == row) {
                Some(i) => p.push(i),
                None => {
                    let low = |x: &u128| *x & (u64::MAX as u128);
                    if vals::st_bits(&c.st) == 128
                        && (0..n).any(|i| in_elems[ci][i * m..(i + 1) * m].iter().map(low).collect::<Vec<_>>() == row)
                    {
                        return Err((
                            "payload-128bit-truncated".to_string(),
                            detail(&format!("row {} of column {} is an input row cut down to its low 64 bits", t, c.name)),
                        ));
                    }
                    return Err((
                        format!("payload-corrupt:{}", st_name(&c.st)),
                        detail(&format!("row {} of column {} is not a row of the input", t, c.name)),
                    ))
                }
            }
        }
        let mut q = p.clone();
        q.sort_unstable();
        if q != (0..n).collect::<Vec<_>>() {
            return Err(("rows-lost".into(), detail(&format!("column {} is not a permutation of its input rows", c.name))));
        }
        match &perm {
            None => perm = Some(p),
            Some(p0) => {
                if *p0 != p {
                    return Err((
                        "columns-disagree".into(),
                        detail(&format!("column {} was permuted by {:?}, an earlier column by {:?}", c.name, p, p0)),
                    ));
                }
            }
        }
    }
    if let Some(p) = &perm {
        if (0..n).any(|t| in_keys[p[t]] != out_keys[t]) {
            return Err(("columns-disagree".into(), detail(&format!("payload rows permuted by {:?} do not follow their keys", p))));
        }
        if p != order {
            return Err((
                "unstable".into(),
                detail(&format!("rows with equal keys do not keep their input order: permutation {:?}, stable {:?}", p, order)),
            ));
        }
    }
    Err(("mismatch".into(), detail("a column differs from the stable sort")))
}

// ---------------------------------------------------------------------------------------------
// A. plaintext Sort
// ---------------------------------------------------------------------------------------------

#[derive(Clone)]
enum KeyGen {
    /// all 2^(n*b) key columns
    All,
    /// all |alphabet|^n key columns with rows from an explicit alphabet
    Alpha(Vec<u64>),
    /// all periodic key columns: every period word of length 1..=pmax over the values 0..2^b, repeated to n rows
    Periodic(usize),
}

fn periodic_words(pmax: usize, b: u32) -> Vec<Vec<u64>> {
    let a = 1u64 << b;
    let mut out = vec![];
    for p in 1..=pmax {
        for k in 0..a.pow(p as u32) {
            let mut kk = k;
            out.push((0..p).map(|_| { let v = kk % a; kk /= a; v }).collect());
        }
    }
    out
}

impl KeyGen {
    fn size(&self, n: usize, b: u32) -> u64 {
        match self {
            KeyGen::All => 1u64 << (n as u32 * b),
            KeyGen::Alpha(a) => (a.len() as u64).pow(n as u32),
            KeyGen::Periodic(pmax) => periodic_words(*pmax, b).len() as u64,
        }
    }
    fn rows(&self, k: u64, n: usize, b: u32) -> Vec<u64> {
        match self {
            KeyGen::All => (0..n).map(|i| (k >> (i as u32 * b)) & ((1u64 << b) - 1)).collect(),
            KeyGen::Alpha(a) => {
                let m = a.len() as u64;
                let mut k = k;
                (0..n)
                    .map(|_| {
                        let v = a[(k % m) as usize];
                        k /= m;
                        v
                    })
                    .collect()
            }
            KeyGen::Periodic(pmax) => {
                let w = &periodic_words(*pmax, b)[k as usize];
                (0..n).map(|i| w[i % w.len()]).collect()
            }
        }
    }
}

/// explicit row alphabet for wide keys: every position of a first difference is represented
fn row_alphabet(b: u32) -> Vec<u64> {
    let full = (1u64 << b) - 1;
    let mut a = vec![0, full];
    for j in 0..b {
        a.push(1u64 << j); // a single one
        a.push(full & !(full >> (j + 1))); // j+1 leading ones
    }
    let mut alt = 0u64;
    for j in 0..b {
        if j % 2 == 0 {
            alt |= 1 << j;
        }
    }
    a.push(alt);
    a.push(full & !alt);
    a.sort_unstable();
    a.dedup();
    a
}

struct SortWork {
    layout: usize,
    n: usize,
    b: u32,
    gen: KeyGen,
    start: u64,
    end: u64,
}

fn sort_plain_case(ctx: &Context, layout_id: usize, cols: &[Col], rows: &[u64], b: u32) -> Result<(), (String, String)> {
    let n = rows.len();
    let elems = table_elems(cols, rows, b);
    let inputs = table_values(cols, &elems);
    let order = stable_order(rows);
    match mpcx::eval_plain(ctx, &inputs, 1) {
        Err(m) => Err((format!("fails:{}", stable_msg(&m)), m)),
        Ok(out) => check_table(&out, cols, n, &elems, &order, layout_id == 0),
    }
}

fn run_sort_work(w: &SortWork) -> Out {
    let mut o = Out::default();
    let cols = layout(w.layout, w.b);
    let ctx = match build_sort_ctx(w.layout, w.n, w.b) {
        Ok(c) => c,
        Err(m) => {
            o.viol(
                format!("C18:Sort:plain:build:{}", stable_msg(&m)),
                format!("cannot build the Sort graph (layout {}, n={}, b={}): {}", w.layout, w.n, w.b, m),
                json!({"section": "sort-plain", "layout": w.layout, "n": w.n, "b": w.b, "rows": J::Null}),
            );
            return o;
        }
    };
    for k in w.start..w.end {
        let rows = w.gen.rows(k, w.n, w.b);
        o.c("evaluations", 1);
        o.c("sort_plain_cases", 1);
        let mut s = rows.clone();
        s.sort_unstable();
        let dup = s.windows(2).any(|x| x[0] == x[1]);
        let unsorted = rows.windows(2).any(|x| x[0] > x[1]);
        if dup {
            o.c("sort_plain_with_duplicate_keys", 1);
        }
        if unsorted {
            o.c("sort_plain_unsorted_input", 1);
        }
        if dup && unsorted {
            o.c("sort_plain_dup_and_unsorted", 1);
        }
        if w.b % 2 == 1 {
            o.c("sort_plain_odd_width", 1);
        }
        if w.n >= 2 {
            o.distinct.push(hash_str(&format!("A/{}/{}/{}/{:?}", w.layout, w.n, w.b, rows)));
        }
        if k == 34 && w.layout == 1 && w.n == 3 && w.b == 2 && matches!(w.gen, KeyGen::All) {
            let (_, expected, _, order) = sort_expected(&cols, &rows, w.b, false);
            let t = ciphercore_base::data_types::tuple_type(cols.iter().map(|c| c.ty(w.n)).collect());
            o.samples.push(json!({"section": "sort-plain", "layout": w.layout, "n": w.n, "b": w.b, "rows": rows,
                "columns": cols.iter().map(|c| format!("{}: {}", c.name, c.ty(w.n))).collect::<Vec<_>>(),
                "stable_order": order, "expected_table": vals::show(&expected, &t)}));
        }
        if let Err((kind, detail)) = sort_plain_case(&ctx, w.layout, &cols, &rows, w.b) {
            o.viol(
                format!("C18:Sort:plain:{}", kind),
                format!("plaintext Sort, layout {} n={} b={} key rows {:?}: {}", w.layout, w.n, w.b, rows, detail),
                json!({"section": "sort-plain", "layout": w.layout, "n": w.n, "b": w.b, "rows": rows}),
            );
        }
    }
    o
}

fn sort_plain_work(thorough: bool) -> (Vec<SortWork>, J) {
    const CHUNK: u64 = 2048;
    let mut ws = vec![];
    let mut push = |layout: usize, n: usize, b: u32, gen: KeyGen| {
        let size = gen.size(n, b);
        let mut s = 0;
        while s < size {
            let e = (s + CHUNK).min(size);
            ws.push(SortWork { layout, n, b, gen: gen.clone(), start: s, end: e });
            s = e;
        }
    };
    let mut bounds = vec![];
    // A1: n <= 5 x b <= 3, A2: n <= 8 x b <= 2, all keys; every layout
    for layout in 0..N_LAYOUTS {
        for n in 1..=8usize {
            for b in 1..=3u32 {
                let in_a1 = n <= 5;
                let in_a2 = b <= 2;
                if !(in_a1 || in_a2) {
                    continue;
                }
                // quick tier: the two biggest spaces only with the main layout 1
                if !thorough && layout != 1 && (n as u32 * b) > 12 {
                    continue;
                }
                push(layout, n, b, KeyGen::All);
            }
        }
    }
    bounds.push(json!("A1/A2: all key columns for n<=5 x b<=3 and n<=8 x b<=2; layouts 0..3 (quick: layouts 0,2,3 only where n*b<=12)"));
    // A3: widths 4..=10 with n <= 3: all keys while n*b <= 16 (quick 12), explicit row alphabet beyond
    let all_limit = if thorough { 16 } else { 12 };
    for layout in [1usize, 0] {
        for b in 4..=10u32 {
            for n in 1..=3usize {
                if n as u32 * b <= all_limit {
                    push(layout, n, b, KeyGen::All);
                } else {
                    push(layout, n, b, KeyGen::Alpha(row_alphabet(b)));
                }
            }
        }
    }
    bounds.push(json!(format!(
        "A3: widths 4..=10, n<=3, layouts 1 and 0: all keys while n*b<={}, otherwise all tuples over the row alphabet (0, all-ones, single ones, leading-ones prefixes, two alternating patterns)",
        all_limit
    )));
    // A4: more rows (up to 12) with few distinct keys: all key columns over {0,1} (b=1) and over 3 values of width 3
    for n in 9..=12usize {
        push(1, n, 1, KeyGen::All);
    }
    if thorough {
        for n in 6..=9usize {
            push(1, n, 3, KeyGen::Alpha(vec![1, 4, 6]));
        }
    }
    // A6: long tables (the sorting routine of the evaluator may switch algorithm with the length): every periodic
    // key column of period <= 4 (b=1), <= 3 (b=2), <= 2 (b=3) at lengths around the small-slice thresholds of the
    // standard sorts (20/21, 32/33, 50, 64) and beyond; the payload (row index) shows any unstable step
    for n in [16usize, 20, 21, 22, 24, 32, 33, 50, 64, 65, 100, 128, 200] {
        if !thorough && n > 100 {
            continue;
        }
        push(1, n, 1, KeyGen::Periodic(4));
        push(1, n, 2, KeyGen::Periodic(3));
        push(1, n, 3, KeyGen::Periodic(2));
        if n <= 33 {
            push(0, n, 2, KeyGen::Periodic(2));
        }
    }
    bounds.push(json!("A6: n in {16,20,21,22,24,32,33,50,64,65,100 (thorough: 128,200)}: every periodic key column with period <=4 (b=1), <=3 (b=2), <=2 (b=3), layout 1 (layout 0 for n<=33)"));
    // A5: 128-bit payload columns whose high 64 bits are in use
    for layout in [4usize, 5] {
        for n in 1..=3usize {
            for b in 1..=2u32 {
                push(layout, n, b, KeyGen::All);
            }
        }
    }
    bounds.push(json!("A5: i128[n] / u128[n,2] payload columns with the high bits set, all keys for n<=3 x b<=2"));
    bounds.push(json!("A4: n=9..=12 x b=1 all keys (layout 1); thorough: n=6..=9, b=3, rows from {001,100,110}"));
    (ws, J::Array(bounds))
}

// ---------------------------------------------------------------------------------------------
// A7. plaintext Sort with keys wider than a machine word
// ---------------------------------------------------------------------------------------------

/// key rows as explicit bit vectors (most significant bit first, as Sort compares them)
fn wide_rows(b: usize) -> Vec<Vec<u128>> {
    let mut rows: Vec<Vec<u128>> = vec![vec![0; b], vec![1; b]];
    // a single one / a single zero at every "interesting" position: word boundaries of a 64-bit packing and the ends
    let mut pos: Vec<usize> = vec![0, 1, b / 2, b - 2, b - 1];
    for w in [32usize, 64, 128] {
        for d in [w - 1, w] {
            if d < b {
                pos.push(d);
            }
            if b >= d + 1 {
                pos.push(b - 1 - d.min(b - 1)); // the same distance from the other end
            }
        }
    }
    pos.sort_unstable();
    pos.dedup();
    for p in pos {
        let mut one = vec![0u128; b];
        one[p] = 1;
        rows.push(one);
        let mut zero = vec![1u128; b];
        zero[p] = 0;
        rows.push(zero);
    }
    rows
}

fn wide_sort_case(ctx: &Context, cols: &[Col], rows: &[Vec<u128>]) -> Result<(), (String, String)> {
    let n = rows.len();
    let elems: Vec<Vec<u128>> = cols
        .iter()
        .map(|c| {
            if c.is_key {
                rows.iter().flat_map(|r| r.iter().copied()).collect()
            } else {
                let m = c.row_size();
                let mut v = Vec::with_capacity(n * m);
                for i in 0..n {
                    for j in 0..m {
                        v.push(fill(c, i, j));
                    }
                }
                v
            }
        })
        .collect();
    let inputs = table_values(cols, &elems);
    // THE ORACLE: stable sort by (bit vector, index)
    let mut order: Vec<usize> = (0..n).collect();
    order.sort_by(|a, b| rows[*a].cmp(&rows[*b]).then(a.cmp(b)));
    match mpcx::eval_plain(ctx, &inputs, 1) {
        Err(m) => Err((format!("fails:{}", stable_msg(&m)), m)),
        Ok(out) => check_table(&out, cols, n, &elems, &order, false),
    }
}

/// every ordered pair and (thorough) triple of rows from `wide_rows(b)`, layout 1
fn run_wide_work(b: usize, thorough: bool) -> Out {
    let mut o = Out::default();
    let alphabet = wide_rows(b);
    let cols = layout(1, b as u32);
    for n in [2usize, 3] {
        if n == 3 && !thorough && b != 72 {
            continue;
        }
        let ctx = match build_sort_ctx(1, n, b as u32) {
            Ok(c) => c,
            Err(m) => {
                o.viol(
                    format!("C18:Sort:plain:build:{}", stable_msg(&m)),
                    format!("cannot build the Sort graph (layout 1, n={}, b={}): {}", n, b, m),
                    json!({"section": "sort-wide", "n": n, "b": b, "rows": J::Null}),
                );
                continue;
            }
        };
        let a = alphabet.len();
        for code in 0..a.pow(n as u32) {
            let idx: Vec<usize> = (0..n).map(|k| (code / a.pow(k as u32)) % a).collect();
            let rows: Vec<Vec<u128>> = idx.iter().map(|i| alphabet[*i].clone()).collect();
            o.c("evaluations", 1);
            o.c("sort_plain_cases", 1);
            o.c("sort_plain_wide_key_cases", 1);
            o.distinct.push(hash_str(&format!("A7/{}/{}/{:?}", n, b, idx)));
            if let Err((kind, detail)) = wide_sort_case(&ctx, &cols, &rows) {
                o.viol(
                    format!("C18:Sort:plain:wide-key:{}", kind),
                    format!("plaintext Sort with a {}-bit key, {} rows (alphabet indices {:?}): {}", b, n, idx, detail),
                    json!({"section": "sort-wide", "n": n, "b": b, "rows": rows.iter().map(|r| r.iter().map(|x| *x as u64).collect::<Vec<u64>>()).collect::<Vec<_>>()}),
                );
            }
        }
    }
    o
}

// ---------------------------------------------------------------------------------------------
// B. SortByIntegerKey
// ---------------------------------------------------------------------------------------------

fn int_alphabet(st: &ScalarType) -> Vec<u128> {
    if *st == BIT {
        return vec![0, 1];
    }
    let w = vals::st_bits(st);
    let m = vals::st_mask(st);
    let half = 1u128 << (w - 1);
    if vals::st_signed(st) {
        // min, -1, 0, 1, max  (as residues)
        vec![half, m, 0, 1, half - 1]
    } else {
        vec![0, 1, half - 1, half, m]
    }
}

/// variant 0: `create_sort_graph` of applications/sort.rs (key only, output = key array);
/// variant 1: table (idx: u8[n], key: st[n]) through the custom operation, whole table is the output
fn build_intkey_ctx(variant: usize, n: usize, st: ScalarType) -> Result<Context, String> {
    lib(|| {
        let c = create_context()?;
        let g = if variant == 0 {
            create_sort_graph(c.clone(), n as u64, st)?
        } else {
            let g = c.create_graph()?;
            let idx = g.input(array_type(vec![n as u64], ScalarType::U8))?;
            let key = g.input(array_type(vec![n as u64], st))?;
            let t = g.create_named_tuple(vec![("idx".to_string(), idx), ("key".to_string(), key)])?;
            let s = g.custom_op(CustomOperation::new(SortByIntegerKey { key: "key".to_string() }), vec![t])?;
            s.set_as_output()?;
            g.finalize()?;
            g
        };
        c.set_main_graph(g)?;
        c.finalize()?;
        let m = run_instantiation_pass(c)?;
        Ok(m.get_context())
    })
}

fn int_order(keys: &[u128], st: &ScalarType) -> Vec<usize> {
    if vals::st_signed(st) {
        let k: Vec<i128> = keys.iter().map(|x| vals::to_signed(*x, st)).collect();
        stable_order(&k)
    } else {
        stable_order(keys)
    }
}

fn intkey_case(ctx: &Context, variant: usize, st: &ScalarType, keys: &[u128]) -> Result<(), (String, String)> {
    let n = keys.len();
    let order = int_order(keys, st);
    let kt = array_type(vec![n as u64], *st);
    let it = array_type(vec![n as u64], ScalarType::U8);
    let idx: Vec<u128> = (0..n as u128).collect();
    let inputs = if variant == 0 {
        vec![vals::arr_value(keys, st)]
    } else {
        vec![vals::arr_value(&idx, &ScalarType::U8), vals::arr_value(keys, st)]
    };
    let out = match mpcx::eval_plain(ctx, &inputs, 1) {
        Ok(v) => v,
        Err(m) => return Err((format!("fails:{}", stable_msg(&m)), m)),
    };
    let (out_idx, out_key) = if variant == 0 {
        (None, out)
    } else {
        match out.to_vector() {
            Ok(v) if v.len() == 2 => (Some(v[0].clone()), v[1].clone()),
            _ => return Err(("layout".into(), "output is not a 2-column table".into())),
        }
    };
    if !vals::layout_ok(&out_key, &kt) {
        return Err(("layout".into(), format!("key column does not have the layout of {}", kt)));
    }
    let got = vals::arr_elems(&out_key, &kt).unwrap();
    let exp = permute_rows(keys, 1, &order);
    let show = |v: &[u128]| -> Vec<String> { v.iter().map(|x| vals::to_signed(*x, st).to_string()).collect() };
    if got != exp {
        let mut a = got.clone();
        let mut b = keys.to_vec();
        a.sort_unstable();
        b.sort_unstable();
        let kind = if a != b { "keys-changed" } else { "not-sorted" };
        return Err((
            kind.into(),
            format!("keys {:?}: expected {:?}, observed {:?}", show(keys), show(&exp), show(&got)),
        ));
    }
    if let Some(oi) = out_idx {
        if !vals::layout_ok(&oi, &it) {
            return Err(("layout".into(), "idx column has a wrong layout".into()));
        }
        let gi: Vec<usize> = vals::arr_elems(&oi, &it).unwrap().iter().map(|x| *x as usize).collect();
        if gi != order {
            let mut q = gi.clone();
            q.sort_unstable();
            let kind = if q != (0..n).collect::<Vec<_>>() {
                "rows-lost"
            } else if (0..n).any(|t| keys[gi[t]] != exp[t]) {
                "columns-disagree"
            } else {
                "unstable"
            };
            return Err((
                kind.into(),
                format!("keys {:?}: payload row order {:?}, stable order {:?}", show(keys), gi, order),
            ));
        }
    }
    Ok(())
}

struct IntWork {
    variant: usize,
    st: ScalarType,
    n: usize,
    /// explicit key columns
    cases: Vec<Vec<u128>>,
    ladder: bool,
}

fn ladder_cases(st: &ScalarType) -> Vec<Vec<u128>> {
    if *st == BIT {
        return vec![vec![1, 0, 1, 1, 0, 0, 1, 0, 0, 1, 1, 0]];
    }
    let w = vals::st_bits(st);
    let mut pos: Vec<u32> = vec![0, 1, 2, w / 2 - 1, w / 2, w - 3, w - 2, w - 1];
    pos.sort_unstable();
    pos.dedup();
    let mut vals_: Vec<u128> = pos.iter().map(|p| 1u128 << p).collect();
    vals_.push(0);
    vals_.push(vals::st_mask(st));
    // duplicates of two of them, so that stability is exercised as well
    vals_.push(1u128 << (w / 2));
    vals_.push(0);
    let n = vals_.len();
    let asc = vals_.clone();
    let desc: Vec<u128> = vals_.iter().rev().cloned().collect();
    let riffle: Vec<u128> = (0..n).step_by(2).chain((1..n).step_by(2)).map(|i| vals_[i]).collect();
    let rot: Vec<u128> = (0..n).map(|i| vals_[(i * 5 + 3) % n]).collect();
    vec![asc, desc, riffle, rot]
}

fn intkey_work(thorough: bool) -> (Vec<IntWork>, J) {
    let mut ws = vec![];
    let nmax = 5usize;
    for st in vals::ALL_ST.iter() {
        let a = int_alphabet(st);
        for variant in [1usize, 0] {
            for n in 1..=nmax {
                // quick: the key-only application graph up to n = 4
                if !thorough && variant == 0 && n > 4 {
                    continue;
                }
                let total = (a.len() as u64).pow(n as u32);
                let mut cases = vec![];
                for k in 0..total {
                    let mut kk = k;
                    let mut v = vec![];
                    for _ in 0..n {
                        v.push(a[(kk % a.len() as u64) as usize]);
                        kk /= a.len() as u64;
                    }
                    cases.push(v);
                }
                for ch in cases.chunks(512) {
                    ws.push(IntWork { variant, st: *st, n, cases: ch.to_vec(), ladder: false });
                }
            }
            for c in ladder_cases(st) {
                ws.push(IntWork { variant, st: *st, n: c.len(), cases: vec![c], ladder: true });
            }
            // long columns: every periodic column of period <= 3 over the alphabet at 24, 40 and 70 rows (table variant)
            if variant == 1 {
                for n in [24usize, 40, 70] {
                    let mut cases = vec![];
                    for p in 1..=3usize {
                        for k in 0..(a.len() as u64).pow(p as u32) {
                            let mut kk = k;
                            let w: Vec<u128> = (0..p).map(|_| { let v = a[(kk % a.len() as u64) as usize]; kk /= a.len() as u64; v }).collect();
                            cases.push((0..n).map(|i| w[i % p]).collect::<Vec<u128>>());
                        }
                    }
                    ws.push(IntWork { variant, st: *st, n, cases, ladder: true });
                }
            }
        }
    }
    let bounds = json!(format!(
        "B: all 11 scalar types as key; all key columns of length n<=5 over the alphabet (unsigned: 0,1,2^(w-1)-1,2^(w-1),2^w-1; signed: min,-1,0,1,max; bit: 0,1) for the (idx,key) table, n<={} for create_sort_graph; plus 4 one-hot ladder columns (<=12 rows) per type and variant, plus every periodic column (period <=3 over the alphabet) of 24, 40 and 70 rows for the table variant",
        if thorough { 5 } else { 4 }
    ));
    (ws, bounds)
}

fn run_int_work(w: &IntWork) -> Out {
    let mut o = Out::default();
    let ctx = match build_intkey_ctx(w.variant, w.n, w.st) {
        Ok(c) => c,
        Err(m) => {
            o.viol(
                format!("C18:SortByIntegerKey:build:{}:{}", st_name(&w.st), stable_msg(&m)),
                format!("cannot build/instantiate SortByIntegerKey for key type {} n={}: {}", st_name(&w.st), w.n, m),
                json!({"section": "intkey", "variant": w.variant, "st": st_name(&w.st), "keys": J::Null, "n": w.n}),
            );
            return o;
        }
    };
    for keys in w.cases.iter() {
        o.c("evaluations", 1);
        o.c(if w.ladder { "intkey_ladder_cases" } else { "intkey_cases" }, 1);
        if vals::st_signed(&w.st) {
            o.c("intkey_signed_cases", 1);
            let neg = keys.iter().any(|k| vals::to_signed(*k, &w.st) < 0);
            let pos = keys.iter().any(|k| vals::to_signed(*k, &w.st) >= 0);
            if neg && pos {
                o.c("intkey_signed_mixed_sign", 1);
            }
        }
        let ord = int_order(keys, &w.st);
        if ord.windows(2).any(|x| x[0] > x[1]) {
            o.c("intkey_unsorted_input", 1);
        }
        if w.n >= 2 {
            o.distinct.push(hash_str(&format!("B/{}/{}/{:?}", w.variant, st_name(&w.st), keys)));
        }
        if w.n == 3 && w.variant == 1 && w.st == ScalarType::I8 && keys == &vec![1u128, 0xFF, 0x80] {
            o.samples.push(json!({"section": "intkey", "st": "i8", "keys": ["1", "-1", "-128"], "stable_order": ord}));
        }
        if let Err((kind, detail)) = intkey_case(&ctx, w.variant, &w.st, keys) {
            let class = if vals::st_signed(&w.st) { "signed" } else if w.st == BIT { "bit" } else { "unsigned" };
            o.viol(
                format!("C18:SortByIntegerKey:{}{}:{}", class, vals::st_bits(&w.st), kind),
                format!(
                    "SortByIntegerKey ({}), key type {}: {}",
                    if w.variant == 0 { "create_sort_graph" } else { "table idx,key" },
                    st_name(&w.st),
                    detail
                ),
                json!({"section": "intkey", "variant": w.variant, "st": st_name(&w.st), "n": w.n,
                       "keys": keys.iter().map(|k| k.to_string()).collect::<Vec<_>>()}),
            );
        }
    }
    o
}

// ---------------------------------------------------------------------------------------------
// C. permutations (plaintext)
// ---------------------------------------------------------------------------------------------

fn all_perms(n: usize) -> Vec<Vec<usize>> {
    // lexicographic order, identity first
    fn rec(n: usize, cur: &mut Vec<usize>, used: &mut Vec<bool>, out: &mut Vec<Vec<usize>>) {
        if cur.len() == n {
            out.push(cur.clone());
            return;
        }
        for i in 0..n {
            if !used[i] {
                used[i] = true;
                cur.push(i);
                rec(n, cur, used, out);
                cur.pop();
                used[i] = false;
            }
        }
    }
    let mut out = vec![];
    rec(n, &mut vec![], &mut vec![false; n], &mut out);
    out
}

const PERM_INDEX_TYPES: [ScalarType; 4] = [ScalarType::U64, ScalarType::U8, ScalarType::U16, ScalarType::U32];

fn perm_array_cols() -> Vec<Col> {
    use ScalarType::*;
    vec![
        pcol("a_i32", I32, &[], true),
        pcol("a_u64x2", U64, &[2], true),
        pcol("a_bit3", Bit, &[3], false),
        pcol("a_i128", I128, &[], false),
        pcol("a_u8x2x2", U8, &[2, 2], true),
        pcol("a_i16x1", I16, &[1], true),
        pcol("w_i128", I128, &[], true),
        pcol("w_u128x2", U128, &[2], true),
    ]
}

const PERM_OUTPUTS: [&str; 7] = [
    "apply_permutation(a,p)",
    "apply_inverse_permutation(a,p)",
    "apply_inverse_permutation(apply_permutation(a,p),p)",
    "apply_permutation(apply_inverse_permutation(a,p),p)",
    "inverse_permutation(p)",
    "inverse_permutation(inverse_permutation(p))",
    "apply_permutation(a,inverse_permutation(p))",
];

fn build_perm_ctx(n: usize, col: &Col, ist: ScalarType) -> Result<Context, String> {
    lib(|| {
        let c = create_context()?;
        let g = c.create_graph()?;
        let a = g.input(col.ty(n))?;
        let p = g.input(array_type(vec![n as u64], ist))?;
        let ap = g.apply_permutation(a.clone(), p.clone())?;
        let aip = g.apply_inverse_permutation(a.clone(), p.clone())?;
        let r1 = g.apply_inverse_permutation(ap.clone(), p.clone())?;
        let r2 = g.apply_permutation(aip.clone(), p.clone())?;
        let inv = g.inverse_permutation(p.clone())?;
        let invinv = g.inverse_permutation(inv.clone())?;
        let apinv = g.apply_permutation(a, inv.clone())?;
        g.create_tuple(vec![ap, aip, r1, r2, inv, invinv, apinv])?.set_as_output()?;
        g.finalize()?;
        c.set_main_graph(g)?;
        c.finalize()?;
        Ok(c)
    })
}

fn gather_rows(e: &[u128], m: usize, p: &[usize]) -> Vec<u128> {
    // out[i] = a[p[i]]
    permute_rows(e, m, p)
}
fn scatter_rows(e: &[u128], m: usize, p: &[usize]) -> Vec<u128> {
    // out[p[i]] = a[i]
    let mut out = vec![0u128; e.len()];
    for (i, &t) in p.iter().enumerate() {
        out[t * m..(t + 1) * m].copy_from_slice(&e[i * m..(i + 1) * m]);
    }
    out
}

fn perm_case(ctx: &Context, col: &Col, ist: &ScalarType, p: &[usize]) -> Result<(), (String, String)> {
    let n = p.len();
    let m = col.row_size();
    let a: Vec<u128> = (0..n).flat_map(|i| (0..m).map(move |j| (i, j))).map(|(i, j)| fill(col, i, j)).collect();
    let pe: Vec<u128> = p.iter().map(|x| *x as u128).collect();
    let mut inv = vec![0u128; n];
    for (j, &t) in p.iter().enumerate() {
        inv[t] = j as u128; // output[i] = j if input[j] = i
    }
    let at = col.ty(n);
    let pt = array_type(vec![n as u64], *ist);
    let inputs = vec![vals::arr_value(&a, &col.st), vals::arr_value(&pe, ist)];
    let out = match mpcx::eval_plain(ctx, &inputs, 1) {
        Ok(v) => v,
        Err(msg) => return Err((format!("fails:{}", stable_msg(&msg)), msg)),
    };
    let vs = match out.to_vector() {
        Ok(v) if v.len() == 7 => v,
        _ => return Err(("layout".into(), "output is not a 7-tuple".into())),
    };
    let expected: [(&Type, Vec<u128>); 7] = [
        (&at, gather_rows(&a, m, p)),
        (&at, scatter_rows(&a, m, p)),
        (&at, a.clone()),
        (&at, a.clone()),
        (&pt, inv.clone()),
        (&pt, pe.clone()),
        (&at, scatter_rows(&a, m, p)),
    ];
    let kinds = ["apply", "apply-inverse", "roundtrip", "roundtrip-inverse-first", "inverse", "inverse-involution", "apply-of-inverse"];
    for k in 0..7 {
        let (t, exp) = &expected[k];
        if !vals::layout_ok(&vs[k], t) {
            return Err((format!("{}:layout", kinds[k]), format!("{} does not have the layout of {}", PERM_OUTPUTS[k], t)));
        }
        let got = vals::arr_elems(&vs[k], t).unwrap();
        if &got != exp {
            let st = t.get_scalar_type();
            let sh = |v: &Vec<u128>| -> Vec<String> { v.iter().map(|x| vals::to_signed(*x, &st).to_string()).collect() };
            let low: Vec<u128> = exp.iter().map(|x| *x & (u64::MAX as u128)).collect();
            let kind = if vals::st_bits(&st) == 128 && got == low {
                "128bit-truncated".to_string()
            } else {
                kinds[k].to_string()
            };
            return Err((
                kind,
                format!("p={:?}, a={:?}: {} expected {:?}, observed {:?}", p, sh(&a), PERM_OUTPUTS[k], sh(exp), sh(&got)),
            ));
        }
    }
    Ok(())
}

struct PermWork {
    n: usize,
    col: Col,
    ist: ScalarType,
}

fn run_perm_work(w: &PermWork) -> Out {
    let mut o = Out::default();
    let case0 = json!({"section": "perm", "n": w.n, "col": w.col.name, "index_type": st_name(&w.ist)});
    let ctx = match build_perm_ctx(w.n, &w.col, w.ist) {
        Ok(c) => c,
        Err(m) => {
            let mut case = case0.clone();
            case["p"] = J::Null;
            o.viol(
                format!("C18:Permutation:build:{}", stable_msg(&m)),
                format!("cannot build the permutation graph for {} / index type {}: {}", w.col.ty(w.n), st_name(&w.ist), m),
                case,
            );
            return o;
        }
    };
    for p in all_perms(w.n) {
        o.c("evaluations", 1);
        o.c("perm_cases", 1);
        let is_id = p.iter().enumerate().all(|(i, x)| i == *x);
        let mut involution = true;
        for (i, &t) in p.iter().enumerate() {
            if p[t] != i {
                involution = false;
            }
        }
        if !is_id {
            o.c("perm_non_identity", 1);
        }
        if !involution {
            // only here apply and apply-inverse differ
            o.c("perm_not_self_inverse", 1);
        }
        if w.n >= 2 {
            o.distinct.push(hash_str(&format!("C/{}/{}/{:?}", w.col.name, st_name(&w.ist), p)));
        }
        if w.n == 3 && p == vec![1, 2, 0] && w.col.name == "a_i32" && w.ist == ScalarType::U64 {
            o.samples.push(json!({"section": "perm", "col": "a_i32", "p": p, "inverse": [2, 0, 1]}));
        }
        if let Err((kind, detail)) = perm_case(&ctx, &w.col, &w.ist, &p) {
            let mut case = case0.clone();
            case["p"] = json!(p);
            o.viol(
                format!("C18:Permutation:plain:{}", kind),
                format!("array {} index type {}: {}", w.col.ty(w.n), st_name(&w.ist), detail),
                case,
            );
        }
    }
    o
}

// ---------------------------------------------------------------------------------------------
// D. compiled secure sort  /  E. compiled ApplyPermutation (public permutation)
// ---------------------------------------------------------------------------------------------

/// scripted PermutationFromPRF answers: every random permutation is the identity / the reversal
struct FixedPerms {
    reverse: bool,
}
impl Oracle for FixedPerms {
    fn perm_prf(&mut self, _party: usize, _idx: usize, _key: &[u8], _iv: u64, n: u64) -> Option<Value> {
        let v: Vec<u128> = if self.reverse { (0..n as u128).rev().collect() } else { (0..n as u128).collect() };
        Some(vals::arr_value(&v, &ScalarType::U64))
    }
}

#[derive(Clone, Copy, PartialEq, Eq, Debug)]
enum Tape {
    Real,
    Identity,
    Reverse,
}
impl Tape {
    fn name(&self) -> &'static str {
        match self {
            Tape::Real => "real",
            Tape::Identity => "perms-identity",
            Tape::Reverse => "perms-reverse",
        }
    }
    fn by_name(s: &str) -> Tape {
        match s {
            "perms-identity" => Tape::Identity,
            "perms-reverse" => Tape::Reverse,
            _ => Tape::Real,
        }
    }
}

fn owner_by_name(s: &str) -> Owner {
    match s {
        "P0" => Owner::P(0),
        "P1" => Owner::P(1),
        "P2" => Owner::P(2),
        "pub" => Owner::Public,
        _ => Owner::Shared,
    }
}

fn mode_by_name(s: &str) -> InlineMode {
    match s {
        "depth-default" => InlineMode::DepthOptimized(DepthOptimizationLevel::Default),
        "depth-extreme" => InlineMode::DepthOptimized(DepthOptimizationLevel::Extreme),
        _ => InlineMode::Simple,
    }
}

/// a compiled configuration: the compiled context travels to the workers as a string, every worker
/// deserializes its own copy (no AtomicRefCell shared between threads)
#[derive(Clone)]
struct Compiled {
    what: &'static str, // "sort" | "perm"
    layout: usize,      // sort: table layout; perm: 0 = apply, 1 = apply inverse
    n: usize,
    b: u32,
    owners: Vec<Owner>,
    outs: Vec<u8>,
    mode: &'static str,
    ser: Result<String, String>,
}

impl Compiled {
    fn cfg_json(&self) -> J {
        json!({"what": self.what, "layout": self.layout, "n": self.n, "b": self.b,
               "owners": self.owners.iter().map(|o| o.name()).collect::<Vec<_>>(),
               "outs": self.outs, "mode": self.mode})
    }
    fn owner_class(&self) -> String {
        let mut s: Vec<String> = self.owners.iter().map(|o| match o {
            Owner::P(_) => "party".to_string(),
            x => x.name(),
        }).collect();
        s.dedup();
        s.join("+")
    }
}

fn perm_compiled_col() -> Col {
    pcol("a", ScalarType::I32, &[2], true)
}

fn build_perm_apply_ctx(n: usize, inverse: bool) -> Result<Context, String> {
    let col = perm_compiled_col();
    lib(|| {
        let c = create_context()?;
        let g = c.create_graph()?;
        let a = g.input(col.ty(n))?;
        let p = g.input(array_type(vec![n as u64], ScalarType::U64))?;
        let o = if inverse { g.apply_inverse_permutation(a, p)? } else { g.apply_permutation(a, p)? };
        o.set_as_output()?;
        g.finalize()?;
        c.set_main_graph(g)?;
        c.finalize()?;
        Ok(c)
    })
}

fn source_ctx(what: &str, layout_id: usize, n: usize, b: u32) -> Result<Context, String> {
    if what == "sort" {
        build_sort_ctx(layout_id, n, b)
    } else {
        build_perm_apply_ctx(n, layout_id == 1)
    }
}

fn compile_cfg(what: &'static str, layout_id: usize, n: usize, b: u32, owners: Vec<Owner>, outs: Vec<u8>, mode: &'static str) -> Compiled {
    let ser = source_ctx(what, layout_id, n, b).and_then(|src| {
        let c = mpcx::compile(&src, &owners, &outs, &mode_by_name(mode))?;
        serde_json::to_string(&c).map_err(|e| format!("serialize: {}", e))
    });
    Compiled { what, layout: layout_id, n, b, owners, outs, mode, ser }
}

struct CompiledRunner {
    /// keeps the deserialized compiled context alive (graphs and nodes only hold weak references to it)
    _compiled: Context,
    plan: Plan,
    src: Context,
    in_types: Vec<Type>,
    out_type: Type,
    perm_nodes: u64,
    nodes: u64,
}

fn make_runner(cfg: &Compiled) -> Result<CompiledRunner, String> {
    let ser = cfg.ser.clone()?;
    let ctx: Context = serde_json::from_str(&ser).map_err(|e| format!("deserialize: {}", e))?;
    let plan = Plan::of_context(&ctx)?;
    let src = source_ctx(cfg.what, cfg.layout, cfg.n, cfg.b)?;
    let in_types = mpcx::input_types(&src);
    let out_type = mpcx::output_type(&src);
    let perm_nodes = plan.nodes.iter().filter(|n| matches!(n.op, Operation::PermutationFromPRF(_, _))).count() as u64;
    let nodes = plan.nodes.len() as u64;
    Ok(CompiledRunner { _compiled: ctx, plan, src, in_types, out_type, perm_nodes, nodes })
}

struct CompiledResult {
    /// Err((kind, detail))
    verdict: Result<(), (String, String)>,
    sends: u64,
    party_steps: u64,
    poisoned_sends: u64,
}

/// One execution of a compiled graph on plaintext inputs `plain` with expected output `expected`.
fn exec_compiled(
    run: &CompiledRunner,
    cfg: &Compiled,
    plain: &[Value],
    expected: &Value,
    three: bool,
    tape: Tape,
    seed: u64,
    junk_kind: u64,
) -> CompiledResult {
    let mut sm = SplitMix(seed ^ 0x5AFE_C18);
    let mut share_src = SplitMix(seed ^ 0x51A2E5);
    let mut share_bytes = || share_src.next() as u8;
    let mut junk = || match junk_kind % 3 {
        0 => 0u8,
        1 => 0xFFu8,
        _ => sm.next() as u8,
    };
    let mut real = RealRandomness;
    let mut idp = FixedPerms { reverse: false };
    let mut revp = FixedPerms { reverse: true };
    let oracle: &mut dyn Oracle = match tape {
        Tape::Real => &mut real,
        Tape::Identity => &mut idp,
        Tape::Reverse => &mut revp,
    };
    if !three {
        let inputs = mpcx::global_inputs(&run.in_types, &cfg.owners, plain, &mut share_bytes);
        let verdict = match mpcx::eval_compiled_global(&run.plan, &inputs, seed, oracle) {
            Err(m) => Err((format!("fails:{}", stable_msg(&strip_node(&m))), m)),
            Ok(out) => mpcx::check_global_output(&out, expected, &run.out_type, &cfg.outs).map_err(|m| ("wrong".to_string(), m)),
        };
        CompiledResult { verdict, sends: 0, party_steps: 0, poisoned_sends: 0 }
    } else {
        let inputs = mpcx::party_inputs(&run.in_types, &cfg.owners, plain, &mut share_bytes, &mut junk);
        let tr = mpcx::eval_compiled_three(
            &run.plan,
            &inputs,
            [seed.wrapping_mul(3) ^ 0x11, seed.wrapping_mul(5) ^ 0x22, seed.wrapping_mul(7) ^ 0x33],
            oracle,
        );
        let verdict = mpcx::check_three_output(&run.plan, &tr, expected, &run.out_type, &cfg.outs).map_err(|m| {
            let kind = if m.contains("cannot compute") { "party-cannot-compute" } else { "wrong" };
            (kind.to_string(), m)
        });
        CompiledResult { verdict, sends: tr.sends, party_steps: tr.party_steps, poisoned_sends: tr.poisoned_sends.len() as u64 }
    }
}

/// "node 123 (Gather): error: ..." -> "(Gather): error: ..." so that signatures do not depend on node ids
fn strip_node(m: &str) -> String {
    match m.find('(') {
        Some(i) if m.starts_with("node ") => m[i..].to_string(),
        _ => m.to_string(),
    }
}

struct CompiledWork {
    cfg: Compiled,
    /// sort: key index range over KeyGen::All; perm: index range into all_perms(n)
    start: u64,
    end: u64,
    execs: Vec<(bool, Tape)>,
}

fn sort_expected(cols: &[Col], rows: &[u64], b: u32, single: bool) -> (Vec<Value>, Value, Vec<Vec<u128>>, Vec<usize>) {
    let elems = table_elems(cols, rows, b);
    let inputs = table_values(cols, &elems);
    let order = stable_order(rows);
    let exp_cols: Vec<Value> = cols
        .iter()
        .zip(elems.iter())
        .map(|(c, e)| vals::arr_value(&permute_rows(e, c.row_size(), &order), &c.st))
        .collect();
    let expected = if single { exp_cols[0].clone() } else { Value::from_vector(exp_cols) };
    (inputs, expected, elems, order)
}

fn perm_expected(n: usize, p: &[usize], inverse: bool) -> (Vec<Value>, Value) {
    let col = perm_compiled_col();
    let m = col.row_size();
    let a: Vec<u128> = (0..n).flat_map(|i| (0..m).map(move |j| (i, j))).map(|(i, j)| fill(&col, i, j)).collect();
    let pe: Vec<u128> = p.iter().map(|x| *x as u128).collect();
    let exp = if inverse { scatter_rows(&a, m, p) } else { gather_rows(&a, m, p) };
    (
        vec![vals::arr_value(&a, &col.st), vals::arr_value(&pe, &ScalarType::U64)],
        vals::arr_value(&exp, &col.st),
    )
}

fn run_compiled_work(w: &CompiledWork, base_seed: u64) -> Out {
    let mut o = Out::default();
    let cfg = &w.cfg;
    let sect = if cfg.what == "sort" { "sort-compiled" } else { "perm-compiled" };
    let label = match (cfg.what, cfg.layout) {
        ("sort", 11) => "Sort[i128-payload]",
        ("sort", _) => "Sort",
        _ => "ApplyPermutation",
    };
    let run = match make_runner(cfg) {
        Ok(r) => r,
        Err(m) => {
            if w.start == 0 {
                o.viol(
                    format!("C18:{}:compiled:compile:{}:{}", label, cfg.owner_class(), stable_msg(&m)),
                    format!("compilation of {} fails for {}: {}", label, cfg.cfg_json(), m),
                    json!({"section": sect, "cfg": cfg.cfg_json(), "input": J::Null}),
                );
            }
            return o;
        }
    };
    if w.start == 0 {
        o.c("compiled_configurations", 1);
        o.c("compiled_nodes_total", run.nodes);
        if cfg.what == "sort" {
            o.c("compiled_sort_permutation_from_prf_nodes", run.perm_nodes);
        }
    }
    let cols = if cfg.what == "sort" { layout(cfg.layout, cfg.b) } else { vec![] };
    let perms = if cfg.what == "perm" { all_perms(cfg.n) } else { vec![] };
    for k in w.start..w.end {
        let (plain, expected, input_json) = if cfg.what == "sort" {
            let rows = KeyGen::All.rows(k, cfg.n, cfg.b);
            let (inputs, expected, _, _) = sort_expected(&cols, &rows, cfg.b, cfg.layout == 0);
            (inputs, expected, json!(rows))
        } else {
            let p = &perms[k as usize];
            let (inputs, expected) = perm_expected(cfg.n, p, cfg.layout == 1);
            (inputs, expected, json!(p))
        };
        // the library's plaintext result must be the oracle's (the compiled result is compared with both)
        match mpcx::eval_plain(&run.src, &plain, 1) {
            Ok(v) if v == expected => o.c("compiled_plaintext_reference_agrees", 1),
            other => {
                let m = match other {
                    Ok(v) => format!("plaintext evaluator returns {}", vals::show(&v, &run.out_type)),
                    Err(m) => m,
                };
                o.viol(
                    format!("C18:{}:plain-reference-differs", label),
                    format!("{} input {}: plaintext evaluation differs from the oracle {}: {}", label, input_json, vals::show(&expected, &run.out_type), m),
                    json!({"section": sect, "cfg": cfg.cfg_json(), "input": input_json, "three": false, "tape": "real", "seed": 0, "junk": 0, "plain_only": true}),
                );
            }
        }
        for (ei, (three, tape)) in w.execs.iter().enumerate() {
            let seed = base_seed ^ hash_str(&format!("{}/{}/{}/{}", sect, cfg.cfg_json(), k, ei));
            let junk_kind = k + ei as u64;
            let res = exec_compiled(&run, cfg, &plain, &expected, *three, *tape, seed, junk_kind);
            o.c("evaluations", 1);
            let cname: &'static str = match (cfg.what, *three) {
                ("sort", false) => "compiled_sort_global_runs",
                ("sort", true) => "compiled_sort_three_party_runs",
                (_, false) => "compiled_perm_global_runs",
                (_, true) => "compiled_perm_three_party_runs",
            };
            o.c(cname, 1);
            if *tape != Tape::Real {
                o.c("compiled_runs_scripted_permutations", 1);
            }
            o.c("three_party_sends", res.sends);
            o.c("three_party_steps", res.party_steps);
            o.c("three_party_poisoned_sends", res.poisoned_sends);
            if cfg.n >= 2 {
                o.distinct.push(hash_str(&format!("D/{}/{}/{}/{}/{}", sect, cfg.cfg_json(), input_json, three, tape.name())));
            }
            let sample_cfg = (cfg.what == "sort" && cfg.layout == 10 && cfg.n == 3 && cfg.b == 2 && k == 34 && cfg.mode == "simple")
                || (cfg.what == "perm" && cfg.n == 3 && k == 3 && cfg.layout == 1 && cfg.owners[0] == Owner::Shared);
            if sample_cfg && ei <= 1 && (cfg.owners[0] == Owner::Shared || (cfg.owners[0] == Owner::P(0) && ei == 1)) && (cfg.what == "sort" || ei == 1) {
                o.samples.push(json!({"section": sect, "cfg": cfg.cfg_json(), "rows": input_json, "three": three, "tape": tape.name(),
                    "expected": vals::show(&expected, &run.out_type), "compiled_nodes": run.nodes}));
            }
            if let Err((kind, detail)) = res.verdict {
                let sig = if cfg.what == "sort" && cfg.layout == 11 {
                    // one defect (128-bit shares moved through a 64-bit gather), whatever the owners / execution mode
                    format!("C18:Sort:compiled:128bit-payload:{}", kind)
                } else {
                    format!("C18:{}:compiled:{}:{}:{}", label, if *three { "three-party" } else { "global" }, cfg.owner_class(), kind)
                };
                o.viol(
                    sig,
                    format!(
                        "compiled {} {} ({} execution, tape {}), input {}: {} (expected {})",
                        label,
                        cfg.cfg_json(),
                        if *three { "three-party" } else { "global" },
                        tape.name(),
                        input_json,
                        detail,
                        vals::show(&expected, &run.out_type)
                    ),
                    json!({"section": sect, "cfg": cfg.cfg_json(), "input": input_json, "three": three, "tape": tape.name(),
                           "seed": seed, "junk": junk_kind}),
                );
            }
        }
    }
    o
}

fn compiled_work(thorough: bool) -> (Vec<(&'static str, usize, usize, u32, Vec<Owner>, Vec<u8>, &'static str)>, Vec<(bool, Tape)>, J) {
    let mut cfgs = vec![];
    let (nmax, bmax) = if thorough { (4usize, 3u32) } else { (3usize, 2u32) };
    // owners of the three inputs (idx, key, pair) of layout 10
    let mut owner_sets: Vec<(Vec<Owner>, Vec<u8>)> = vec![
        (vec![Owner::P(0); 3], vec![1]),
        (vec![Owner::Shared; 3], vec![2]),
    ];
    if thorough {
        owner_sets.push((vec![Owner::P(1), Owner::P(2), Owner::P(1)], vec![0]));
        owner_sets.push((vec![Owner::P(2); 3], vec![2]));
    }
    let modes: Vec<&'static str> = if thorough { vec!["simple", "depth-default"] } else { vec!["simple"] };
    for n in 1..=nmax {
        for b in 1..=bmax {
            for (ow, outs) in owner_sets.iter() {
                for mode in modes.iter() {
                    // the second inline mode only for the two basic owner sets
                    if *mode != "simple" && !(ow[0] == Owner::P(0) || ow[0] == Owner::Shared) {
                        continue;
                    }
                    cfgs.push(("sort", 10usize, n, b, ow.clone(), outs.clone(), *mode));
                }
            }
            // the key-only application graph (applications/sort.rs), one input
            if n <= 3 || thorough {
                cfgs.push(("sort", 0usize, n, b, vec![Owner::P(1)], vec![0], "simple"));
                cfgs.push(("sort", 0usize, n, b, vec![Owner::Shared], vec![1], "simple"));
            }
        }
    }
    // quick tier: the smallest width with a short first chunk followed by a full chunk
    if !thorough {
        cfgs.push(("sort", 10, 2, 3, vec![Owner::P(0); 3], vec![1], "simple"));
        cfgs.push(("sort", 10, 2, 3, vec![Owner::Shared; 3], vec![2], "simple"));
    }
    // wider keys (more radix rounds, short first chunk) on 2 rows: b = 4, 5 (thorough also n = 3, b = 4)
    cfgs.push(("sort", 10, 2, 4, vec![Owner::P(0); 3], vec![1], "simple"));
    cfgs.push(("sort", 10, 2, 5, vec![Owner::Shared; 3], vec![2], "simple"));
    if thorough {
        cfgs.push(("sort", 10, 2, 5, vec![Owner::P(0); 3], vec![1], "simple"));
        cfgs.push(("sort", 10, 2, 4, vec![Owner::Shared; 3], vec![2], "simple"));
        cfgs.push(("sort", 10, 3, 4, vec![Owner::P(0); 3], vec![1], "simple"));
    }
    // 128-bit payload column holding small values (its shares use all 128 bits)
    for n in 1..=2usize {
        cfgs.push(("sort", 11, n, 1, vec![Owner::P(0); 2], vec![1], "simple"));
        cfgs.push(("sort", 11, n, 1, vec![Owner::Shared; 2], vec![2], "simple"));
    }
    // E: ApplyPermutation / inverse with a public permutation
    let pn = if thorough { 5usize } else { 4usize };
    for n in 1..=pn {
        for inv in 0..2usize {
            for (ao, outs) in [(Owner::P(0), vec![1u8]), (Owner::Shared, vec![0u8]), (Owner::Public, vec![2u8])] {
                cfgs.push(("perm", inv, n, 0, vec![ao, Owner::Public], outs, "simple"));
            }
        }
    }
    let execs = vec![(false, Tape::Real), (true, Tape::Real), (false, Tape::Identity), (false, Tape::Reverse)];
    let bounds = json!(format!(
        "D: compiled Sort, all key columns for n<={} x b<={} (layout idx:u8[n], key, pair:i32[n,2]; and the key-only graph of applications/sort.rs), plus all keys for (n,b) in {}(2,4),(2,5){}; owners all-P0 / all-shared{}; output to one party; inline modes {:?}; executions: global+real randomness, three-party+real randomness, global with every PermutationFromPRF = identity, = reversal. E: compiled ApplyPermutation / inverse, public permutation, all permutations of n<={}, array owner P0 / shared / public",
        nmax, bmax,
        if thorough { "" } else { "(2,3)," },
        if thorough { ",(3,4)" } else { "" },
        if thorough { " / (P1,P2,P1) / all-P2" } else { "" },
        modes, pn
    ));
    (cfgs, execs, bounds)
}

// ---------------------------------------------------------------------------------------------
// driver
// ---------------------------------------------------------------------------------------------

pub fn run(r: &Report) -> i32 {
    let thorough = r.tier.thorough();

    // C first (smallest cases), then A, B, D/E: violations are kept smallest-first per signature
    let mut perm_ws = vec![];
    for n in 1..=6usize {
        for (ci, col) in perm_array_cols().into_iter().enumerate() {
            for (ii, ist) in PERM_INDEX_TYPES.iter().enumerate() {
                // quick: every array type with u64 indices, every index type with the first array type
                if !thorough && ci != 0 && ii != 0 {
                    continue;
                }
                perm_ws.push(PermWork { n, col: col.clone(), ist: *ist });
            }
        }
    }
    let mut walls = serde_json::Map::new();
    let t0 = r.elapsed();
    let outs: Vec<Out> = perm_ws.par_iter().map(run_perm_work).collect();
    for o in outs {
        o.merge(r);
    }
    walls.insert("C_permutations".into(), json!(r.elapsed() - t0));

    let (sort_ws, bounds_a) = sort_plain_work(thorough);
    let t0 = r.elapsed();
    let outs: Vec<Out> = sort_ws.par_iter().map(run_sort_work).collect();
    for o in outs {
        o.merge(r);
    }
    walls.insert("A_plaintext_sort".into(), json!(r.elapsed() - t0));
    // A7: keys wider than a machine word
    let t0 = r.elapsed();
    let wide_bs: Vec<usize> = if thorough { vec![63, 64, 65, 72, 100, 127, 128, 129, 200] } else { vec![64, 65, 72, 129] };
    let outs: Vec<Out> = wide_bs.par_iter().map(|b| run_wide_work(*b, thorough)).collect();
    for o in outs {
        o.merge(r);
    }
    walls.insert("A7_wide_keys".into(), json!(r.elapsed() - t0));

    let (int_ws, bounds_b) = intkey_work(thorough);
    let t0 = r.elapsed();
    let outs: Vec<Out> = int_ws.par_iter().map(run_int_work).collect();
    for o in outs {
        o.merge(r);
    }
    walls.insert("B_sort_by_integer_key".into(), json!(r.elapsed() - t0));

    let t0 = r.elapsed();
    let (cfgs, execs, bounds_d) = compiled_work(thorough);
    let compiled: Vec<Compiled> = cfgs
        .par_iter()
        .map(|(what, layout, n, b, ow, outs, mode)| compile_cfg(what, *layout, *n, *b, ow.clone(), outs.clone(), mode))
        .collect();
    let mut cws = vec![];
    for cfg in compiled.iter() {
        let size = if cfg.what == "sort" { 1u64 << (cfg.n as u32 * cfg.b) } else { all_perms(cfg.n).len() as u64 };
        let chunk = 32u64;
        let mut s = 0;
        while s < size {
            let e = (s + chunk).min(size);
            cws.push(CompiledWork { cfg: cfg.clone(), start: s, end: e, execs: execs.clone() });
            s = e;
        }
    }
    let seed = r.seed;
    walls.insert("D_E_compile".into(), json!(r.elapsed() - t0));
    let t0 = r.elapsed();
    let outs: Vec<Out> = cws.par_iter().map(|w| run_compiled_work(w, seed)).collect();
    for o in outs {
        o.merge(r);
    }
    walls.insert("D_E_compiled_runs".into(), json!(r.elapsed() - t0));
    r.extra("section_wall_s", J::Object(walls));

    r.extra("bounds", json!({
        "A_plaintext_sort": bounds_a,
        "B_sort_by_integer_key": bounds_b,
        "C_permutations": "all permutations of n<=6; arrays i32[n], u64[n,2], bit[n,3], i128[n], u8[n,2,2], i16[n,1]; index types u64,u8,u16,u32 (quick: full cross only along the first array type / u64 indices); 7 outputs per graph: apply, apply-inverse, both round trips, inverse, inverse of inverse, apply of inverse",
        "D_E_compiled": bounds_d,
    }));
    r.extra("oracle", json!("Rust's stable sort_by_key on (key, row index); gather out[i]=a[p[i]] for apply_permutation, scatter out[p[i]]=a[i] for apply_inverse_permutation, out[p[j]]=j for inverse_permutation"));

    r.finish(
        "exploration",
        "a case = (section, graph layout / types, n, key width, key column | permutation, and for compiled graphs configuration x execution mode x tape); counted as distinct non-trivial when the table / permutation has at least 2 rows",
        true,
        &[
            "apply_permutation(a,p)[i] = a[p[i]] (gather convention of mpc_apply_permutation.rs and of the repo's own test); apply_inverse_permutation is its inverse; inverse_permutation as documented: output[i]=j iff input[j]=i",
            "128-bit payload columns of the main layouts carry small non-negative values; full-width 128-bit payloads are exercised separately (layouts 4, 5, 11, permutation arrays w_i128 / w_u128x2) and reproduce the recorded findings about evaluate_gather keeping only 64 bits",
            "compiled ApplyPermutation is checked with a public permutation only: a permutation owned by one party / additively shared is outside the contract of ApplyPermutationMPC (private permutations are compositions p0*p1*p2; the repo's test helper says 'Party input not supported')",
            "compiled runs use real PRF/PRNG randomness with seeds derived from VERIF_SEED and the case, plus two scripted tapes for PermutationFromPRF (identity, reversal)",
            "for key widths > 5 with 3 rows (and > 8 with 2 rows) the key rows range over an explicit alphabet, not over all bit strings",
        ],
        &[
            "evaluations",
            "sort_plain_cases",
            "sort_plain_dup_and_unsorted",
            "sort_plain_odd_width",
            "intkey_cases",
            "intkey_signed_mixed_sign",
            "perm_not_self_inverse",
            "compiled_sort_global_runs",
            "compiled_sort_three_party_runs",
            "compiled_sort_permutation_from_prf_nodes",
            "compiled_perm_three_party_runs",
            "compiled_plaintext_reference_agrees",
            "three_party_sends",
        ],
    )
}

// ---------------------------------------------------------------------------------------------
// replay
// ---------------------------------------------------------------------------------------------

fn u64s(j: &J) -> Vec<u64> {
    j.as_array().map(|a| a.iter().filter_map(|x| x.as_u64()).collect()).unwrap_or_default()
}

pub fn replay(_r: &Report, rec: &J) -> i32 {
    let case = &rec["case"];
    let section = case["section"].as_str().unwrap_or("");
    let verdict: Result<(), (String, String)> = match section {
        "sort-wide" => {
            let n = case["n"].as_u64().unwrap_or(2) as usize;
            let b = case["b"].as_u64().unwrap_or(65) as u32;
            match build_sort_ctx(1, n, b) {
                Err(m) => Err(("build".into(), m)),
                Ok(ctx) => {
                    let rows: Vec<Vec<u128>> = case["rows"]
                        .as_array()
                        .map(|a| a.iter().map(|r| u64s(r).into_iter().map(|x| x as u128).collect()).collect())
                        .unwrap_or_default();
                    println!("plaintext Sort with a {}-bit key, {} rows", b, n);
                    wide_sort_case(&ctx, &layout(1, b), &rows)
                }
            }
        }
        "sort-plain" => {
            let layout_id = case["layout"].as_u64().unwrap_or(1) as usize;
            let n = case["n"].as_u64().unwrap_or(1) as usize;
            let b = case["b"].as_u64().unwrap_or(1) as u32;
            match build_sort_ctx(layout_id, n, b) {
                Err(m) => Err(("build".into(), m)),
                Ok(ctx) => {
                    let rows = u64s(&case["rows"]);
                    println!("plaintext Sort layout {} n={} b={} key rows {:?}; stable order {:?}", layout_id, n, b, rows, stable_order(&rows));
                    sort_plain_case(&ctx, layout_id, &layout(layout_id, b), &rows, b)
                }
            }
        }
        "intkey" => {
            let variant = case["variant"].as_u64().unwrap_or(1) as usize;
            let st = st_by_name(case["st"].as_str().unwrap_or("u8")).unwrap_or(ScalarType::U8);
            let n = case["n"].as_u64().unwrap_or(1) as usize;
            match build_intkey_ctx(variant, n, st) {
                Err(m) => Err(("build".into(), m)),
                Ok(ctx) => {
                    let keys: Vec<u128> = case["keys"]
                        .as_array()
                        .map(|a| a.iter().filter_map(|x| x.as_str().and_then(|s| s.parse().ok())).collect())
                        .unwrap_or_default();
                    println!("SortByIntegerKey variant {} key type {} key residues {:?}; stable order {:?}", variant, st_name(&st), keys, int_order(&keys, &st));
                    intkey_case(&ctx, variant, &st, &keys)
                }
            }
        }
        "perm" => {
            let n = case["n"].as_u64().unwrap_or(1) as usize;
            let cname = case["col"].as_str().unwrap_or("a_i32");
            let col = perm_array_cols().into_iter().find(|c| c.name == cname).unwrap_or_else(|| perm_array_cols()[0].clone());
            let ist = st_by_name(case["index_type"].as_str().unwrap_or("u64")).unwrap_or(ScalarType::U64);
            match build_perm_ctx(n, &col, ist) {
                Err(m) => Err(("build".into(), m)),
                Ok(ctx) => {
                    let p: Vec<usize> = u64s(&case["p"]).iter().map(|x| *x as usize).collect();
                    println!("permutation graph on {} with index type {}, p = {:?}", col.ty(n), st_name(&ist), p);
                    perm_case(&ctx, &col, &ist, &p)
                }
            }
        }
        "sort-compiled" | "perm-compiled" => {
            let c = &case["cfg"];
            let what: &'static str = if c["what"].as_str() == Some("sort") { "sort" } else { "perm" };
            let owners: Vec<Owner> = c["owners"].as_array().map(|a| a.iter().map(|x| owner_by_name(x.as_str().unwrap_or(""))).collect()).unwrap_or_default();
            let outs: Vec<u8> = u64s(&c["outs"]).iter().map(|x| *x as u8).collect();
            let mode: &'static str = match c["mode"].as_str() {
                Some("depth-default") => "depth-default",
                Some("depth-extreme") => "depth-extreme",
                _ => "simple",
            };
            let cfg = compile_cfg(
                what,
                c["layout"].as_u64().unwrap_or(0) as usize,
                c["n"].as_u64().unwrap_or(1) as usize,
                c["b"].as_u64().unwrap_or(0) as u32,
                owners,
                outs,
                mode,
            );
            println!("compiled {} configuration {}", what, cfg.cfg_json());
            match make_runner(&cfg) {
                Err(m) => Err(("compile".into(), m)),
                Ok(run) => {
                    let input = u64s(&case["input"]);
                    let (plain, expected) = if what == "sort" {
                        let (i, e, _, _) = sort_expected(&layout(cfg.layout, cfg.b), &input, cfg.b, cfg.layout == 0);
                        (i, e)
                    } else {
                        let p: Vec<usize> = input.iter().map(|x| *x as usize).collect();
                        perm_expected(cfg.n, &p, cfg.layout == 1)
                    };
                    println!("input {:?}; expected output {}", input, vals::show(&expected, &run.out_type));
                    if case["plain_only"].as_bool() == Some(true) {
                        match mpcx::eval_plain(&run.src, &plain, 1) {
                            Ok(v) if v == expected => Ok(()),
                            Ok(v) => Err(("plain-reference-differs".into(), format!("plaintext evaluator returns {}", vals::show(&v, &run.out_type)))),
                            Err(m) => Err(("plain-reference-differs".into(), m)),
                        }
                    } else {
                        let three = case["three"].as_bool().unwrap_or(false);
                        let tape = Tape::by_name(case["tape"].as_str().unwrap_or("real"));
                        let seed = case["seed"].as_u64().unwrap_or(0);
                        let junk = case["junk"].as_u64().unwrap_or(0);
                        exec_compiled(&run, &cfg, &plain, &expected, three, tape, seed, junk).verdict
                    }
                }
            }
        }
        other => {
            println!("MACHINERY-ERROR property=C18 unknown replay section '{}'", other);
            return 2;
        }
    };
    match verdict {
        Ok(()) => {
            println!("observed = expected: the violation does NOT reproduce");
            0
        }
        Err((kind, detail)) => {
            println!("REPRODUCED [{}]: {}", kind, detail);
            1
        }
    }
}
