//! C19 - joins implement the documented relational semantics, also when compiled.
//!
//! Part 1 (plaintext): every pair of small tables (rows: null with zero data / null with junk data /
//! live with a key from a 4-element domain, live keys unique) x 4 join types x 6 schemas (1 and 2 key
//! columns; u8, i32[2] and bit[2] key columns; equal / differing / crossed header names; null column first
//! or last) is evaluated with the real evaluator on a one-Join graph and compared - whole result table
//! including the null column, and the result type - with a reference join written from the doc comments of
//! `Graph::join` / `Graph::join_with_column_masks` over a plain column model (no code shared with
//! evaluators/join.rs). The masked variant enumerates every mask pattern on key and payload columns for
//! tables of <= 2 rows.
//! Part 2 (compiled): the same graph compiled with the real MPC compiler for six owner configurations
//! ((P0,P1), (P1,P1), (shared,P2), (public,P0), (P0,public), first table assembled from private columns and
//! one public column), one compilation per (join type, table sizes, owner configuration), then every table
//! pair over a reduced row alphabet is run in global mode and in three-party mode (junk alphabet zeros /
//! ones); the output party's table must equal the reference (= plaintext, which is re-checked on the very
//! same graph). The only allowed abort is the cuckoo-hashing failure of the party that hashes the real
//! OPRF values (party 1); such aborts are counted.
//!
//! Work is partitioned into tasks (one graph / one compilation each) that run on the rayon pool; every task
//! returns its counters and first violation per signature, merged in enumeration order.
//!
//! Development knobs (not used by the suite): VERIF_C19_DEBUG=1 prints violations and timings to stderr,
//! VERIF_C19_PART=plain|compiled, VERIF_C19_SCHEMA=<id> and VERIF_C19_MASKED=1 restrict the run (which then ends
//! as vacuous).
use crate::common::{catch, hash_str, stable_msg, Report, SplitMix};
use crate::exec::{new_eval, Plan, RealRandomness};
use crate::mpcx::{self, Owner};
use crate::vals;
use ciphercore_base::data_types::{
    array_type, named_tuple_type, tuple_type, ScalarType, Type, BIT, INT32, INT64, UINT8,
};
use ciphercore_base::data_values::Value;
use ciphercore_base::evaluators::Evaluator;
use ciphercore_base::graphs::{create_context, Context, JoinType};
use ciphercore_base::inline::inline_ops::InlineMode;
use ciphercore_base::type_inference::NULL_HEADER;
use rayon::prelude::*;
use serde_json::{json, Value as J};
use std::collections::{BTreeMap, HashMap};

// ---------------------------------------------------------------------------------------------
// table model
// ---------------------------------------------------------------------------------------------

#[derive(Clone, Debug, PartialEq)]
struct Col {
    name: String,
    st: ScalarType,
    /// shape of one row (empty = one scalar per row)
    row: Vec<u64>,
    /// elements per row
    eper: usize,
    /// per-row mask bit (masked variant, never for the null column)
    mask: Option<Vec<u8>>,
    /// n * eper residues
    data: Vec<u128>,
}

#[derive(Clone, Debug, PartialEq)]
struct Table {
    n: usize,
    /// all columns in header order, including the null column (BIT, one element per row, no mask)
    cols: Vec<Col>,
}

impl Table {
    fn null_idx(&self) -> usize {
        self.cols.iter().position(|c| c.name == NULL_HEADER).expect("table without null column")
    }
    fn null(&self, i: usize) -> u8 {
        self.cols[self.null_idx()].data[i] as u8
    }
    fn col_idx(&self, name: &str) -> usize {
        self.cols.iter().position(|c| c.name == name).expect("no such column")
    }
    /// (mask bit, data) of an entry as the documentation sees it: an entry whose mask bit is zero has no content
    fn entry(&self, c: usize, i: usize) -> (u8, Vec<u128>) {
        let col = &self.cols[c];
        if let Some(m) = &col.mask {
            if m[i] == 0 {
                return (0, vec![0; col.eper]);
            }
        }
        (1, col.data[i * col.eper..(i + 1) * col.eper].to_vec())
    }
    /// the row key if the row takes part in matching: live and every key entry has content
    fn row_key(&self, i: usize, key_cols: &[usize]) -> Option<Vec<u128>> {
        if self.null(i) == 0 {
            return None;
        }
        let mut k = vec![];
        for c in key_cols {
            let col = &self.cols[*c];
            if let Some(m) = &col.mask {
                if m[i] == 0 {
                    return None;
                }
            }
            k.extend_from_slice(&col.data[i * col.eper..(i + 1) * col.eper]);
        }
        Some(k)
    }
    fn find(&self, key: &[u128], key_cols: &[usize]) -> Option<usize> {
        (0..self.n).find(|j| self.row_key(*j, key_cols).as_deref() == Some(key))
    }
    fn col_type(&self, c: usize) -> Type {
        let col = &self.cols[c];
        let mut shape = vec![self.n as u64];
        shape.extend_from_slice(&col.row);
        let dt = array_type(shape, col.st);
        match &col.mask {
            Some(_) => tuple_type(vec![array_type(vec![self.n as u64], BIT), dt]),
            None => dt,
        }
    }
    fn ty(&self) -> Type {
        named_tuple_type((0..self.cols.len()).map(|c| (self.cols[c].name.clone(), self.col_type(c))).collect())
    }
    fn col_value(&self, c: usize) -> Value {
        let col = &self.cols[c];
        let d = vals::arr_value(&col.data, &col.st);
        match &col.mask {
            Some(m) => {
                let mv: Vec<u128> = m.iter().map(|x| *x as u128).collect();
                Value::from_vector(vec![vals::arr_value(&mv, &BIT), d])
            }
            None => d,
        }
    }
    fn value(&self) -> Value {
        Value::from_vector((0..self.cols.len()).map(|c| self.col_value(c)).collect())
    }
    fn show(&self) -> J {
        let mut m = serde_json::Map::new();
        for c in self.cols.iter() {
            let name = if c.name == NULL_HEADER { "<null>".to_string() } else { c.name.clone() };
            let rows: Vec<J> = (0..self.n)
                .map(|i| {
                    let d: Vec<String> = c.data[i * c.eper..(i + 1) * c.eper]
                        .iter()
                        .map(|x| vals::to_signed(*x, &c.st).to_string())
                        .collect();
                    match &c.mask {
                        Some(mk) => json!(format!("m{}:{}", mk[i], d.join(","))),
                        None => json!(d.join(",")),
                    }
                })
                .collect();
            m.insert(name, J::Array(rows));
        }
        J::Object(m)
    }
}

// ---------------------------------------------------------------------------------------------
// reference join, written from the doc comments of Graph::join / Graph::join_with_column_masks
// ---------------------------------------------------------------------------------------------

fn jt_name(jt: JoinType) -> &'static str {
    match jt {
        JoinType::Inner => "Inner",
        JoinType::Left => "Left",
        JoinType::Union => "Union",
        JoinType::Full => "Full",
    }
}
const JTS: [JoinType; 4] = [JoinType::Inner, JoinType::Left, JoinType::Union, JoinType::Full];
fn jt_of(name: &str) -> JoinType {
    *JTS.iter().find(|j| jt_name(**j) == name).expect("join type")
}

/// keys: (header in a, header in b)
fn ref_join(a: &Table, b: &Table, jt: JoinType, keys: &[(String, String)]) -> Table {
    let ka: Vec<usize> = keys.iter().map(|k| a.col_idx(&k.0)).collect();
    let kb: Vec<usize> = keys.iter().map(|k| b.col_idx(&k.1)).collect();
    let a_null = a.null_idx();
    // result columns: all columns of a in their order, then the columns of b that are neither key columns of b
    // nor named like a column of a (the null column is named alike in both)
    #[derive(Clone, Copy)]
    enum Src {
        Null,
        AKey(usize, usize), // column of a, corresponding key column of b
        APay(usize),
        BPay(usize),
    }
    let mut src = vec![];
    let mut cols: Vec<Col> = vec![];
    let n_res = match jt {
        JoinType::Inner | JoinType::Left => a.n,
        JoinType::Union | JoinType::Full => a.n + b.n,
    };
    for (c, col) in a.cols.iter().enumerate() {
        if c == a_null {
            src.push(Src::Null);
        } else if let Some(p) = ka.iter().position(|x| *x == c) {
            src.push(Src::AKey(c, kb[p]));
        } else {
            src.push(Src::APay(c));
        }
        cols.push(Col { mask: col.mask.as_ref().map(|_| vec![]), data: vec![], ..col.clone() });
    }
    for (c, col) in b.cols.iter().enumerate() {
        if kb.contains(&c) || a.cols.iter().any(|x| x.name == col.name) {
            continue;
        }
        src.push(Src::BPay(c));
        cols.push(Col { mask: col.mask.as_ref().map(|_| vec![]), data: vec![], ..col.clone() });
    }
    let push = |cols: &mut Vec<Col>, r: usize, e: (u8, Vec<u128>)| {
        if let Some(m) = cols[r].mask.as_mut() {
            m.push(e.0);
        }
        cols[r].data.extend(e.1);
    };
    let zero = |cols: &Vec<Col>, r: usize| -> (u8, Vec<u128>) { (0, vec![0; cols[r].eper]) };
    // one output row: which rows of a / b feed it (None = nothing: zeros)
    // null bit is 1 iff at least one of them is given
    let emit = |cols: &mut Vec<Col>, ra: Option<usize>, rb: Option<usize>, keys_from_b: bool| {
        for r in 0..src.len() {
            let e = match src[r] {
                Src::Null => (1, vec![(ra.is_some() || rb.is_some()) as u128]),
                Src::AKey(ca, cb) => {
                    if keys_from_b {
                        match rb {
                            Some(j) => b.entry(cb, j),
                            None => zero(cols, r),
                        }
                    } else {
                        match ra {
                            Some(i) => a.entry(ca, i),
                            None => zero(cols, r),
                        }
                    }
                }
                Src::APay(ca) => match ra {
                    Some(i) => a.entry(ca, i),
                    None => zero(cols, r),
                },
                Src::BPay(cb) => match rb {
                    Some(j) => b.entry(cb, j),
                    None => zero(cols, r),
                },
            };
            push(cols, r, e);
        }
    };
    let match_in_b = |i: usize| -> Option<usize> { a.row_key(i, &ka).and_then(|k| b.find(&k, &kb)) };
    let match_in_a = |j: usize| -> Option<usize> { b.row_key(j, &kb).and_then(|k| a.find(&k, &ka)) };
    match jt {
        JoinType::Inner => {
            // rows where input tuples have matching row keys, in the slots of the first table
            for i in 0..a.n {
                match match_in_b(i) {
                    Some(j) => emit(&mut cols, Some(i), Some(j), false),
                    None => emit(&mut cols, None, None, false),
                }
            }
        }
        JoinType::Left => {
            // all the rows of the first table merged with the rows of the second having the same row key
            for i in 0..a.n {
                if a.null(i) == 0 {
                    emit(&mut cols, None, None, false);
                } else {
                    emit(&mut cols, Some(i), match_in_b(i), false);
                }
            }
        }
        JoinType::Union | JoinType::Full => {
            // 1. the rows of the first table that don't belong to the inner join
            for i in 0..a.n {
                if a.null(i) == 0 || match_in_b(i).is_some() {
                    emit(&mut cols, None, None, false);
                } else {
                    emit(&mut cols, Some(i), None, false);
                }
            }
            // 2. all the rows of the second table (Full: merged with the matching row of the first one)
            for j in 0..b.n {
                if b.null(j) == 0 {
                    emit(&mut cols, None, None, true);
                } else if jt == JoinType::Full {
                    emit(&mut cols, match_in_a(j), Some(j), true);
                } else {
                    emit(&mut cols, None, Some(j), true);
                }
            }
        }
    }
    Table { n: n_res, cols }
}

// ---------------------------------------------------------------------------------------------
// schemas and table enumeration
// ---------------------------------------------------------------------------------------------

#[derive(Clone, Copy, PartialEq, Debug)]
enum Role {
    Null,
    Key(usize),
    Pay,
}

#[derive(Clone, Debug)]
struct ColSpec {
    name: String,
    st: ScalarType,
    row: Vec<u64>,
    role: Role,
}

#[derive(Clone, Debug)]
struct Schema {
    id: &'static str,
    a: Vec<ColSpec>,
    b: Vec<ColSpec>,
    /// key pairs in key-column order
    keys: Vec<(String, String)>,
    /// dom[k][key column] = the row's elements
    dom: Vec<Vec<Vec<u128>>>,
}

fn cs(name: &str, st: ScalarType, row: &[u64], role: Role) -> ColSpec {
    ColSpec { name: name.to_string(), st, row: row.to_vec(), role }
}

const M32: u128 = 0xffff_ffff;

fn schemas() -> Vec<Schema> {
    let nul = || cs(NULL_HEADER, BIT, &[], Role::Null);
    let u8dom: Vec<Vec<Vec<u128>>> = vec![vec![vec![0]], vec![vec![1]], vec![vec![128]], vec![vec![255]]];
    let vdom: Vec<Vec<Vec<u128>>> =
        vec![vec![vec![0, 0]], vec![vec![0, 1 << 31]], vec![vec![M32, 0]], vec![vec![M32, 7]]];
    // every key differs from key 0 (all zeros) in exactly one element
    let k2dom: Vec<Vec<Vec<u128>>> = vec![
        vec![vec![0], vec![0, 0]],
        vec![vec![0], vec![0, 1 << 31]],
        vec![vec![128], vec![0, 0]],
        vec![vec![0], vec![M32, 0]],
    ];
    vec![
        Schema {
            id: "k1-eq",
            a: vec![nul(), cs("id", UINT8, &[], Role::Key(0)), cs("pa", INT64, &[], Role::Pay)],
            b: vec![nul(), cs("id", UINT8, &[], Role::Key(0)), cs("pb", BIT, &[3], Role::Pay)],
            keys: vec![("id".into(), "id".into())],
            dom: u8dom.clone(),
        },
        Schema {
            id: "k1-diff",
            a: vec![nul(), cs("ida", UINT8, &[], Role::Key(0)), cs("pa", INT64, &[], Role::Pay)],
            b: vec![cs("pb", BIT, &[3], Role::Pay), cs("idb", UINT8, &[], Role::Key(0)), nul()],
            keys: vec![("ida".into(), "idb".into())],
            dom: u8dom,
        },
        Schema {
            id: "k2-eq",
            a: vec![
                nul(),
                cs("id", UINT8, &[], Role::Key(0)),
                cs("v", INT32, &[2], Role::Key(1)),
                cs("pa", INT64, &[], Role::Pay),
            ],
            b: vec![
                nul(),
                cs("id", UINT8, &[], Role::Key(0)),
                cs("v", INT32, &[2], Role::Key(1)),
                cs("pb", BIT, &[3], Role::Pay),
            ],
            keys: vec![("id".into(), "id".into()), ("v".into(), "v".into())],
            dom: k2dom.clone(),
        },
        Schema {
            id: "k2-diff",
            a: vec![
                nul(),
                cs("va", INT32, &[2], Role::Key(1)),
                cs("pa", INT64, &[], Role::Pay),
                cs("id", UINT8, &[], Role::Key(0)),
            ],
            b: vec![
                nul(),
                cs("id", UINT8, &[], Role::Key(0)),
                cs("pb", BIT, &[3], Role::Pay),
                cs("vb", INT32, &[2], Role::Key(1)),
            ],
            keys: vec![("id".into(), "id".into()), ("va".into(), "vb".into())],
            dom: k2dom,
        },
        Schema {
            // a two-bit key: the narrowest key the secure protocol can be given
            id: "kb-eq",
            a: vec![nul(), cs("kb", BIT, &[2], Role::Key(0)), cs("pa", INT64, &[], Role::Pay)],
            b: vec![nul(), cs("kb", BIT, &[2], Role::Key(0)), cs("pb", BIT, &[3], Role::Pay)],
            keys: vec![("kb".into(), "kb".into())],
            dom: vec![vec![vec![0, 0]], vec![vec![1, 0]], vec![vec![0, 1]], vec![vec![1, 1]]],
        },
        Schema {
            // the payload column of a is named like the key column of b
            id: "k1v-cross",
            a: vec![nul(), cs("va", INT32, &[2], Role::Key(0)), cs("w", INT64, &[], Role::Pay)],
            b: vec![nul(), cs("w", INT32, &[2], Role::Key(0)), cs("pb", BIT, &[3], Role::Pay)],
            keys: vec![("va".into(), "w".into())],
            dom: vdom,
        },
        Schema {
            // as above, and the clashing columns have ONE type: a data column of a is named like (and typed like) the
            // key column of b; key names differ
            // two tables of ONE type joined on crossed keys (s = d', d = s': "reciprocal edges"); every column is a key
            id: "k2-swap",
            a: vec![nul(), cs("s", UINT8, &[], Role::Key(0)), cs("d", UINT8, &[], Role::Key(1))],
            b: vec![nul(), cs("s", UINT8, &[], Role::Key(1)), cs("d", UINT8, &[], Role::Key(0))],
            keys: vec![("s".into(), "d".into()), ("d".into(), "s".into())],
            dom: vec![vec![vec![0], vec![1]], vec![vec![1], vec![0]], vec![vec![1], vec![1]], vec![vec![2], vec![5]]],
        },
        Schema {
            id: "k1-cross-same",
            a: vec![nul(), cs("ida", UINT8, &[], Role::Key(0)), cs("idb", UINT8, &[], Role::Pay)],
            b: vec![nul(), cs("idb", UINT8, &[], Role::Key(0)), cs("pb", BIT, &[3], Role::Pay)],
            keys: vec![("ida".into(), "idb".into())],
            dom: vec![vec![vec![0]], vec![vec![1]], vec![vec![128]], vec![vec![255]]],
        },
    ]
}

fn schema_by_id(id: &str) -> Schema {
    schemas().into_iter().find(|s| s.id == id).expect("schema id")
}

/// kind: 0 = null row with zero data and zero masks, 1 = null row with junk data (key 1 of the domain, a payload,
/// masks one), 2 = live row
#[derive(Clone, Copy, PartialEq, Eq, Debug, Hash)]
struct RowD {
    kind: u8,
    key: u8,
    /// bit c = mask of key column c
    kmask: u8,
    pmask: u8,
}

fn rowd_json(rows: &[RowD]) -> J {
    J::Array(rows.iter().map(|r| json!([r.kind, r.key, r.kmask, r.pmask])).collect())
}
fn rowd_parse(j: &J) -> Vec<RowD> {
    j.as_array()
        .expect("rows")
        .iter()
        .map(|x| {
            let v: Vec<u64> = x.as_array().unwrap().iter().map(|y| y.as_u64().unwrap()).collect();
            RowD { kind: v[0] as u8, key: v[1] as u8, kmask: v[2] as u8, pmask: v[3] as u8 }
        })
        .collect()
}

fn payload(st: &ScalarType, eper: usize, side_b: bool, i: usize) -> Vec<u128> {
    if *st == BIT {
        let v = (i as u128 + 1) | 4;
        (0..eper).map(|k| (v >> k) & 1).collect()
    } else {
        let base: u128 = if side_b { 0x4000_0000_0000_0000 } else { 0x8000_0000_0000_0000 };
        (0..eper).map(|k| (base | (0x0101 * (i as u128 + 1)) | ((k as u128) << 32)) & vals::st_mask(st)).collect()
    }
}

fn materialize(s: &Schema, side_b: bool, rows: &[RowD], masked: bool) -> Table {
    let specs = if side_b { &s.b } else { &s.a };
    let n = rows.len();
    let nkeys = s.keys.len();
    let full_kmask = (1u8 << nkeys) - 1;
    let mut cols = vec![];
    for sp in specs.iter() {
        let eper = sp.row.iter().product::<u64>() as usize;
        let mut data = vec![];
        let mut mask = vec![];
        for (i, r) in rows.iter().enumerate() {
            match sp.role {
                Role::Null => data.push((r.kind == 2) as u128),
                Role::Key(k) => match r.kind {
                    0 => {
                        data.extend(vec![0; eper]);
                        mask.push(0);
                    }
                    1 => {
                        data.extend(s.dom[1][k].iter().cloned());
                        mask.push(1);
                    }
                    _ => {
                        data.extend(s.dom[r.key as usize][k].iter().cloned());
                        mask.push((if masked { r.kmask } else { full_kmask } >> k) & 1);
                    }
                },
                Role::Pay => match r.kind {
                    0 => {
                        data.extend(vec![0; eper]);
                        mask.push(0);
                    }
                    1 => {
                        data.extend(payload(&sp.st, eper, side_b, i));
                        mask.push(1);
                    }
                    _ => {
                        data.extend(payload(&sp.st, eper, side_b, i));
                        mask.push(if masked { r.pmask } else { 1 });
                    }
                },
            }
        }
        let m = vals::st_mask(&sp.st);
        let data: Vec<u128> = data.iter().map(|x| x & m).collect();
        cols.push(Col {
            name: sp.name.clone(),
            st: sp.st,
            row: sp.row.clone(),
            eper,
            mask: if masked && sp.role != Role::Null { Some(mask) } else { None },
            data,
        });
    }
    Table { n, cols }
}

/// Row alphabet. nkeys_dom = number of domain keys used; masked: every key-mask pattern and both payload masks.
fn alphabet(nkeycols: usize, nkeys_dom: usize, masked: bool, null_kinds: &[u8]) -> Vec<RowD> {
    let full = (1u8 << nkeycols) - 1;
    let mut out: Vec<RowD> = null_kinds.iter().map(|k| RowD { kind: *k, key: 0, kmask: 0, pmask: 0 }).collect();
    for key in 0..nkeys_dom as u8 {
        if masked {
            // all ones first (simplest first)
            for km in (0..=full).rev() {
                for pm in [1u8, 0u8] {
                    out.push(RowD { kind: 2, key, kmask: km, pmask: pm });
                }
            }
        } else {
            out.push(RowD { kind: 2, key, kmask: full, pmask: 1 });
        }
    }
    out
}

/// all tables of exactly n rows over the alphabet whose keyed rows (live, all key masks one) have distinct keys
fn tables(alpha: &[RowD], n: usize, nkeycols: usize) -> Vec<Vec<RowD>> {
    let full = (1u8 << nkeycols) - 1;
    let mut out = vec![];
    let mut idx = vec![0usize; n];
    loop {
        let rows: Vec<RowD> = idx.iter().map(|i| alpha[*i]).collect();
        let mut ok = true;
        for i in 0..n {
            for j in 0..i {
                if rows[i].kind == 2
                    && rows[j].kind == 2
                    && rows[i].kmask == full
                    && rows[j].kmask == full
                    && rows[i].key == rows[j].key
                {
                    ok = false;
                }
            }
        }
        if ok {
            out.push(rows);
        }
        // next (last index fastest)
        let mut p = n;
        loop {
            if p == 0 {
                return out;
            }
            p -= 1;
            idx[p] += 1;
            if idx[p] < alpha.len() {
                break;
            }
            idx[p] = 0;
        }
    }
}

fn n_live(rows: &[RowD]) -> usize {
    rows.iter().filter(|r| r.kind == 2).count()
}

// ---------------------------------------------------------------------------------------------
// the real graph
// ---------------------------------------------------------------------------------------------

fn headers_map(s: &Schema) -> HashMap<String, String> {
    s.keys.iter().cloned().collect()
}

/// One-Join graph. split_a: the first table is assembled with create_named_tuple from one input per column.
fn build_ctx(ta: &Type, tb: &Type, s: &Schema, jt: JoinType, masked: bool, split_a: bool) -> Result<Context, String> {
    let (ta, tb, hm) = (ta.clone(), tb.clone(), headers_map(s));
    let res = catch(move || -> ciphercore_base::errors::Result<Context> {
        let c = create_context()?;
        let g = c.create_graph()?;
        let a = if split_a {
            let mut cols = vec![];
            for (name, t) in ta.get_named_types()? {
                cols.push((name.clone(), g.input(t.clone())?));
            }
            g.create_named_tuple(cols)?
        } else {
            g.input(ta)?
        };
        let b = g.input(tb)?;
        let o = if masked { g.join_with_column_masks(a, b, jt, hm)? } else { g.join(a, b, jt, hm)? };
        o.set_as_output()?;
        g.finalize()?;
        g.set_as_main()?;
        c.finalize()?;
        Ok(c)
    });
    match res {
        Ok(Ok(c)) => Ok(c),
        Ok(Err(e)) => Err(format!("error: {}", crate::exec::first_line(&e.to_string()))),
        Err(p) => Err(format!("panic: {}", p)),
    }
}

fn plain_inputs(a: &Table, b: &Table, split_a: bool) -> Vec<Value> {
    let mut v = vec![];
    if split_a {
        for c in 0..a.cols.len() {
            v.push(a.col_value(c));
        }
    } else {
        v.push(a.value());
    }
    v.push(b.value());
    v
}

// ---------------------------------------------------------------------------------------------
// per-task result (merged in enumeration order => deterministic evidence)
// ---------------------------------------------------------------------------------------------

#[derive(Default)]
struct Out {
    counts: BTreeMap<String, u64>,
    viols: Vec<(String, String, J)>,
    distinct: Vec<u64>,
    samples: Vec<J>,
}
impl Out {
    fn count(&mut self, k: &str, n: u64) {
        *self.counts.entry(k.to_string()).or_insert(0) += n;
    }
    fn violation(&mut self, sig: String, what: String, case: J) {
        self.count("task_violating_cases", 1);
        if !self.viols.iter().any(|v| v.0 == sig) {
            self.viols.push((sig, what, case));
        }
    }
}

fn merge(r: &Report, outs: Vec<Out>) {
    for o in outs {
        for (k, v) in o.counts.iter() {
            if k != "task_violating_cases" {
                r.count(k, *v);
            }
        }
        // Report::violation counts one violating case per call; only first-per-signature cases are forwarded,
        // the total is kept in an own counter
        if let Some(n) = o.counts.get("task_violating_cases") {
            r.count("violating_cases_total", *n);
        }
        for (s, w, c) in o.viols {
            if std::env::var("VERIF_C19_DEBUG").is_ok() {
                eprintln!("VIOL {} :: {}", s, w.chars().take(900).collect::<String>());
            }
            r.violation(&s, &w, c);
        }
        for d in o.distinct {
            r.distinct(d);
        }
        for s in o.samples {
            r.sample(s);
        }
    }
}

// ---------------------------------------------------------------------------------------------
// part 1: plaintext
// ---------------------------------------------------------------------------------------------

struct PlainTask {
    schema: Schema,
    jt: JoinType,
    masked: bool,
    ta: Vec<Vec<RowD>>,
    tb: Vec<Vec<RowD>>,
}

fn plain_case_json(s: &Schema, jt: JoinType, masked: bool, a: &[RowD], b: &[RowD]) -> J {
    json!({"part": "plain", "schema": s.id, "join": jt_name(jt), "masked": masked,
           "a": rowd_json(a), "b": rowd_json(b)})
}

/// evaluates the one-Join graph with the library's evaluator and compares with the reference.
/// Returns Ok(()) or Err((kind, message)).
fn check_plain_one(
    ev: &mut ciphercore_base::evaluators::simple_evaluator::SimpleEvaluator,
    ctx: &Context,
    a: &Table,
    b: &Table,
    expected: &Table,
    out_t: &Type,
) -> Result<(), (String, String)> {
    let ins = plain_inputs(a, b, false);
    let c = ctx.clone();
    let got = match catch(|| ev.evaluate_context(c, ins)) {
        Ok(Ok(v)) => v,
        Ok(Err(e)) => {
            let m = crate::exec::first_line(&e.to_string());
            return Err((format!("error:{}", short_msg(&m)), format!("evaluation fails: {}", m)));
        }
        Err(p) => return Err((format!("panic:{}", short_msg(&p)), format!("evaluation panics: {}", p))),
    };
    let exp_v = expected.value();
    if !vals::layout_ok(&got, out_t) {
        return Err(("layout".into(), "result value does not have the layout of the result type".into()));
    }
    if got != exp_v {
        return Err((
            "wrong-table".into(),
            format!("result {} instead of {}", vals::show(&got, out_t), vals::show(&exp_v, out_t)),
        ));
    }
    Ok(())
}

/// stable head of an error message: digits replaced, cut at the first ',' or ':'
fn short_msg(m: &str) -> String {
    let s = stable_msg(m);
    let cut = s.find(|c| c == ',' || c == ':').unwrap_or(s.len());
    s[..cut].trim().to_string()
}

/// message without the "node N (Op): " and "error: " / "panic: " prefixes, shortened
fn core_msg(m: &str) -> String {
    let mut t = m;
    if t.starts_with("node ") {
        if let Some(p) = t.find("): ") {
            t = &t[p + 3..];
        }
    }
    for pre in ["error: ", "panic: "] {
        if let Some(rest) = t.strip_prefix(pre) {
            t = rest;
        }
    }
    short_msg(t)
}

fn run_plain_task(t: &PlainTask, want_samples: bool) -> Out {
    let mut o = Out::default();
    let s = &t.schema;
    let proto_a = materialize(s, false, &t.ta[0], t.masked);
    let proto_b = materialize(s, true, &t.tb[0], t.masked);
    let ctx = match build_ctx(&proto_a.ty(), &proto_b.ty(), s, t.jt, t.masked, false) {
        Ok(c) => c,
        Err(m) => {
            o.count("graphs_rejected", 1);
            // The documentation defines the full join as union_join(a, left_join(b, a)). When a non-key column of a
            // is named like a key column of b, that inner left join violates the documented naming rule (both
            // tables have a non-participating column of one name), so the full join is undefined there and a
            // rejection at graph-building time is the documented behaviour; Inner/Left/Union must still build.
            if jt_name(t.jt) == "Full" && (s.id == "k1v-cross" || s.id == "k1-cross-same") {
                o.count("full_join_rejected_where_documented_decomposition_is_ill_typed", 1);
                return o;
            }
            o.violation(
                format!("C19:plain:{}:{}:build:{}", jt_name(t.jt), s.id, stable_msg(&m)),
                format!("a documented join graph cannot be built: {}", m),
                plain_case_json(s, t.jt, t.masked, &t.ta[0], &t.tb[0]),
            );
            return o;
        }
    };
    o.count("plain_graphs", 1);
    let out_t = mpcx::output_type(&ctx);
    // the result type must be the one the reference predicts (column order, row count)
    let exp_t = ref_join(&proto_a, &proto_b, t.jt, &s.keys).ty();
    if out_t != exp_t {
        o.violation(
            format!("C19:plain:{}:{}:result-type", jt_name(t.jt), s.id),
            format!("result type {} instead of {}", out_t, exp_t),
            plain_case_json(s, t.jt, t.masked, &t.ta[0], &t.tb[0]),
        );
        return o;
    }
    o.count("result_types_checked", 1);
    let mut ev = new_eval(1);
    if let Err(e) = ev.preprocess(&ctx) {
        o.violation(
            format!("C19:plain:{}:{}:preprocess", jt_name(t.jt), s.id),
            format!("preprocess fails: {}", e),
            plain_case_json(s, t.jt, t.masked, &t.ta[0], &t.tb[0]),
        );
        return o;
    }
    let tabs_a: Vec<Table> = t.ta.iter().map(|r| materialize(s, false, r, t.masked)).collect();
    let tabs_b: Vec<Table> = t.tb.iter().map(|r| materialize(s, true, r, t.masked)).collect();
    for (ia, a) in tabs_a.iter().enumerate() {
        for (ib, b) in tabs_b.iter().enumerate() {
            let expected = ref_join(a, b, t.jt, &s.keys);
            o.count("evaluations", 1);
            o.count(if t.masked { "plain_masked_evaluations" } else { "plain_unmasked_evaluations" }, 1);
            let (ra, rb) = (&t.ta[ia], &t.tb[ib]);
            // bookkeeping of what the case exercises
            let nulls = expected.cols[expected.null_idx()].data.iter().filter(|x| **x == 1).count();
            let matches = (0..a.n)
                .filter(|i| {
                    let ka: Vec<usize> = s.keys.iter().map(|k| a.col_idx(&k.0)).collect();
                    let kb: Vec<usize> = s.keys.iter().map(|k| b.col_idx(&k.1)).collect();
                    a.row_key(*i, &ka).and_then(|k| b.find(&k, &kb)).is_some()
                })
                .count();
            if matches > 0 {
                o.count("cases_with_matching_rows", 1);
            }
            if nulls > 0 {
                o.count("cases_with_nonempty_result", 1);
            }
            if t.masked && (ra.iter().chain(rb.iter())).any(|r| r.kind == 2 && (r.kmask as usize) != (1 << s.keys.len()) - 1) {
                o.count("cases_with_masked_key_entry", 1);
            }
            if n_live(ra) > 0 && n_live(rb) > 0 {
                o.distinct.push(hash_str(&format!(
                    "p|{}|{}|{}|{:?}|{:?}",
                    s.id,
                    jt_name(t.jt),
                    t.masked,
                    ra,
                    rb
                )));
            }
            if want_samples && ia == tabs_a.len() - 1 && ib == tabs_b.len() - 1 {
                o.samples.push(json!({"case": plain_case_json(s, t.jt, t.masked, ra, rb),
                    "a": a.show(), "b": b.show(), "expected": expected.show()}));
            }
            if let Err((kind, msg)) = check_plain_one(&mut ev, &ctx, a, b, &expected, &out_t) {
                o.violation(
                    if kind == "wrong-table" {
                        format!("C19:plain:{}{}:{}:{}", jt_name(t.jt), if t.masked { ":masked" } else { "" }, s.id, kind)
                    } else {
                        format!("C19:plain:{}{}:{}", jt_name(t.jt), if t.masked { ":masked" } else { "" }, kind)
                    },
                    format!(
                        "{} join{} of a={} b={} (schema {}): {}",
                        jt_name(t.jt),
                        if t.masked { " with column masks" } else { "" },
                        a.show(),
                        b.show(),
                        s.id,
                        msg
                    ),
                    plain_case_json(s, t.jt, t.masked, ra, rb),
                );
            }
        }
    }
    o
}

// ---------------------------------------------------------------------------------------------
// part 2: compiled
// ---------------------------------------------------------------------------------------------

#[derive(Clone, Debug)]
struct OwnerCfg {
    name: &'static str,
    /// class used in violation signatures
    class: &'static str,
    split_a: bool,
    /// owner of table a (or of its columns when split_a: null+key columns / payload columns)
    a: Owner,
    a_pay: Owner,
    b: Owner,
    out: u8,
}

fn owner_cfgs() -> Vec<OwnerCfg> {
    let p = Owner::P;
    vec![
        OwnerCfg { name: "P0,P1", class: "both-private", split_a: false, a: p(0), a_pay: p(0), b: p(1), out: 2 },
        OwnerCfg { name: "P1,P1", class: "both-private", split_a: false, a: p(1), a_pay: p(1), b: p(1), out: 0 },
        OwnerCfg { name: "shared,P2", class: "both-private", split_a: false, a: Owner::Shared, a_pay: Owner::Shared, b: p(2), out: 1 },
        OwnerCfg { name: "pub,P0", class: "public-first", split_a: false, a: Owner::Public, a_pay: Owner::Public, b: p(0), out: 0 },
        OwnerCfg { name: "P0,pub", class: "public-second", split_a: false, a: p(0), a_pay: p(0), b: Owner::Public, out: 1 },
        OwnerCfg { name: "P0+pubcol,P1", class: "public-column", split_a: true, a: p(0), a_pay: Owner::Public, b: p(1), out: 2 },
    ]
}

fn owners_vec(oc: &OwnerCfg, s: &Schema) -> Vec<Owner> {
    let mut v = vec![];
    if oc.split_a {
        for sp in s.a.iter() {
            v.push(if sp.role == Role::Pay { oc.a_pay } else { oc.a });
        }
    } else {
        v.push(oc.a);
    }
    v.push(oc.b);
    v
}

struct CompTask {
    schema: Schema,
    jt: JoinType,
    masked: bool,
    na: usize,
    nb: usize,
    oc: OwnerCfg,
    ta: Vec<Vec<RowD>>,
    tb: Vec<Vec<RowD>>,
    seed: u64,
    /// quick tier: only the three-party run, junk zeros for even / ones for odd pair index
    alternate_junk: bool,
    /// (i, n): this task handles the table pairs whose index is i modulo n (large tasks are split for parallelism)
    chunk: (u64, u64),
}

fn comp_case_json(t: &CompTask, a: &[RowD], b: &[RowD], mode: &str, junk: u8, case_seed: u64) -> J {
    json!({"part": "compiled", "schema": t.schema.id, "join": jt_name(t.jt), "masked": t.masked,
           "owners": t.oc.name, "a": rowd_json(a), "b": rowd_json(b), "mode": mode, "junk": junk,
           "case_seed": case_seed.to_string()})
}

/// configuration class of a compiled case: owner class, plus "narrow-key" when the merged key has at most 8 bits
/// (then the random rows that pad the cuckoo table collide with real keys with noticeable probability)
fn cfg_class(oc: &OwnerCfg, s: &Schema) -> String {
    let bits: u64 = s
        .a
        .iter()
        .filter(|c| matches!(c.role, Role::Key(_)))
        .map(|c| c.row.iter().product::<u64>() * vals::st_bits(&c.st) as u64)
        .sum();
    if bits <= 8 {
        format!("{}:narrow-key", oc.class)
    } else {
        oc.class.to_string()
    }
}

struct Compiled {
    plan: Plan,
    types: Vec<Type>,
    out_t: Type,
    owners: Vec<Owner>,
    plain_ctx: Context,
    /// keeps the compiled context alive (the plan's nodes hold weak references to it)
    _mpc: Context,
}

fn compile_for(s: &Schema, jt: JoinType, masked: bool, na: usize, nb: usize, oc: &OwnerCfg) -> Result<Compiled, String> {
    let full = (1u8 << s.keys.len()) - 1;
    let row = RowD { kind: 2, key: 0, kmask: full, pmask: 1 };
    let pa = materialize(s, false, &vec![row; na], masked);
    let pb = materialize(s, true, &vec![row; nb], masked);
    let ctx = build_ctx(&pa.ty(), &pb.ty(), s, jt, masked, oc.split_a)?;
    let owners = owners_vec(oc, s);
    let mpc = mpcx::compile(&ctx, &owners, &[oc.out], &InlineMode::Simple)?;
    let plan = Plan::of_context(&mpc)?;
    Ok(Compiled { plan, types: mpcx::input_types(&ctx), out_t: mpcx::output_type(&ctx), owners, plain_ctx: ctx, _mpc: mpc })
}

enum Verdict {
    Ok,
    AllowedAbort,
    Bad(String, String), // (kind, message)
}

fn is_cuckoo(m: &str) -> bool {
    m.contains("Cuckoo hashing failed")
}

fn run_compiled_one(
    c: &Compiled,
    oc: &OwnerCfg,
    a: &Table,
    b: &Table,
    expected: &Value,
    mode: &str,
    junk: u8,
    case_seed: u64,
) -> Verdict {
    let plain = plain_inputs(a, b, oc.split_a);
    let mut sm = SplitMix(case_seed ^ 0x5eed_c19);
    let mut share_bytes = move || (sm.next() & 0xff) as u8;
    if mode == "global" || mode == "global-hash-collision" {
        let gi = mpcx::global_inputs(&c.types, &c.owners, &plain, &mut share_bytes);
        // degenerate randomness: two of the three Cuckoo/simple hash functions identical (see c01::HashCollide)
        let mut collide = super::c01::HashCollide((case_seed % 3) as usize, case_seed);
        let oracle: &mut dyn crate::exec::Oracle = if mode == "global" { &mut RealRandomness } else { &mut collide };
        match mpcx::eval_compiled_global(&c.plan, &gi, case_seed, oracle) {
            Err(m) => {
                if is_cuckoo(&m) {
                    Verdict::AllowedAbort
                } else {
                    Verdict::Bad(format!("error:{}", core_msg(&m)), format!("evaluation fails: {}", m))
                }
            }
            Ok(v) => match mpcx::check_global_output(&v, expected, &c.out_t, &[oc.out]) {
                Ok(()) => Verdict::Ok,
                Err(m) => Verdict::Bad("wrong-table".into(), m),
            },
        }
    } else {
        let mut jf = move || junk;
        let pi = mpcx::party_inputs(&c.types, &c.owners, &plain, &mut share_bytes, &mut jf);
        let seeds = [case_seed ^ 0x1111, case_seed ^ 0x2222, case_seed ^ 0x3333];
        let run = mpcx::eval_compiled_three(&c.plan, &pi, seeds, &mut RealRandomness);
        match mpcx::check_three_output(&c.plan, &run, expected, &c.out_t, &[oc.out]) {
            Ok(()) => Verdict::Ok,
            Err(m) => {
                // allowed abort: the party that runs cuckoo hashing on the real OPRF values (party 1) fails there
                if let Some((n, pm)) = run.vals[oc.out as usize][c.plan.output].first_poison() {
                    if is_cuckoo(&pm) && n < c.plan.nodes.len() {
                        if let crate::exec::PVal::Poison(n1, m1) = &run.vals[1][n] {
                            if *n1 == n && is_cuckoo(m1) {
                                return Verdict::AllowedAbort;
                            }
                        }
                    }
                    return Verdict::Bad(format!("abort:{}", core_msg(&pm)), m);
                }
                Verdict::Bad("wrong-table".into(), m)
            }
        }
    }
}

fn run_comp_task(t: &CompTask, want_samples: bool) -> Out {
    let mut o = Out::default();
    let s = &t.schema;
    let dbg_tc = std::time::Instant::now();
    let c = match compile_for(s, t.jt, t.masked, t.na, t.nb, &t.oc) {
        Ok(c) => c,
        Err(m) => {
            o.violation(
                format!(
                    "C19:compile:{}:{}{}:{}",
                    jt_name(t.jt),
                    cfg_class(&t.oc, s),
                    if t.masked { ":masked" } else { "" },
                    stable_msg(&m)
                ),
                format!(
                    "{} join (schema {}, owners {}, {}x{} rows) cannot be compiled: {}",
                    jt_name(t.jt),
                    s.id,
                    t.oc.name,
                    t.na,
                    t.nb,
                    m
                ),
                comp_case_json(t, &t.ta[0], &t.tb[0], "compile", 0, 0),
            );
            return o;
        }
    };
    o.count("compilations", 1);
    let dbg_t0 = std::time::Instant::now();
    o.count("compiled_nodes", c.plan.nodes.len() as u64);
    let mut ev = new_eval(1);
    let _ = ev.preprocess(&c.plain_ctx);
    let tabs_a: Vec<Table> = t.ta.iter().map(|r| materialize(s, false, r, t.masked)).collect();
    let tabs_b: Vec<Table> = t.tb.iter().map(|r| materialize(s, true, r, t.masked)).collect();
    let mut idx = 0u64;
    for (ia, a) in tabs_a.iter().enumerate() {
        for (ib, b) in tabs_b.iter().enumerate() {
            idx += 1;
            if idx % t.chunk.1 != t.chunk.0 {
                continue;
            }
            let (ra, rb) = (&t.ta[ia], &t.tb[ib]);
            let exp_t = ref_join(a, b, t.jt, &s.keys);
            let expected = exp_t.value();
            // plaintext evaluation of the very same graph agrees with the reference (the oracle of the compiled runs)
            let pc = c.plain_ctx.clone();
            let pin = plain_inputs(a, b, t.oc.split_a);
            match catch(|| ev.evaluate_context(pc, pin)) {
                Ok(Ok(v)) if v == expected => o.count("plaintext_agrees_with_reference", 1),
                other => {
                    let what = match other {
                        Ok(Ok(v)) => format!("gives {}", vals::show(&v, &c.out_t)),
                        Ok(Err(e)) => format!("fails: {}", crate::exec::first_line(&e.to_string())),
                        Err(p) => format!("panics: {}", p),
                    };
                    o.violation(
                        format!("C19:plain:{}:{}:graph-of-compiled-part", jt_name(t.jt), s.id),
                        format!("plaintext evaluation of the graph (a={} b={}) {} instead of {}", a.show(), b.show(), what, exp_t.show()),
                        comp_case_json(t, ra, rb, "plain", 0, 0),
                    );
                    continue;
                }
            }
            let nontrivial = n_live(ra) > 0 && n_live(rb) > 0;
            let runs: Vec<(&str, u8)> = if t.alternate_junk {
                let j = if idx % 2 == 1 { 0xffu8 } else { 0x00u8 };
                if matches!(t.jt, JoinType::Union | JoinType::Full) {
                    // the three-party run of these is a known finding: keep the protocol logic covered by the global run
                    vec![("global", 0u8), ("three", j), ("global-hash-collision", 0u8)]
                } else {
                    vec![("three", j), ("global-hash-collision", 0u8)]
                }
            } else {
                vec![("global", 0u8), ("three", 0x00u8), ("three", 0xffu8), ("global-hash-collision", 0u8)]
            };
            for (mode, junk) in runs {
                let case_seed = t.seed
                    ^ hash_str(&format!("{}|{}|{}|{}|{}|{}|{}", s.id, jt_name(t.jt), t.masked, t.oc.name, t.na, t.nb, idx));
                o.count("evaluations", 1);
                o.count(if mode.starts_with("global") { "compiled_global_runs" } else { "compiled_three_party_runs" }, 1);
                if mode == "global-hash-collision" {
                    o.count("compiled_runs_with_two_identical_hash_functions", 1);
                }
                if nontrivial {
                    o.distinct.push(hash_str(&format!(
                        "c|{}|{}|{}|{}|{:?}|{:?}|{}|{}",
                        s.id,
                        jt_name(t.jt),
                        t.masked,
                        t.oc.name,
                        ra,
                        rb,
                        mode,
                        junk
                    )));
                }
                match run_compiled_one(&c, &t.oc, a, b, &expected, mode, junk, case_seed) {
                    Verdict::Ok => {
                        o.count(if mode.starts_with("global") { "compiled_global_ok" } else { "compiled_three_party_ok" }, 1);
                        if exp_t.cols[exp_t.null_idx()].data.iter().any(|x| *x == 1) {
                            o.count("compiled_ok_with_nonempty_result", 1);
                        }
                    }
                    Verdict::AllowedAbort => o.count("allowed_cuckoo_aborts", 1),
                    Verdict::Bad(kind, msg) => {
                        let modename = if mode.starts_with("global") { "global" } else { "3party" };
                        // joins with column masks share one defect across owner classes (see known findings): no class
                        let mut sig = if t.masked {
                            format!("C19:compiled-{}:masked:{}", modename, jt_name(t.jt))
                        } else {
                            format!("C19:compiled-{}:{}:{}", modename, jt_name(t.jt), cfg_class(&t.oc, s))
                        };
                        if kind != "wrong-table" {
                            sig.push_str(&format!(":{}", kind));
                        }
                        o.violation(
                            sig,
                            format!(
                                "compiled {} join{} (schema {}, owners {}, output party {}, {} mode, junk {:#04x}) of a={} b={}: {}",
                                jt_name(t.jt),
                                if t.masked { " with column masks" } else { "" },
                                s.id,
                                t.oc.name,
                                t.oc.out,
                                mode,
                                junk,
                                a.show(),
                                b.show(),
                                msg
                            ),
                            comp_case_json(t, ra, rb, mode, junk, case_seed),
                        );
                    }
                }
            }
            if std::env::var("VERIF_C19_DEBUG").is_ok() && ia == tabs_a.len() - 1 && ib == tabs_b.len() - 1 {
                eprintln!(
                    "TIMING {} {} {}x{} nodes={} compile_s={:.2} pairs={} eval_s={:.2}",
                    jt_name(t.jt),
                    t.oc.name,
                    t.na,
                    t.nb,
                    c.plan.nodes.len(),
                    (dbg_t0 - dbg_tc).as_secs_f64(),
                    tabs_a.len() * tabs_b.len(),
                    dbg_t0.elapsed().as_secs_f64()
                );
            }
            if want_samples && ia == tabs_a.len() - 1 && ib == tabs_b.len() - 1 {
                o.samples.push(json!({"case": comp_case_json(t, ra, rb, "three", 255, 0),
                    "a": a.show(), "b": b.show(), "expected": exp_t.show()}));
            }
        }
    }
    o
}

// ---------------------------------------------------------------------------------------------
// self-test of the reference on the example every reader of the documentation would work out by hand
// ---------------------------------------------------------------------------------------------

fn reference_selftest() -> Result<(), String> {
    let s = schema_by_id("k1-diff");
    let live = |k: u8| RowD { kind: 2, key: k, kmask: 1, pmask: 1 };
    let nul = RowD { kind: 1, key: 0, kmask: 0, pmask: 0 };
    let a = materialize(&s, false, &[live(1), nul, live(2)], false);
    let b = materialize(&s, true, &[live(2), live(3)], false);
    // a: ids 1, -, 128 ; b: ids 128, 255
    let col = |t: &Table, name: &str| t.cols[t.col_idx(name)].data.clone();
    let pa = |i: usize| payload(&INT64, 1, false, i)[0];
    let pb = |i: usize| payload(&BIT, 3, true, i);
    let inner = ref_join(&a, &b, JoinType::Inner, &s.keys);
    let names: Vec<&str> = inner.cols.iter().map(|c| c.name.as_str()).collect();
    if names != vec![NULL_HEADER, "ida", "pa", "pb"] {
        return Err(format!("column order {:?}", names));
    }
    if col(&inner, NULL_HEADER) != vec![0, 0, 1] || col(&inner, "ida") != vec![0, 0, 128] || col(&inner, "pa") != vec![0, 0, pa(2)] {
        return Err("inner".into());
    }
    if col(&inner, "pb") != [vec![0, 0, 0], vec![0, 0, 0], pb(0)].concat() {
        return Err("inner pb".into());
    }
    let left = ref_join(&a, &b, JoinType::Left, &s.keys);
    if col(&left, NULL_HEADER) != vec![1, 0, 1] || col(&left, "ida") != vec![1, 0, 128] || col(&left, "pa") != vec![pa(0), 0, pa(2)] {
        return Err("left".into());
    }
    let union = ref_join(&a, &b, JoinType::Union, &s.keys);
    if col(&union, NULL_HEADER) != vec![1, 0, 0, 1, 1]
        || col(&union, "ida") != vec![1, 0, 0, 128, 255]
        || col(&union, "pa") != vec![pa(0), 0, 0, 0, 0]
        || col(&union, "pb") != [vec![0; 9], pb(0), pb(1)].concat()
    {
        return Err("union".into());
    }
    let full = ref_join(&a, &b, JoinType::Full, &s.keys);
    if col(&full, NULL_HEADER) != vec![1, 0, 0, 1, 1]
        || col(&full, "ida") != vec![1, 0, 0, 128, 255]
        || col(&full, "pa") != vec![pa(0), 0, 0, pa(2), 0]
        || col(&full, "pb") != [vec![0; 9], pb(0), pb(1)].concat()
    {
        return Err("full".into());
    }
    Ok(())
}

// ---------------------------------------------------------------------------------------------
// run
// ---------------------------------------------------------------------------------------------

const NULL_KINDS: [u8; 2] = [0, 1];

fn plain_tasks(thorough: bool) -> Vec<PlainTask> {
    let mut tasks = vec![];
    for masked in [false, true] {
        for s in schemas() {
            let nk = s.keys.len();
            // unmasked: 4 domain keys, 1..=3 rows; masked: 3 (two key columns) or 4 (one) domain keys, 1..=2 rows
            let (ndom, maxn) = if masked { (if nk == 2 { 3 } else { 4 }, 2) } else { (4, 3) };
            let alpha = alphabet(nk, ndom, masked, &NULL_KINDS);
            let tabs: Vec<Vec<Vec<RowD>>> = (0..=maxn).map(|n| if n == 0 { vec![] } else { tables(&alpha, n, nk) }).collect();
            for jt in JTS {
                for na in 1..=maxn {
                    for nb in 1..=maxn {
                        if !thorough {
                            // quick: at most 2 rows on one side (unmasked); masked: one side 1 row or both payload masks one
                            if !masked && na == 3 && nb == 3 {
                                continue;
                            }
                        }
                        let (mut ta, mut tb) = (tabs[na].clone(), tabs[nb].clone());
                        if !thorough && masked && na == 2 && nb == 2 {
                            ta.retain(|t| t.iter().all(|r| r.kind != 2 || r.pmask == 1));
                            tb.retain(|t| t.iter().all(|r| r.kind != 2 || r.pmask == 1));
                        }
                        tasks.push(PlainTask { schema: s.clone(), jt, masked, ta, tb });
                    }
                }
            }
        }
    }
    tasks
}

fn comp_tasks(thorough: bool, seed: u64) -> Vec<CompTask> {
    let mut tasks = vec![];
    let live = |key: u8, kmask: u8, pmask: u8| RowD { kind: 2, key, kmask, pmask };
    let nul = |kind: u8| RowD { kind, key: 0, kmask: 0, pmask: 0 };
    let all_sizes = vec![(1usize, 1usize), (1, 2), (2, 1), (2, 2)];
    let ocs = owner_cfgs();
    struct Variant {
        sid: &'static str,
        masked: bool,
        jts: Vec<JoinType>,
        /// row alphabet; alpha22 replaces it for 2x2 tables (cost)
        alpha: Vec<RowD>,
        alpha22: Option<Vec<RowD>>,
        cfgs: Vec<(OwnerCfg, Vec<(usize, usize)>)>,
        alternate_junk: bool,
    }
    let variants: Vec<Variant> = if thorough {
        vec![
            // A: two key columns (u8, i32[2]) with differing names, every owner configuration, every size
            Variant {
                sid: "k2-diff",
                masked: false,
                jts: JTS.to_vec(),
                alpha: vec![nul(0), nul(1), live(0, 3, 1), live(1, 3, 1)],
                alpha22: Some(vec![nul(1), live(0, 3, 1), live(1, 3, 1)]),
                cfgs: ocs.iter().map(|o| (o.clone(), all_sizes.clone())).collect(),
                alternate_junk: false,
            },
            // B: column masks, every key-mask pattern on key 0, a masked payload
            Variant {
                sid: "k2-diff",
                masked: true,
                jts: JTS.to_vec(),
                alpha: vec![nul(1), live(0, 3, 1), live(0, 2, 1), live(0, 1, 1), live(1, 3, 0)],
                alpha22: None,
                cfgs: [0usize, 3, 4].iter().map(|i| (ocs[*i].clone(), vec![(1, 1), (2, 1)])).collect(),
                alternate_junk: false,
            },
            // C: one u8 key column, equal names
            Variant {
                sid: "k1-eq",
                masked: false,
                jts: JTS.to_vec(),
                alpha: vec![nul(1), live(0, 1, 1), live(1, 1, 1)],
                alpha22: None,
                cfgs: [0usize, 2].iter().map(|i| (ocs[*i].clone(), vec![(2, 2)])).collect(),
                alternate_junk: false,
            },
            // E: key names differ and a data column of the first table is named and typed like the key of the second
            Variant {
                sid: "k1-cross-same",
                masked: false,
                jts: vec![JoinType::Inner, JoinType::Left, JoinType::Union],
                alpha: vec![nul(1), live(0, 1, 1), live(1, 1, 1)],
                alpha22: None,
                cfgs: [0usize, 2].iter().map(|i| (ocs[*i].clone(), vec![(2, 2), (1, 2)])).collect(),
                alternate_junk: false,
            },
            Variant {
                sid: "k1-cross-same",
                masked: true,
                jts: vec![JoinType::Inner, JoinType::Left, JoinType::Union],
                alpha: vec![nul(1), live(0, 1, 1), live(1, 1, 0)],
                alpha22: None,
                cfgs: vec![(ocs[0].clone(), vec![(2, 1)])],
                alternate_junk: false,
            },
            // F: identical table types, crossed key map
            Variant {
                sid: "k2-swap",
                masked: false,
                jts: JTS.to_vec(),
                alpha: vec![nul(1), live(0, 3, 1), live(1, 3, 1), live(2, 3, 1)],
                alpha22: None,
                cfgs: [0usize, 1].iter().map(|i| (ocs[*i].clone(), vec![(2, 2)])).collect(),
                alternate_junk: false,
            },
            // D: a two-bit key (rows of the padded cuckoo table collide with real keys with probability 1/4)
            Variant {
                sid: "kb-eq",
                masked: false,
                jts: vec![JoinType::Inner, JoinType::Left, JoinType::Union],
                alpha: vec![nul(1), live(0, 1, 1), live(1, 1, 1), live(2, 1, 1)],
                alpha22: None,
                cfgs: [0usize, 2].iter().map(|i| (ocs[*i].clone(), vec![(2, 2)])).collect(),
                alternate_junk: false,
            },
        ]
    } else {
        // quick: one table-size combination per owner configuration, junk pattern alternating with the pair index,
        // global run only where the three-party run is a known finding
        let sizes = [(2usize, 2usize), (1, 2), (2, 1), (2, 1), (1, 2), (2, 1)];
        vec![
            Variant {
                sid: "k2-diff",
                masked: false,
                jts: JTS.to_vec(),
                alpha: vec![nul(1), live(0, 3, 1), live(1, 3, 1)],
                alpha22: None,
                cfgs: ocs.iter().enumerate().map(|(i, o)| (o.clone(), vec![sizes[i]])).collect(),
                alternate_junk: true,
            },
            Variant {
                sid: "kb-eq",
                masked: false,
                jts: vec![JoinType::Inner],
                alpha: vec![nul(1), live(0, 1, 1), live(1, 1, 1)],
                alpha22: None,
                cfgs: vec![(ocs[0].clone(), vec![(2, 2)])],
                alternate_junk: true,
            },
            Variant {
                sid: "k1-cross-same",
                masked: false,
                jts: vec![JoinType::Inner, JoinType::Left, JoinType::Union],
                alpha: vec![nul(1), live(0, 1, 1), live(1, 1, 1)],
                alpha22: None,
                cfgs: vec![(ocs[0].clone(), vec![(2, 2)])],
                alternate_junk: true,
            },
            Variant {
                sid: "k2-swap",
                masked: false,
                jts: vec![JoinType::Inner, JoinType::Union],
                alpha: vec![nul(1), live(0, 3, 1), live(1, 3, 1)],
                alpha22: None,
                cfgs: vec![(ocs[0].clone(), vec![(2, 2)])],
                alternate_junk: true,
            },
        ]
    };
    let only_schema = std::env::var("VERIF_C19_SCHEMA").unwrap_or_default(); // development knob
    for v in variants {
        if !only_schema.is_empty() && only_schema != v.sid {
            continue;
        }
        if std::env::var("VERIF_C19_MASKED").is_ok() && !v.masked {
            continue;
        }
        let s = schema_by_id(v.sid);
        let nk = s.keys.len();
        let tabs: Vec<Vec<Vec<RowD>>> = (0..=2).map(|n| if n == 0 { vec![] } else { tables(&v.alpha, n, nk) }).collect();
        let tabs22: Vec<Vec<RowD>> = match &v.alpha22 {
            Some(al) => tables(al, 2, nk),
            None => tabs[2].clone(),
        };
        for jt in v.jts.iter() {
            for (oc, sizes) in v.cfgs.iter() {
                for (na, nb) in sizes.iter() {
                    let (ta, tb) = if (*na, *nb) == (2, 2) {
                        (tabs22.clone(), tabs22.clone())
                    } else {
                        (tabs[*na].clone(), tabs[*nb].clone())
                    };
                    let pairs = (ta.len() * tb.len()) as u64;
                    let nchunks = (pairs + 24) / 25;
                    for ci in 0..nchunks {
                        tasks.push(CompTask {
                            schema: s.clone(),
                            jt: *jt,
                            masked: v.masked,
                            na: *na,
                            nb: *nb,
                            oc: oc.clone(),
                            ta: ta.clone(),
                            tb: tb.clone(),
                            seed,
                            alternate_junk: v.alternate_junk,
                            chunk: (ci, nchunks),
                        });
                    }
                }
            }
        }
    }
    tasks
}

pub fn run(r: &Report) -> i32 {
    if let Err(m) = reference_selftest() {
        println!("MACHINERY-ERROR property=C19 reference join fails its hand-worked example: {}", m);
        return 2;
    }
    // tables without rows cannot be expressed (array dimensions must be positive): recorded, not assumed
    let zero_rows_rejected = match catch(|| {
        let c = create_context().unwrap();
        let g = c.create_graph().unwrap();
        g.input(named_tuple_type(vec![
            (NULL_HEADER.to_string(), array_type(vec![0], BIT)),
            ("id".to_string(), array_type(vec![0], UINT8)),
        ]))
        .is_err()
    }) {
        Ok(b) => b,
        Err(_) => true,
    };
    r.extra("zero_row_tables_rejected_by_builder", json!(zero_rows_rejected));
    let thorough = r.tier.thorough();

    // part 1
    let only = std::env::var("VERIF_C19_PART").unwrap_or_default(); // development knob: "plain" | "compiled"
    let ptasks = if only == "compiled" { vec![] } else { plain_tasks(thorough) };
    let outs: Vec<Out> = ptasks
        .par_iter()
        .enumerate()
        .map(|(i, t)| run_plain_task(t, i % 97 == 5))
        .collect();
    merge(r, outs);
    r.extra("plain_wall_s", json!((r.elapsed() * 10.0).round() / 10.0));

    // part 2 (largest tasks first in the pool, results merged in enumeration order)
    let ctasks = if only == "plain" { vec![] } else { comp_tasks(thorough, r.seed) };
    let mut order: Vec<usize> = (0..ctasks.len()).collect();
    order.sort_by_key(|i| {
        let t = &ctasks[*i];
        std::cmp::Reverse((t.ta.len() * t.tb.len()) as u64 / t.chunk.1 * if t.jt == JoinType::Full { 2 } else { 1 })
    });
    let mut res: Vec<(usize, Out)> = order
        .par_iter()
        .map(|i| (*i, run_comp_task(&ctasks[*i], *i % 41 == 7)))
        .collect();
    res.sort_by_key(|x| x.0);
    merge(r, res.into_iter().map(|x| x.1).collect());

    let mut nonvac: Vec<&str> = vec![
        "evaluations",
        "plain_unmasked_evaluations",
        "plain_masked_evaluations",
        "cases_with_matching_rows",
        "cases_with_masked_key_entry",
        "result_types_checked",
        "compilations",
        "compiled_three_party_ok",
        "compiled_ok_with_nonempty_result",
    ];
    nonvac.push("compiled_global_ok");
    r.count(
        "join_hash_matrices_scripted_with_two_identical_functions",
        super::c01::HASH_COLLIDE_HITS.load(std::sync::atomic::Ordering::Relaxed),
    );
    nonvac.push("join_hash_matrices_scripted_with_two_identical_functions");
    r.finish(
        "exploration",
        "plaintext: per schema (6: one/two key columns of u8, i32[2], bit[2]; equal/differing/crossed header names; null column first or last) \
         x join type (4): all pairs of tables with 1..=3 rows (quick: not 3x3), row in {null+zero data, null+junk data, live with one of 4 keys}, \
         live keys unique; masked variant: 1..=2 rows, every key-mask pattern x payload mask (quick: 2x2 tables with payload mask one); \
         compiled (one compilation per join type x owner configuration x table sizes, then all table pairs over a reduced row alphabet): \
         thorough A: schema k2-diff, 6 owner configurations, sizes {1,2}^2, rows {null0,nullJ,k0,k1} (2x2: without null0); B: masked, 3 owner \
         configurations, sizes 1x1 and 2x1, every key-mask pattern; C: u8 key, 2 owner configurations, 2x2; D: 2-bit key, 2 owner configurations, 2x2; \
         E: schema k1-cross-same (a data column of the first table named and typed like the key of the second), Inner/Left/Union, plain and masked; F: schema k2-swap (two tables of one type, crossed key map); \
         each pair in global mode, three-party mode with junk zeros and junk ones, and global mode with the hash matrices scripted so that two of the three \
         Cuckoo/simple hash functions are identical (every matched row is then found in two switched tables). quick: k2-diff with one size per owner configuration and \
         the 2-bit key 2x2 (Inner), three-party with junk alternating by pair index, global for Union/Full. \
         distinct = cases where both tables have a live row",
        true,
        &[
            "tables have at least one row (the builder rejects zero-sized arrays); an empty table is a table of null rows",
            "entries whose column mask is zero are expected as mask 0 / data 0 in the result ('filled with zeros where no data can be retrieved')",
            "compiled part uses InlineMode::Simple; shares of Shared inputs and PRNG seeds are derived from the seed, not enumerated",
            "three-party semantics of the harness executor: values cross parties only at Send-annotated nodes",
        ],
        &nonvac,
    )
}

// ---------------------------------------------------------------------------------------------
// replay
// ---------------------------------------------------------------------------------------------

pub fn replay(_r: &Report, rec: &J) -> i32 {
    let case = &rec["case"];
    let s = schema_by_id(case["schema"].as_str().unwrap_or(""));
    let jt = jt_of(case["join"].as_str().unwrap_or(""));
    let masked = case["masked"].as_bool().unwrap_or(false);
    let ra = rowd_parse(&case["a"]);
    let rb = rowd_parse(&case["b"]);
    let a = materialize(&s, false, &ra, masked);
    let b = materialize(&s, true, &rb, masked);
    let expected = ref_join(&a, &b, jt, &s.keys);
    println!("join={} schema={} masked={}", jt_name(jt), s.id, masked);
    println!("a        = {}", a.show());
    println!("b        = {}", b.show());
    println!("expected = {}", expected.show());
    match case["part"].as_str().unwrap_or("") {
        "plain" => {
            let ctx = match build_ctx(&a.ty(), &b.ty(), &s, jt, masked, false) {
                Ok(c) => c,
                Err(m) => {
                    println!("observed: graph cannot be built: {}", m);
                    return 1;
                }
            };
            let out_t = mpcx::output_type(&ctx);
            if out_t != expected.ty() {
                println!("observed: result type {} instead of {}", out_t, expected.ty());
                return 1;
            }
            let mut ev = new_eval(1);
            if let Err(e) = ev.preprocess(&ctx) {
                println!("observed: preprocess fails: {}", e);
                return 1;
            }
            match check_plain_one(&mut ev, &ctx, &a, &b, &expected, &out_t) {
                Ok(()) => {
                    println!("observed: equal to expected - does not reproduce");
                    0
                }
                Err((_, m)) => {
                    println!("observed: {}", m);
                    1
                }
            }
        }
        "compiled" => {
            let oc = owner_cfgs().into_iter().find(|o| Some(o.name) == case["owners"].as_str()).expect("owner cfg");
            let c = match compile_for(&s, jt, masked, ra.len(), rb.len(), &oc) {
                Ok(c) => c,
                Err(m) => {
                    println!("observed: compilation fails: {}", m);
                    return 1;
                }
            };
            let mode = case["mode"].as_str().unwrap_or("three");
            if mode == "compile" {
                println!("observed: compiles now - does not reproduce");
                return 0;
            }
            if mode == "plain" {
                let mut ev = new_eval(1);
                let _ = ev.preprocess(&c.plain_ctx);
                let pc = c.plain_ctx.clone();
                let pin = plain_inputs(&a, &b, oc.split_a);
                return match catch(|| ev.evaluate_context(pc, pin)) {
                    Ok(Ok(v)) if v == expected.value() => {
                        println!("observed: equal to expected - does not reproduce");
                        0
                    }
                    Ok(Ok(v)) => {
                        println!("observed: {}", vals::show(&v, &c.out_t));
                        1
                    }
                    other => {
                        println!("observed: {:?}", other.map(|x| x.map(|_| ()).map_err(|e| e.to_string())));
                        1
                    }
                };
            }
            let junk = case["junk"].as_u64().unwrap_or(0) as u8;
            let case_seed: u64 = case["case_seed"].as_str().and_then(|x| x.parse().ok()).unwrap_or(0);
            println!("owners={} output party={} mode={} junk={:#04x}", oc.name, oc.out, mode, junk);
            match run_compiled_one(&c, &oc, &a, &b, &expected.value(), mode, junk, case_seed) {
                Verdict::Ok => {
                    println!("observed: equal to expected - does not reproduce");
                    0
                }
                Verdict::AllowedAbort => {
                    println!("observed: cuckoo hashing failure (allowed abort) - does not reproduce");
                    0
                }
                Verdict::Bad(_, m) => {
                    println!("observed: {}", m);
                    1
                }
            }
        }
        other => {
            println!("MACHINERY-ERROR property=C19 unknown part '{}' in replay record", other);
            2
        }
    }
}
