//! C09 alphabets: types, operation parameters and the per-operation case spaces.
use ciphercore_base::data_types::{
    array_type, named_tuple_type, scalar_type, tuple_type, vector_type, ScalarType, Type, BIT, INT128, INT32,
    UINT32, UINT64, UINT8,
};
use ciphercore_base::data_values::Value;
use ciphercore_base::graphs::{JoinType, Operation, ShardConfig, SliceElement};
use ciphercore_base::type_inference::NULL_HEADER;
use std::collections::HashMap;
use std::sync::Arc;

use super::{Arg, Program, Step};

#[derive(Clone, Copy, PartialEq, Eq, Debug)]
pub enum Level {
    Quick,
    Thorough,
    /// reduced alphabets used for both halves of two-operation compositions
    Compose,
}

pub const STS5: [ScalarType; 5] = [BIT, UINT8, INT32, UINT64, INT128];

fn s(x: &str) -> String {
    x.to_string()
}

/// all shapes of rank 1..=max_rank with dims in {1,2,3}, by rank then lexicographic
pub fn shapes(max_rank: usize) -> Vec<Vec<u64>> {
    let mut out = vec![];
    for rank in 1..=max_rank {
        let n = 3usize.pow(rank as u32);
        for k in 0..n {
            let mut sh = vec![];
            let mut x = k;
            for _ in 0..rank {
                sh.push((x % 3) as u64 + 1);
                x /= 3;
            }
            sh.reverse();
            out.push(sh);
        }
    }
    out
}

pub fn table(n: u64, masked: bool, cols: &[(&str, Vec<u64>, ScalarType)], null_pos: Option<usize>) -> Type {
    // cols: (name, trailing dims, st); null column inserted at null_pos
    let mut v = vec![];
    for (i, (name, trail, st)) in cols.iter().enumerate() {
        if null_pos == Some(i) {
            v.push((s(NULL_HEADER), array_type(vec![n], BIT)));
        }
        let mut sh = vec![n];
        sh.extend_from_slice(trail);
        let data = array_type(sh, *st);
        if masked {
            v.push((s(name), tuple_type(vec![array_type(vec![n], BIT), data])));
        } else {
            v.push((s(name), data));
        }
    }
    if let Some(p) = null_pos {
        if p >= cols.len() {
            v.push((s(NULL_HEADER), array_type(vec![n], BIT)));
        }
    }
    named_tuple_type(v)
}

/// tables: named tuples of columns with equal first dimension
pub fn tables(level: Level) -> Vec<Type> {
    let mut out = vec![];
    let ns: Vec<u64> = if level == Level::Compose { vec![2] } else { vec![1, 2, 3] };
    for masked in [false, true] {
        for &n in &ns {
            out.push(table(n, masked, &[("a", vec![], UINT8)], Some(0)));
            if level != Level::Compose || !masked {
                out.push(table(n, masked, &[("a", vec![], UINT8), ("b", vec![2], INT32)], Some(0)));
            }
        }
        if level == Level::Compose {
            continue;
        }
        let n = 2;
        out.push(table(n, masked, &[("a", vec![], UINT8), ("c", vec![], UINT64)], Some(1)));
        out.push(table(n, masked, &[("b", vec![], UINT8)], Some(0)));
        // two columns of one type under both orders: with the header maps a->b, b->b, a->a these give every
        // "a column name of one table is a key / a data column of the other table" combination
        out.push(table(n, masked, &[("a", vec![], UINT8), ("b", vec![], UINT8)], Some(0)));
        out.push(table(n, masked, &[("b", vec![], UINT8), ("a", vec![], UINT8)], Some(0)));
        out.push(table(n, masked, &[("b", vec![2], INT32), ("c", vec![1], BIT)], Some(2)));
        out.push(table(n, masked, &[("k", vec![2], BIT), ("a", vec![], UINT8)], Some(0)));
        out.push(table(3, masked, &[("k", vec![1], BIT), ("b", vec![2, 2], INT128)], Some(0)));
        // no null column
        out.push(table(n, masked, &[("a", vec![], UINT8)], None));
        out.push(table(n, masked, &[("k", vec![3], BIT), ("a", vec![2], INT32)], None));
        // only the null column
        out.push(table(n, masked, &[], Some(0)));
    }
    if level != Level::Compose {
        // malformed tables
        out.push(named_tuple_type(vec![(s(NULL_HEADER), array_type(vec![2, 1], BIT)), (s("a"), array_type(vec![2], UINT8))]));
        out.push(named_tuple_type(vec![(s(NULL_HEADER), array_type(vec![2], UINT8)), (s("a"), array_type(vec![2], UINT8))]));
        out.push(named_tuple_type(vec![(s(NULL_HEADER), array_type(vec![2], BIT)), (s("a"), array_type(vec![3], UINT8))]));
        out.push(named_tuple_type(vec![(s(NULL_HEADER), array_type(vec![2], BIT)), (s("a"), scalar_type(UINT8))]));
        out.push(named_tuple_type(vec![(s(NULL_HEADER), scalar_type(BIT)), (s("a"), array_type(vec![2], UINT8))]));
        out.push(named_tuple_type(vec![
            (s(NULL_HEADER), array_type(vec![2], BIT)),
            (s("a"), tuple_type(vec![array_type(vec![3], BIT), array_type(vec![2], UINT8)])),
        ]));
        out.push(named_tuple_type(vec![
            (s(NULL_HEADER), array_type(vec![2], BIT)),
            (s("a"), tuple_type(vec![array_type(vec![2], UINT8), array_type(vec![2], UINT8)])),
        ]));
        out.push(named_tuple_type(vec![]));
    }
    out
}

pub fn compounds(level: Level) -> Vec<Type> {
    let u8s = scalar_type(UINT8);
    let bits = scalar_type(BIT);
    let mut out = vec![
        tuple_type(vec![u8s.clone(), array_type(vec![2], INT32)]),
        named_tuple_type(vec![(s("a"), array_type(vec![2], INT32)), (s("b"), array_type(vec![2, 2], BIT))]),
        vector_type(0, u8s.clone()),
        vector_type(2, u8s.clone()),
        vector_type(3, array_type(vec![2], UINT64)),
    ];
    if level != Level::Compose {
        out.extend(vec![
            tuple_type(vec![]),
            tuple_type(vec![bits.clone()]),
            named_tuple_type(vec![(s("a"), u8s.clone())]),
            vector_type(1, bits.clone()),
            vector_type(2, array_type(vec![2, 1], INT32)),
            tuple_type(vec![tuple_type(vec![u8s.clone()]), array_type(vec![1, 2], UINT64)]),
            named_tuple_type(vec![(s("b"), vector_type(2, bits.clone())), (s("zz"), tuple_type(vec![]))]),
            vector_type(0, array_type(vec![2], INT32)),
            vector_type(0, tuple_type(vec![])),
            vector_type(2, tuple_type(vec![u8s.clone(), bits.clone()])),
            vector_type(2, vector_type(1, u8s.clone())),
            vector_type(3, scalar_type(INT128)),
            vector_type(2, array_type(vec![3], BIT)),
            vector_type(1, vector_type(0, u8s.clone())),
        ]);
    }
    out
}

/// types some operations need to be accepted at all
pub fn specials(level: Level) -> Vec<Type> {
    let mut out = vec![
        array_type(vec![8], BIT),
        array_type(vec![128], BIT),
        array_type(vec![2, 8], BIT),
        scalar_type(UINT32),
    ];
    if level != Level::Compose {
        out.extend(vec![
            array_type(vec![32], BIT),
            array_type(vec![2], UINT32),
            array_type(vec![64], BIT),
            array_type(vec![1, 32], BIT),
            array_type(vec![3, 64], BIT),
            array_type(vec![2, 128], BIT),
            array_type(vec![1, 2, 8], BIT),
            array_type(vec![4, 2, 2], BIT),
            array_type(vec![4], UINT64),
            array_type(vec![5], UINT64),
            array_type(vec![2, 5], UINT64),
            array_type(vec![3], UINT32),
        ]);
    }
    out
}

/// The general type alphabet, simplest first.
pub fn full(level: Level) -> Vec<Type> {
    let mut out = vec![];
    match level {
        Level::Compose => {
            for st in [BIT, UINT8, INT32, UINT64] {
                out.push(scalar_type(st));
            }
            for sh in [vec![1u64], vec![2], vec![3], vec![1, 2], vec![2, 2], vec![2, 3], vec![3, 1, 2], vec![2, 2, 2]] {
                for st in [BIT, UINT8, INT32, UINT64] {
                    out.push(array_type(sh.clone(), st));
                }
            }
        }
        _ => {
            for st in STS5 {
                out.push(scalar_type(st));
            }
            for sh in shapes(3) {
                for st in STS5 {
                    if level == Level::Quick && sh.len() == 3 && !(st == BIT || st == INT32 || st == UINT64) {
                        continue;
                    }
                    out.push(array_type(sh.clone(), st));
                }
            }
        }
    }
    out.extend(specials(level));
    out.extend(compounds(level));
    let tb = tables(level);
    // a few tables belong to the general alphabet (the table operations get all of them)
    for (i, t) in tb.iter().enumerate() {
        if (level == Level::Compose && i != 1) || (level != Level::Compose && i < 4) || (level != Level::Compose && i >= tb.len() / 2 && i < tb.len() / 2 + 2) {
            out.push(t.clone());
        }
    }
    out
}

/// small alphabet for variadic operations and for "the other argument" in compositions
pub fn reduced(level: Level) -> Vec<Type> {
    let mut out = vec![
        scalar_type(UINT8),
        scalar_type(BIT),
        array_type(vec![2], UINT8),
        array_type(vec![2], BIT),
        array_type(vec![1, 2], UINT8),
        array_type(vec![2, 2], UINT8),
        vector_type(2, scalar_type(UINT8)),
        vector_type(0, scalar_type(UINT8)),
    ];
    if level != Level::Compose {
        out.extend(vec![
            scalar_type(INT32),
            array_type(vec![2], INT32),
            array_type(vec![3], INT32),
            array_type(vec![2, 1], INT32),
            array_type(vec![3, 2], BIT),
            array_type(vec![1], UINT8),
            tuple_type(vec![scalar_type(UINT8)]),
            vector_type(2, array_type(vec![2], INT32)),
            vector_type(3, scalar_type(BIT)),
        ]);
    }
    out
}

pub fn invalid_types() -> Vec<Type> {
    vec![
        array_type(vec![], UINT8),
        array_type(vec![0], UINT8),
        array_type(vec![2, 0], BIT),
        array_type(vec![1 << 32, 1 << 32], BIT),
        named_tuple_type(vec![(s("a"), scalar_type(BIT)), (s("a"), scalar_type(UINT8))]),
        vector_type(2, array_type(vec![0], UINT8)),
        tuple_type(vec![array_type(vec![], INT32)]),
    ]
}

/// all sequences of distinct axes from {0,1,2} (subsets in every order), plus two malformed ones
pub fn axes_lists() -> Vec<Vec<u64>> {
    let mut out: Vec<Vec<u64>> = vec![vec![]];
    for a in 0..3u64 {
        out.push(vec![a]);
    }
    for a in 0..3u64 {
        for b in 0..3u64 {
            if a != b {
                out.push(vec![a, b]);
            }
        }
    }
    for a in 0..3u64 {
        for b in 0..3u64 {
            for c in 0..3u64 {
                if a != b && b != c && a != c {
                    out.push(vec![a, b, c]);
                }
            }
        }
    }
    out.push(vec![0, 0]);
    out.push(vec![3]);
    out
}

pub fn index_lists() -> Vec<Vec<u64>> {
    let mut out: Vec<Vec<u64>> = vec![vec![]];
    for len in 1..=3usize {
        let n = 3usize.pow(len as u32);
        for k in 0..n {
            let mut v = vec![];
            let mut x = k;
            for _ in 0..len {
                v.push((x % 3) as u64);
                x /= 3;
            }
            v.reverse();
            out.push(v);
        }
    }
    out.push(vec![3]);
    out.push(vec![0, 0, 0, 0]);
    out
}

pub fn slice_elements_full() -> Vec<SliceElement> {
    let mut out = vec![
        SliceElement::SingleIndex(0),
        SliceElement::SingleIndex(-1),
        SliceElement::SingleIndex(2),
        SliceElement::Ellipsis,
    ];
    for b in [None, Some(0), Some(1), Some(-1)] {
        for e in [None, Some(2), Some(-1)] {
            for st in [None, Some(1), Some(2), Some(-1), Some(-2)] {
                out.push(SliceElement::SubArray(b, e, st));
            }
        }
    }
    out
}

pub fn slice_elements_small() -> Vec<SliceElement> {
    vec![
        SliceElement::SingleIndex(0),
        SliceElement::SingleIndex(-1),
        SliceElement::SingleIndex(2),
        SliceElement::Ellipsis,
        SliceElement::SubArray(None, None, None),
        SliceElement::SubArray(Some(1), None, None),
        SliceElement::SubArray(None, Some(2), None),
        SliceElement::SubArray(None, None, Some(-1)),
        SliceElement::SubArray(Some(-1), None, Some(-2)),
        SliceElement::SubArray(Some(0), Some(-1), Some(2)),
        SliceElement::SubArray(None, Some(-1), Some(-1)),
        SliceElement::SubArray(Some(1), Some(-1), Some(1)),
    ]
}

fn slices_up_to(elems: &[SliceElement], max_len: usize) -> Vec<Vec<SliceElement>> {
    let mut out: Vec<Vec<SliceElement>> = vec![vec![]];
    let mut prev: Vec<Vec<SliceElement>> = vec![vec![]];
    for _ in 0..max_len {
        let mut next = vec![];
        for p in &prev {
            for e in elems {
                let mut q = p.clone();
                q.push(e.clone());
                next.push(q);
            }
        }
        out.extend(next.iter().cloned());
        prev = next;
    }
    out
}

pub fn header_maps() -> Vec<HashMap<String, String>> {
    let mk = |v: &[(&str, &str)]| -> HashMap<String, String> { v.iter().map(|(a, b)| (s(a), s(b))).collect() };
    vec![
        mk(&[("a", "a")]),
        mk(&[("a", "b")]),
        mk(&[("b", "b")]),
        mk(&[("a", "a"), ("b", "b")]),
        mk(&[("k", "k")]),
        mk(&[("a", "c")]),
        mk(&[]),
        mk(&[(NULL_HEADER, NULL_HEADER)]),
        mk(&[("a", "zz")]),
    ]
}

pub fn shard_configs() -> Vec<ShardConfig> {
    let mut out = vec![];
    for headers in [vec!["a"], vec!["a", "b"], vec![], vec!["a", "a"], vec!["zz"], vec![NULL_HEADER]] {
        for num_shards in [1u64, 2] {
            for shard_size in [1u64, 2, 3] {
                out.push(ShardConfig {
                    num_shards,
                    shard_size,
                    shard_headers: headers.iter().map(|h| s(h)).collect(),
                });
            }
        }
    }
    out.push(ShardConfig { num_shards: 0, shard_size: 2, shard_headers: vec![s("a")] });
    out.push(ShardConfig { num_shards: 2, shard_size: 0, shard_headers: vec![s("a")] });
    out
}

/// How the argument tuples of an operation are enumerated.
#[derive(Clone)]
pub enum ArgSpace {
    /// one alphabet per position, full product (last position fastest)
    Fixed(Vec<Arc<Vec<Type>>>),
    /// every arity in min..=max over one alphabet
    Variadic { min: usize, max: usize, alpha: Arc<Vec<Type>> },
}

impl ArgSpace {
    pub fn size(&self) -> u64 {
        match self {
            ArgSpace::Fixed(v) => v.iter().map(|a| a.len() as u64).product(),
            ArgSpace::Variadic { min, max, alpha } => {
                (*min..=*max).map(|a| (alpha.len() as u64).pow(a as u32)).sum()
            }
        }
    }
    pub fn get(&self, mut idx: u64) -> Vec<Type> {
        match self {
            ArgSpace::Fixed(v) => {
                let mut out = vec![None; v.len()];
                for p in (0..v.len()).rev() {
                    let n = v[p].len() as u64;
                    out[p] = Some(v[p][(idx % n) as usize].clone());
                    idx /= n;
                }
                out.into_iter().map(|x| x.unwrap()).collect()
            }
            ArgSpace::Variadic { min, max, alpha } => {
                let n = alpha.len() as u64;
                for a in *min..=*max {
                    let cnt = n.pow(a as u32);
                    if idx < cnt {
                        let mut out = vec![None; a];
                        for p in (0..a).rev() {
                            out[p] = Some(alpha[(idx % n) as usize].clone());
                            idx /= n;
                        }
                        return out.into_iter().map(|x| x.unwrap()).collect();
                    }
                    idx -= cnt;
                }
                panic!("ArgSpace index out of range");
            }
        }
    }
}

/// sub-graph of a Call / Iterate step
#[derive(Clone)]
pub struct OpSpace {
    pub name: &'static str,
    pub params: Vec<(Operation, Option<Program>)>,
    pub args: ArgSpace,
}

impl OpSpace {
    pub fn size(&self) -> u64 {
        self.params.len() as u64 * self.args.size()
    }
    /// case idx -> single-step program (arguments slowest, parameters fastest)
    pub fn program(&self, idx: u64) -> Program {
        let np = self.params.len() as u64;
        let (op, sub) = self.params[(idx % np) as usize].clone();
        let tys = self.args.get(idx / np);
        let args = (0..tys.len()).map(Arg::In).collect();
        Program { inputs: tys, steps: vec![Step { op, args, sub: sub.map(Box::new) }], out: None }
    }
}

fn plain(ops: Vec<Operation>) -> Vec<(Operation, Option<Program>)> {
    ops.into_iter().map(|o| (o, None)).collect()
}

pub fn step(op: Operation, args: Vec<Arg>) -> Step {
    Step { op, args, sub: None }
}

fn call_subs() -> Vec<Program> {
    let i32a = array_type(vec![2], INT32);
    vec![
        Program { inputs: vec![scalar_type(UINT8)], steps: vec![step(Operation::NOP, vec![Arg::In(0)])], out: None },
        Program { inputs: vec![i32a.clone(), i32a.clone()], steps: vec![step(Operation::Add, vec![Arg::In(0), Arg::In(1)])], out: None },
        Program { inputs: vec![], steps: vec![step(Operation::Ones(array_type(vec![3], BIT)), vec![])], out: None },
        Program {
            inputs: vec![vector_type(2, scalar_type(UINT8))],
            steps: vec![step(Operation::VectorToArray, vec![Arg::In(0)]), step(Operation::Sum(vec![0]), vec![Arg::Step(0)])],
            out: None,
        },
    ]
}

fn iterate_subs() -> Vec<Program> {
    let u8s = scalar_type(UINT8);
    let i32a = array_type(vec![2], INT32);
    vec![
        // state u8, x u8 -> (state + x, state)
        Program {
            inputs: vec![u8s.clone(), u8s.clone()],
            steps: vec![
                step(Operation::Add, vec![Arg::In(0), Arg::In(1)]),
                step(Operation::CreateTuple, vec![Arg::Step(0), Arg::In(0)]),
            ],
            out: None,
        },
        // state i32[2], x u8 -> (state * state, a2b(x))
        Program {
            inputs: vec![i32a.clone(), u8s.clone()],
            steps: vec![
                step(Operation::Multiply, vec![Arg::In(0), Arg::In(0)]),
                step(Operation::A2B, vec![Arg::In(1)]),
                step(Operation::CreateTuple, vec![Arg::Step(0), Arg::Step(1)]),
            ],
            out: None,
        },
        // output is not a tuple
        Program { inputs: vec![u8s.clone(), u8s.clone()], steps: vec![step(Operation::Add, vec![Arg::In(0), Arg::In(1)])], out: None },
        // state type changes
        Program {
            inputs: vec![u8s.clone(), u8s.clone()],
            steps: vec![step(Operation::A2B, vec![Arg::In(0)]), step(Operation::CreateTuple, vec![Arg::Step(0), Arg::In(1)])],
            out: None,
        },
        // one input only
        Program { inputs: vec![u8s.clone()], steps: vec![step(Operation::CreateTuple, vec![Arg::In(0), Arg::In(0)])], out: None },
    ]
}

fn my_zero(t: &Type) -> Value {
    crate::vals::pattern_value(t, &mut || 0u8)
}

/// All operation spaces for a level, in a fixed order (simple operations first).
pub fn op_spaces(level: Level) -> Vec<OpSpace> {
    let full_v = full(level);
    let fa = Arc::new(full_v.clone());
    let red_v = reduced(level);
    let ra = Arc::new(red_v.clone());
    let compose = level == Level::Compose;
    let thorough = level == Level::Thorough;
    let mut out: Vec<OpSpace> = vec![];
    let unary = || ArgSpace::Fixed(vec![fa.clone()]);
    let binary = || ArgSpace::Fixed(vec![fa.clone(), fa.clone()]);
    let nullary = || ArgSpace::Fixed(vec![]);
    let vmax = if compose { 2 } else { 3 };

    // types as parameters
    let mut type_params = full_v.clone();
    if !compose {
        type_params.extend(invalid_types());
    }
    let tp_small: Vec<Type> = if compose { red_v.clone() } else { type_params.clone() };

    out.push(OpSpace { name: "Input", params: plain(tp_small.iter().map(|t| Operation::Input(t.clone())).collect()), args: nullary() });
    out.push(OpSpace { name: "Zeros", params: plain(tp_small.iter().map(|t| Operation::Zeros(t.clone())).collect()), args: nullary() });
    out.push(OpSpace { name: "Ones", params: plain(tp_small.iter().map(|t| Operation::Ones(t.clone())).collect()), args: nullary() });
    {
        // Constant(t, v): v fits t, or is the zero value of the next type of the alphabet
        let mut ps = vec![];
        for (i, t) in tp_small.iter().enumerate() {
            if !t.is_valid() {
                ps.push(Operation::Constant(t.clone(), Value::from_bytes(vec![0])));
                continue;
            }
            ps.push(Operation::Constant(t.clone(), my_zero(t)));
            ps.push(Operation::Constant(t.clone(), crate::vals::pattern_value(t, &mut || 0xA5u8)));
            if !compose {
                let other = &full_v[(i + 1) % full_v.len()];
                ps.push(Operation::Constant(t.clone(), my_zero(other)));
            }
        }
        out.push(OpSpace { name: "Constant", params: plain(ps), args: nullary() });
    }
    for (name, op) in [
        ("Add", Operation::Add),
        ("Subtract", Operation::Subtract),
        ("Multiply", Operation::Multiply),
        ("MixedMultiply", Operation::MixedMultiply),
        ("Dot", Operation::Dot),
        ("Matmul", Operation::Matmul),
    ] {
        out.push(OpSpace { name, params: plain(vec![op]), args: binary() });
    }
    out.push(OpSpace {
        name: "Gemm",
        params: plain(vec![
            Operation::Gemm(false, false),
            Operation::Gemm(false, true),
            Operation::Gemm(true, false),
            Operation::Gemm(true, true),
        ]),
        args: binary(),
    });
    {
        let scales: Vec<u128> = if compose {
            vec![1, 2, 1 << 31]
        } else {
            vec![0, 1, 2, 3, 1 << 7, 1 << 8, 1 << 31, 1 << 63, 1 << 64, 1 << 127, (1 << 127) + 1, u128::MAX]
        };
        out.push(OpSpace { name: "Truncate", params: plain(scales.into_iter().map(Operation::Truncate).collect()), args: unary() });
    }
    out.push(OpSpace { name: "Sum", params: plain(axes_lists().into_iter().map(Operation::Sum).collect()), args: unary() });
    out.push(OpSpace { name: "CumSum", params: plain((0..4u64).map(Operation::CumSum).collect()), args: unary() });
    out.push(OpSpace { name: "PermuteAxes", params: plain(axes_lists().into_iter().map(Operation::PermuteAxes).collect()), args: unary() });
    out.push(OpSpace { name: "Get", params: plain(index_lists().into_iter().map(Operation::Get).collect()), args: unary() });
    {
        // slices: full element alphabet up to length 2 (1 in compositions), reduced element alphabet for length 3
        // (full alphabet for length 3 in the thorough tier, over the arrays of rank 3 only)
        let arrays: Vec<Type> = full_v.iter().filter(|t| t.is_array()).cloned().collect();
        let non_arrays: Vec<Type> = full_v.iter().filter(|t| !t.is_array()).take(8).cloned().collect();
        let mut a12 = arrays.clone();
        a12.extend(non_arrays);
        let mut ps = slices_up_to(&slice_elements_full(), if compose { 1 } else { 2 });
        ps.push(vec![SliceElement::SubArray(None, None, Some(0))]);
        ps.push(vec![SliceElement::Ellipsis, SliceElement::Ellipsis]);
        if compose {
            ps = slices_up_to(&slice_elements_small(), 1);
        }
        out.push(OpSpace {
            name: "GetSlice",
            params: plain(ps.into_iter().map(Operation::GetSlice).collect()),
            args: ArgSpace::Fixed(vec![Arc::new(a12)]),
        });
        if !compose {
            let elems = if thorough { slice_elements_full() } else { slice_elements_small() };
            let ps3: Vec<Vec<SliceElement>> =
                slices_up_to(&elems, 3).into_iter().filter(|sl| sl.len() == 3).collect();
            let a3: Vec<Type> = arrays
                .iter()
                .filter(|t| {
                    let sh = t.get_shape();
                    let st = t.get_scalar_type();
                    sh.len() == 3 && sh.iter().all(|d| *d <= 3) && (st == BIT || (!thorough && st == INT32))
                })
                .cloned()
                .collect();
            out.push(OpSpace {
                name: "GetSlice",
                params: plain(ps3.into_iter().map(Operation::GetSlice).collect()),
                args: ArgSpace::Fixed(vec![Arc::new(a3)]),
            });
        }
    }
    {
        let targets: Vec<Type> = if compose { red_v.clone() } else { type_params.clone() };
        out.push(OpSpace { name: "Reshape", params: plain(targets.into_iter().map(Operation::Reshape).collect()), args: unary() });
    }
    out.push(OpSpace { name: "NOP", params: plain(vec![Operation::NOP]), args: unary() });
    out.push(OpSpace { name: "Random", params: plain(tp_small.iter().map(|t| Operation::Random(t.clone())).collect()), args: nullary() });
    {
        let out_types: Vec<Type> = if compose { red_v.clone() } else { type_params.clone() };
        let mut ps = vec![];
        for iv in [0u64, 1, u64::MAX] {
            for t in &out_types {
                ps.push(Operation::PRF(iv, t.clone()));
            }
            if compose {
                break;
            }
        }
        // keys: the general alphabet has bit[128] (accepted) and many that must be rejected
        let keys: Vec<Type> = full_v
            .iter()
            .filter(|t| t.is_array() && t.get_scalar_type() == BIT)
            .cloned()
            .chain(vec![scalar_type(BIT), array_type(vec![16], UINT8), tuple_type(vec![])])
            .collect();
        out.push(OpSpace { name: "PRF", params: plain(ps), args: ArgSpace::Fixed(vec![Arc::new(keys.clone())]) });
        let mut ps = vec![];
        for iv in [0u64, 7, u64::MAX] {
            for n in [0u64, 1, 2, 3, 5, 17] {
                ps.push(Operation::PermutationFromPRF(iv, n));
            }
        }
        ps.push(Operation::PermutationFromPRF(0, (1 << 30) + 1));
        out.push(OpSpace { name: "PermutationFromPRF", params: plain(ps), args: ArgSpace::Fixed(vec![Arc::new(keys)]) });
    }
    {
        let outer: Vec<Vec<u64>> = vec![
            vec![],
            vec![0],
            vec![1],
            vec![2],
            vec![3],
            vec![1, 1],
            vec![1, 2],
            vec![2, 1],
            vec![1, 1, 1],
            vec![3, 1],
        ];
        out.push(OpSpace {
            name: "Stack",
            params: plain(outer.into_iter().map(Operation::Stack).collect()),
            args: ArgSpace::Variadic { min: 0, max: vmax, alpha: ra.clone() },
        });
        if !compose {
            let r8: Vec<Type> = red_v.iter().take(6).cloned().collect();
            out.push(OpSpace {
                name: "Stack",
                params: plain(vec![Operation::Stack(vec![2, 2]), Operation::Stack(vec![4]), Operation::Stack(vec![2, 1, 2]), Operation::Stack(vec![3])]),
                args: ArgSpace::Variadic { min: 4, max: 4, alpha: Arc::new(r8) },
            });
        }
    }
    out.push(OpSpace {
        name: "Concatenate",
        params: plain((0..4u64).map(Operation::Concatenate).collect()),
        args: ArgSpace::Variadic { min: 0, max: vmax, alpha: ra.clone() },
    });
    if !compose {
        // concatenation over all arrays (pairs)
        let arrays: Vec<Type> = full_v.iter().filter(|t| t.is_array() && t.get_shape().iter().all(|d| *d <= 3)).cloned().collect();
        let aa = Arc::new(arrays);
        out.push(OpSpace {
            name: "Concatenate",
            params: plain((0..3u64).map(Operation::Concatenate).collect()),
            args: ArgSpace::Fixed(vec![aa.clone(), aa]),
        });
    }
    out.push(OpSpace { name: "A2B", params: plain(vec![Operation::A2B]), args: unary() });
    {
        let sts: Vec<ScalarType> = if compose { vec![UINT8, INT32] } else { crate::vals::ALL_ST.to_vec() };
        out.push(OpSpace { name: "B2A", params: plain(sts.into_iter().map(Operation::B2A).collect()), args: unary() });
    }
    out.push(OpSpace {
        name: "CreateTuple",
        params: plain(vec![Operation::CreateTuple]),
        args: ArgSpace::Variadic { min: 0, max: vmax, alpha: ra.clone() },
    });
    {
        let names: Vec<Vec<&str>> = vec![vec![], vec!["a"], vec!["a", "b"], vec!["a", "a"], vec!["a", "b", "c"], vec!["", NULL_HEADER]];
        out.push(OpSpace {
            name: "CreateNamedTuple",
            params: plain(names.into_iter().map(|v| Operation::CreateNamedTuple(v.into_iter().map(s).collect())).collect()),
            args: ArgSpace::Variadic { min: 0, max: vmax, alpha: ra.clone() },
        });
    }
    {
        let mut ets = red_v.clone();
        if !compose {
            ets.push(array_type(vec![0], UINT8));
        }
        out.push(OpSpace {
            name: "CreateVector",
            params: plain(ets.into_iter().map(Operation::CreateVector).collect()),
            args: ArgSpace::Variadic { min: 0, max: vmax, alpha: ra.clone() },
        });
    }
    out.push(OpSpace { name: "TupleGet", params: plain((0..4u64).map(Operation::TupleGet).collect()), args: unary() });
    out.push(OpSpace {
        name: "NamedTupleGet",
        params: plain(["a", "b", "k", NULL_HEADER, "zz", ""].iter().map(|n| Operation::NamedTupleGet(s(n))).collect()),
        args: unary(),
    });
    out.push(OpSpace { name: "VectorGet", params: plain(vec![Operation::VectorGet]), args: binary() });
    {
        let vecs: Vec<Type> = full_v.iter().filter(|t| t.is_vector()).cloned().chain(vec![scalar_type(UINT8), tuple_type(vec![])]).collect();
        out.push(OpSpace {
            name: "Zip",
            params: plain(vec![Operation::Zip]),
            args: ArgSpace::Variadic { min: 0, max: vmax, alpha: Arc::new(vecs) },
        });
    }
    out.push(OpSpace { name: "Repeat", params: plain((0..4u64).map(Operation::Repeat).collect()), args: unary() });
    out.push(OpSpace { name: "ArrayToVector", params: plain(vec![Operation::ArrayToVector]), args: unary() });
    out.push(OpSpace { name: "VectorToArray", params: plain(vec![Operation::VectorToArray]), args: unary() });
    out.push(OpSpace {
        name: "RandomPermutation",
        params: plain([0u64, 1, 2, 3, 5, 17].iter().map(|n| Operation::RandomPermutation(*n)).collect()),
        args: nullary(),
    });
    out.push(OpSpace { name: "Gather", params: plain((0..4u64).map(Operation::Gather).collect()), args: binary() });
    out.push(OpSpace { name: "CuckooHash", params: plain(vec![Operation::CuckooHash]), args: binary() });
    out.push(OpSpace { name: "InversePermutation", params: plain(vec![Operation::InversePermutation]), args: unary() });
    out.push(OpSpace { name: "CuckooToPermutation", params: plain(vec![Operation::CuckooToPermutation]), args: unary() });
    out.push(OpSpace {
        name: "DecomposeSwitchingMap",
        params: plain([0u64, 1, 2, 3, 5].iter().map(|n| Operation::DecomposeSwitchingMap(*n)).collect()),
        args: unary(),
    });
    {
        let bins = vec![
            array_type(vec![1], BIT),
            array_type(vec![2], BIT),
            array_type(vec![3], BIT),
            scalar_type(BIT),
            array_type(vec![2], UINT8),
            array_type(vec![2, 1], BIT),
        ];
        let firsts: Vec<Type> = if compose { red_v.clone() } else { full_v.clone() };
        out.push(OpSpace {
            name: "SegmentCumSum",
            params: plain(vec![Operation::SegmentCumSum]),
            args: ArgSpace::Fixed(vec![fa.clone(), Arc::new(bins), Arc::new(firsts)]),
        });
    }
    {
        let mut tb = tables(level);
        tb.push(scalar_type(UINT8));
        tb.push(tuple_type(vec![array_type(vec![2], BIT), array_type(vec![2], UINT8)]));
        let ta = Arc::new(tb);
        out.push(OpSpace {
            name: "Shard",
            params: plain(shard_configs().into_iter().map(Operation::Shard).collect()),
            args: ArgSpace::Fixed(vec![ta.clone()]),
        });
        out.push(OpSpace {
            name: "ShardWithColumnMasks",
            params: plain(shard_configs().into_iter().map(Operation::ShardWithColumnMasks).collect()),
            args: ArgSpace::Fixed(vec![ta.clone()]),
        });
        let mut jp = vec![];
        let mut jpm = vec![];
        for jt in [JoinType::Inner, JoinType::Left, JoinType::Union, JoinType::Full] {
            for h in header_maps() {
                jp.push(Operation::Join(jt, h.clone()));
                jpm.push(Operation::JoinWithColumnMasks(jt, h));
            }
        }
        out.push(OpSpace { name: "Join", params: plain(jp), args: ArgSpace::Fixed(vec![ta.clone(), ta.clone()]) });
        out.push(OpSpace { name: "JoinWithColumnMasks", params: plain(jpm), args: ArgSpace::Fixed(vec![ta.clone(), ta.clone()]) });
        // Sort: over the general alphabet and all tables
        let mut sa = full_v.clone();
        for t in ta.iter() {
            if !sa.contains(t) {
                sa.push(t.clone());
            }
        }
        out.push(OpSpace {
            name: "Sort",
            params: plain(["k", "a", "b", NULL_HEADER, "zz"].iter().map(|k| Operation::Sort(s(k))).collect()),
            args: ArgSpace::Fixed(vec![Arc::new(sa)]),
        });
    }
    out.push(OpSpace {
        name: "ApplyPermutation",
        params: plain(vec![Operation::ApplyPermutation(false), Operation::ApplyPermutation(true)]),
        args: binary(),
    });
    out.push(OpSpace { name: "Print", params: plain(vec![Operation::Print(s("c09"))]), args: unary() });
    {
        let conds = vec![scalar_type(BIT), scalar_type(UINT8), array_type(vec![1], BIT), tuple_type(vec![scalar_type(BIT)])];
        out.push(OpSpace {
            name: "Assert",
            params: plain(vec![Operation::Assert(s("c09"))]),
            args: ArgSpace::Fixed(vec![Arc::new(conds), fa.clone()]),
        });
    }
    if !compose {
        let mut ca = red_v.clone();
        ca.push(array_type(vec![2], INT32));
        out.push(OpSpace {
            name: "Call",
            params: call_subs().into_iter().map(|p| (Operation::Call, Some(p))).collect(),
            args: ArgSpace::Variadic { min: 0, max: 2, alpha: Arc::new(ca) },
        });
        let mut ia = red_v.clone();
        ia.push(vector_type(3, scalar_type(UINT8)));
        ia.push(vector_type(0, scalar_type(INT32)));
        let ia = Arc::new(ia);
        out.push(OpSpace {
            name: "Iterate",
            params: iterate_subs().into_iter().map(|p| (Operation::Iterate, Some(p))).collect(),
            args: ArgSpace::Fixed(vec![ia.clone(), ia]),
        });
    }
    out
}

/// Names of all primitive operations of `graphs::Operation` the enumeration must cover (Custom is not primitive).
pub const ALL_OPS: &[&str] = &[
    "Input", "Zeros", "Ones", "Add", "Subtract", "Multiply", "MixedMultiply", "Dot", "Matmul", "Gemm", "Truncate",
    "Sum", "CumSum", "PermuteAxes", "Get", "GetSlice", "Reshape", "NOP", "Random", "PRF", "PermutationFromPRF",
    "Stack", "Concatenate", "Constant", "A2B", "B2A", "CreateTuple", "CreateNamedTuple", "CreateVector", "TupleGet",
    "NamedTupleGet", "VectorGet", "Zip", "Repeat", "Call", "Iterate", "ArrayToVector", "VectorToArray",
    "RandomPermutation", "Gather", "CuckooHash", "InversePermutation", "CuckooToPermutation",
    "DecomposeSwitchingMap", "SegmentCumSum", "Shard", "ShardWithColumnMasks", "Join", "JoinWithColumnMasks",
    "ApplyPermutation", "Sort", "Print", "Assert",
];
