//! C09 input alphabet: zeros, ones, all-max, index patterns, inputs built to satisfy documented data
//! preconditions, and seed-derived ones.
use crate::common::SplitMix;
use crate::vals::{arr_value, build_value, num_elems, pattern_value, st_mask};
use ciphercore_base::data_types::{Type, BIT};
use ciphercore_base::data_values::Value;
use ciphercore_base::graphs::Operation;
use ciphercore_base::type_inference::NULL_HEADER;

pub fn zeros(t: &Type) -> Value {
    pattern_value(t, &mut || 0u8)
}
pub fn maxv(t: &Type) -> Value {
    pattern_value(t, &mut || 0xFFu8)
}
pub fn ones(t: &Type) -> Value {
    build_value(t, &mut |lt| arr_value(&vec![1u128; num_elems(lt)], &lt.get_scalar_type()))
}
/// every array leaf holds 0,1,2,... in flattened order (an identity permutation for rank 1)
pub fn iota(t: &Type, rev: bool) -> Value {
    build_value(t, &mut |lt| {
        let n = num_elems(lt);
        let e: Vec<u128> = (0..n).map(|i| if rev { (n - 1 - i) as u128 } else { i as u128 }).collect();
        arr_value(&e, &lt.get_scalar_type())
    })
}
/// every array leaf holds 0,1,..,d-1 along its last dimension (valid indices / a permutation per row)
pub fn row_iota(t: &Type, modulus: Option<u64>) -> Value {
    build_value(t, &mut |lt| {
        let n = num_elems(lt);
        let d = if lt.is_array() { *lt.get_shape().last().unwrap() as usize } else { 1 };
        let e: Vec<u128> = (0..n)
            .map(|i| {
                let x = (i % d) as u64;
                (match modulus {
                    Some(m) if m > 0 => x % m,
                    _ => x,
                }) as u128
            })
            .collect();
        arr_value(&e, &lt.get_scalar_type())
    })
}
pub fn seeded(t: &Type, sm: &mut SplitMix) -> Value {
    let mut buf: Vec<u8> = vec![];
    let mut pos = 0usize;
    pattern_value(t, &mut || {
        if pos >= buf.len() {
            buf = sm.next().to_le_bytes().to_vec();
            pos = 0;
        }
        pos += 1;
        buf[pos - 1]
    })
}

fn leaf_from(t: &Type, f: &dyn Fn(usize) -> u128) -> Value {
    let n = num_elems(t);
    let e: Vec<u128> = (0..n).map(f).collect();
    arr_value(&e, &t.get_scalar_type())
}

/// table value: null column / masks from `present(row)`, data of row i filled from `cell(row, elem index in row)`
fn table_value(t: &Type, present: &dyn Fn(usize) -> bool, cell: &dyn Fn(usize, usize, bool) -> u128) -> Option<Value> {
    let cols = match t {
        Type::NamedTuple(v) => v.clone(),
        _ => return None,
    };
    let mut out = vec![];
    for (name, ct) in cols.iter() {
        let fill = |dt: &Type| -> Option<Value> {
            if !dt.is_array() {
                return None;
            }
            let sh = dt.get_shape();
            let row = (num_elems(dt) / sh[0] as usize).max(1);
            let bit = dt.get_scalar_type() == BIT;
            Some(leaf_from(dt, &|i| {
                if name == NULL_HEADER {
                    present(i / row) as u128
                } else {
                    cell(i / row, i % row, bit) & st_mask(&dt.get_scalar_type())
                }
            }))
        };
        match &**ct {
            Type::Tuple(parts) if parts.len() == 2 => {
                let mt = &*parts[0];
                let dt = &*parts[1];
                if !mt.is_array() {
                    return None;
                }
                let m = leaf_from(mt, &|i| present(i) as u128);
                out.push(Value::from_vector(vec![m, fill(dt)?]));
            }
            other => out.push(fill(other)?),
        }
    }
    Some(Value::from_vector(out))
}

fn cuckoo_inputs(tin: &Type, th: &Type, sm: &mut SplitMix) -> Vec<(String, Vec<Value>)> {
    let mut out = vec![];
    if !tin.is_array() || !th.is_array() {
        return out;
    }
    let si = tin.get_shape();
    let sh = th.get_shape();
    if si.len() < 2 || sh.len() != 3 {
        return out;
    }
    let c = si[si.len() - 1] as usize;
    let n = si[si.len() - 2] as usize;
    let r = sh[1] as usize;
    let hc = sh[2] as usize;
    // strings A: row i = i mod 2^c ; strings B: row i = min(i, 2^c - 1)   (bit j of the number in column j)
    let cap: u64 = if c >= 63 { u64::MAX } else { (1u64 << c) - 1 };
    let str_a = leaf_from(tin, &|i| {
        let row = ((i / c) % n) as u64;
        ((row & cap) >> (i % c).min(63) & 1) as u128
    });
    let str_b = leaf_from(tin, &|i| {
        let row = ((i / c) % n) as u64;
        (row.min(cap) >> (i % c).min(63) & 1) as u128
    });
    // hash A: function k, row j picks input bit (j + k) mod c ; hash B: column col of function k is the number k+1+col
    let hash_a = leaf_from(th, &|i| {
        let col = i % hc;
        let row = (i / hc) % r;
        let k = i / (hc * r);
        (col == (row + k) % hc) as u128
    });
    let hash_b = leaf_from(th, &|i| {
        let col = i % hc;
        let row = (i / hc) % r;
        let k = i / (hc * r);
        (((k + 1 + col) >> row) & 1) as u128
    });
    out.push(("crafted:distinct-strings/select-hash".to_string(), vec![str_a.clone(), hash_a.clone()]));
    out.push(("crafted:distinct-strings/counter-hash".to_string(), vec![str_a.clone(), hash_b.clone()]));
    out.push(("crafted:capped-strings/select-hash".to_string(), vec![str_b.clone(), hash_a]));
    out.push(("crafted:capped-strings/counter-hash".to_string(), vec![str_b.clone(), hash_b]));
    out.push(("seeded:distinct-strings/random-hash".to_string(), vec![str_a, seeded(th, sm)]));
    out.push(("seeded:capped-strings/random-hash".to_string(), vec![str_b, seeded(th, sm)]));
    out
}

/// The input alphabet for a graph with the given input types. `op` is the single operation under test
/// (None for compositions). Labels starting with "seeded" are counted separately.
pub fn input_alphabet(tys: &[Type], op: Option<&Operation>, sm: &mut SplitMix) -> Vec<(String, Vec<Value>)> {
    let mut out: Vec<(String, Vec<Value>)> = vec![];
    out.push(("zeros".into(), tys.iter().map(zeros).collect()));
    if tys.is_empty() {
        return out;
    }
    out.push(("ones".into(), tys.iter().map(ones).collect()));
    out.push(("max".into(), tys.iter().map(maxv).collect()));
    out.push(("iota".into(), tys.iter().map(|t| iota(t, false)).collect()));
    out.push(("iota-rev".into(), tys.iter().map(|t| iota(t, true)).collect()));
    out.push(("row-iota".into(), tys.iter().map(|t| row_iota(t, None)).collect()));
    match op {
        Some(Operation::DecomposeSwitchingMap(n)) => {
            out.push(("crafted:indices-below-n".into(), tys.iter().map(|t| row_iota(t, Some(*n))).collect()));
        }
        Some(Operation::CuckooToPermutation) if tys[0].is_array() => {
            // a Cuckoo table with one dummy (u64::MAX) in front of each row, then 0,1,..,d-2
            let d = *tys[0].get_shape().last().unwrap() as usize;
            let v = leaf_from(&tys[0], &|i| if i % d == 0 { u128::MAX } else { (i % d - 1) as u128 });
            out.push(("crafted:one-dummy".into(), vec![v]));
            let v = leaf_from(&tys[0], &|i| if i % d == d - 1 { u128::MAX } else { (d - 2 - i % d) as u128 });
            out.push(("crafted:dummy-last".into(), vec![v]));
            // several tables (leading dimensions) with a varying number of dummies: k dummy cells in front, then 0..d-k-1
            let row_with = |col: usize, k: usize| if col < k { u128::MAX } else { (col - k) as u128 };
            for (name, even, odd) in [("two-dummies-then-none", 2usize, 0usize), ("two-dummies-then-one", 2, 1), ("all-dummies-then-none", d, 0), ("none-then-two", 0, 2)] {
                let v = leaf_from(&tys[0], &|i| {
                    let k = if (i / d) % 2 == 0 { even.min(d) } else { odd.min(d) };
                    row_with(i % d, k)
                });
                out.push((format!("crafted:{}", name), vec![v]));
            }
        }
        Some(Operation::CuckooHash) if tys.len() == 2 => {
            out.extend(cuckoo_inputs(&tys[0], &tys[1], sm));
        }
        Some(Operation::VectorGet) if tys.len() == 2 => {
            if let Type::Vector(len, _) = &tys[0] {
                if *len > 0 && tys[1].is_scalar() {
                    let idx = arr_value(&[(*len - 1) as u128], &tys[1].get_scalar_type());
                    out.push(("crafted:last-index".into(), vec![iota(&tys[0], false), idx]));
                }
            }
        }
        Some(Operation::Gather(_)) if tys.len() == 2 => {
            out.push(("crafted:indices-reversed".into(), vec![iota(&tys[0], false), iota(&tys[1], true)]));
        }
        Some(Operation::ApplyPermutation(_)) if tys.len() == 2 => {
            out.push(("crafted:reverse-permutation".into(), vec![iota(&tys[0], false), iota(&tys[1], true)]));
        }
        Some(Operation::Assert(_)) if tys.len() == 2 => {
            out.push(("crafted:true-condition".into(), vec![ones(&tys[0]), iota(&tys[1], false)]));
        }
        Some(Operation::Join(_, _)) | Some(Operation::JoinWithColumnMasks(_, _)) | Some(Operation::Sort(_))
        | Some(Operation::Shard(_)) | Some(Operation::ShardWithColumnMasks(_)) => {
            // all rows present, keys unique per table, tables overlap in some keys
            let mut vs = vec![];
            for (k, t) in tys.iter().enumerate() {
                let shift = 2 * k;
                match table_value(t, &|_| true, &|row, e, bit| {
                    let x = (row + 1 + shift) as u128;
                    if bit {
                        (x >> e) & 1
                    } else {
                        x
                    }
                }) {
                    Some(v) => vs.push(v),
                    None => break,
                }
            }
            if vs.len() == tys.len() {
                out.push(("crafted:unique-keys-all-present".into(), vs));
            }
            let mut vs = vec![];
            for (k, t) in tys.iter().enumerate() {
                match table_value(t, &|row| (row + k) % 2 == 1, &|row, e, bit| {
                    let x = (row + 1 + k) as u128;
                    if bit {
                        (x >> e) & 1
                    } else {
                        x
                    }
                }) {
                    Some(v) => vs.push(v),
                    None => break,
                }
            }
            if vs.len() == tys.len() {
                out.push(("crafted:unique-keys-some-rows-empty".into(), vs));
            }
        }
        _ => {}
    }
    for k in 0..2 {
        out.push((format!("seeded:{}", k), tys.iter().map(|t| seeded(t, sm)).collect()));
    }
    out
}

/// JSON <-> value tree (bytes as hex)
pub fn value_to_json(v: &Value) -> serde_json::Value {
    match v.to_vector() {
        Ok(vs) => serde_json::json!({ "v": vs.iter().map(value_to_json).collect::<Vec<_>>() }),
        Err(_) => {
            let hex = v
                .access_bytes(|b| Ok(b.iter().map(|x| format!("{:02x}", x)).collect::<String>()))
                .unwrap_or_default();
            serde_json::json!({ "b": hex })
        }
    }
}

pub fn json_to_value(j: &serde_json::Value) -> Option<Value> {
    if let Some(a) = j.get("v").and_then(|x| x.as_array()) {
        let mut out = vec![];
        for x in a {
            out.push(json_to_value(x)?);
        }
        return Some(Value::from_vector(out));
    }
    let hex = j.get("b")?.as_str()?;
    let mut bytes = vec![];
    let hb = hex.as_bytes();
    if hb.len() % 2 != 0 {
        return None;
    }
    for i in (0..hb.len()).step_by(2) {
        bytes.push(u8::from_str_radix(std::str::from_utf8(&hb[i..i + 2]).ok()?, 16).ok()?);
    }
    Some(Value::from_bytes(bytes))
}
