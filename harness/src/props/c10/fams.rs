//! Enumeration of the one-operation graph cases, family by family, in a fixed order (simplest first,
//! scalar type innermost).
use super::fills::IntMode;
use super::refsem::*;
use serde::{Deserialize, Serialize};

#[derive(Clone, Debug, Serialize, Deserialize)]
pub enum Plan {
    /// generated fills for all operands
    Gen(IntMode),
    /// explicit operand tuples
    Explicit(Vec<Vec<RV>>),
    /// operand `0` of the pair takes each explicit value, the other operands get generated fills
    ExplicitAt(usize, Vec<RV>, IntMode),
}

#[derive(Clone, Debug, Serialize, Deserialize)]
pub struct GCase {
    pub op: Op,
    pub args: Vec<RT>,
    pub plan: Plan,
    /// bit arrays: all values if the operands have at most this many bit elements in total
    pub bx: u32,
}

#[derive(Clone, Debug)]
pub struct Knobs {
    pub thorough: bool,
    pub rmax: usize,
    /// exhaustive-bits bound for arithmetic operations / structural operations / mixed int+bit operands
    pub bx_arith: u32,
    pub bx_struct: u32,
    pub bx_mixed: u32,
}

pub const STS: [St; 11] = [
    St { bits: 1, signed: false },
    St { bits: 8, signed: false },
    St { bits: 8, signed: true },
    St { bits: 16, signed: false },
    St { bits: 16, signed: true },
    St { bits: 32, signed: false },
    St { bits: 32, signed: true },
    St { bits: 64, signed: false },
    St { bits: 64, signed: true },
    St { bits: 128, signed: false },
    St { bits: 128, signed: true },
];
pub const U8: St = St { bits: 8, signed: false };
pub const U16: St = St { bits: 16, signed: false };
pub const U32: St = St { bits: 32, signed: false };
pub const U64: St = St { bits: 64, signed: false };
pub const I32: St = St { bits: 32, signed: true };
pub const I128: St = St { bits: 128, signed: true };

type Sh = Option<Vec<u64>>;

/// all shapes of rank rmin..=rmax with dimensions in {1,2,3}, by rank, then lexicographically
pub fn shapes(rmin: usize, rmax: usize) -> Vec<Vec<u64>> {
    let mut out = vec![];
    for r in rmin..=rmax {
        let mut cur: Vec<Vec<u64>> = vec![vec![]];
        for _ in 0..r {
            let mut next = vec![];
            for p in cur.iter() {
                for d in 1..=3u64 {
                    let mut q = p.clone();
                    q.push(d);
                    next.push(q);
                }
            }
            cur = next;
        }
        out.extend(cur);
    }
    out
}
/// scalar first, then the array shapes up to rmax
pub fn arrayish(rmax: usize) -> Vec<Sh> {
    let mut v: Vec<Sh> = vec![None];
    v.extend(shapes(1, rmax).into_iter().map(Some));
    v
}
pub fn at(sh: &Sh, st: St) -> RT {
    match sh {
        None => RT::Scalar(st),
        Some(s) => RT::Array(s.clone(), st),
    }
}
fn arr_t(s: &[u64], st: St) -> RT {
    RT::Array(s.to_vec(), st)
}
fn rank(sh: &Sh) -> usize {
    sh.as_ref().map(|s| s.len()).unwrap_or(0)
}
fn gc(op: Op, args: Vec<RT>, plan: Plan, bx: u32) -> GCase {
    GCase { op, args, plan, bx }
}

fn permutations(n: usize) -> Vec<Vec<u64>> {
    fn go(cur: &mut Vec<u64>, n: usize, out: &mut Vec<Vec<u64>>) {
        if cur.len() == n {
            out.push(cur.clone());
            return;
        }
        for x in 0..n as u64 {
            if !cur.contains(&x) {
                cur.push(x);
                go(cur, n, out);
                cur.pop();
            }
        }
    }
    let mut out = vec![];
    go(&mut vec![], n, &mut out);
    out
}
/// all sequences of k pairwise different numbers below n
fn injections(n: usize, k: usize) -> Vec<Vec<u64>> {
    fn go(cur: &mut Vec<u64>, n: usize, k: usize, out: &mut Vec<Vec<u64>>) {
        if cur.len() == k {
            out.push(cur.clone());
            return;
        }
        for x in 0..n as u64 {
            if !cur.contains(&x) {
                cur.push(x);
                go(cur, n, k, out);
                cur.pop();
            }
        }
    }
    let mut out = vec![];
    go(&mut vec![], n, k, &mut out);
    out
}
fn subsets(n: usize) -> Vec<Vec<u64>> {
    (0..(1u32 << n)).map(|m| (0..n as u64).filter(|i| (m >> i) & 1 == 1).collect()).collect()
}
fn index_arr(st: St, shape: Vec<u64>, data: &[u64]) -> RV {
    RV::A(Arr { st, shape: Some(shape), data: data.iter().map(|x| *x as u128 & st.mask()).collect() })
}

/// shape-level "is the reference semantics defined" probe used only to thin out rank-4 pair spaces
fn defined(op: &Op, args: &[RT]) -> bool {
    let vals: Vec<RV> = args.iter().map(|t| constant_of(t, 0)).collect();
    eval(op, &vals).is_ok()
}

// ------------------------------------------------------------------ arithmetic

pub fn fam_arith(k: &Knobs, op: Op) -> Vec<GCase> {
    let ts = arrayish(k.rmax);
    let mut out = vec![];
    for a in ts.iter() {
        for b in ts.iter() {
            let small = rank(a) <= 1 && rank(b) <= 1;
            let medium = rank(a) <= 2 && rank(b) <= 2;
            let mode = if small || (k.thorough && medium) { IntMode::PairsFull } else { IntMode::PairsFew };
            for st in STS {
                out.push(gc(op.clone(), vec![at(a, st), at(b, st)], Plan::Gen(mode), k.bx_arith));
            }
        }
    }
    // different scalar types: expected to be refused
    for sa in STS {
        for sb in STS {
            if sa != sb {
                out.push(gc(op.clone(), vec![arr_t(&[2], sa), arr_t(&[2], sb)], Plan::Gen(IntMode::Reduced), 4));
            }
        }
    }
    out
}

pub fn fam_mixed(k: &Knobs) -> Vec<GCase> {
    let ts = arrayish(k.rmax);
    let mut out = vec![];
    for a in ts.iter() {
        for b in ts.iter() {
            for st in STS {
                if st.is_bit() && !(rank(a) <= 1 && rank(b) <= 1) {
                    continue; // bit x bit is refused; a few probes are enough
                }
                out.push(gc(Op::MixedMultiply, vec![at(a, st), at(b, BIT)], Plan::Gen(IntMode::Reduced), k.bx_mixed));
            }
        }
    }
    out.push(gc(Op::MixedMultiply, vec![arr_t(&[2], I32), arr_t(&[2], I32)], Plan::Gen(IntMode::Reduced), 4));
    out.push(gc(Op::MixedMultiply, vec![arr_t(&[2], BIT), arr_t(&[2], I32)], Plan::Gen(IntMode::Reduced), 4));
    out
}

pub fn fam_dot_matmul(k: &Knobs, op: Op) -> Vec<GCase> {
    let ts = arrayish(k.rmax);
    let mut out = vec![];
    for a in ts.iter() {
        for b in ts.iter() {
            if rank(a).max(rank(b)) == 4 && !defined(&op, &[at(a, I32), at(b, I32)]) {
                continue;
            }
            for st in STS {
                out.push(gc(op.clone(), vec![at(a, st), at(b, st)], Plan::Gen(IntMode::PairsFew), k.bx_arith));
            }
        }
    }
    out
}

pub fn fam_gemm(k: &Knobs) -> Vec<GCase> {
    let ss = shapes(1, k.rmax);
    let mut out = vec![];
    for a in ss.iter() {
        for b in ss.iter() {
            if (a.len() == 1) != (b.len() == 1) && a.len() + b.len() > 3 {
                continue; // rank-1 operands are refused; keep only small probes of that
            }
            for (ta, tb) in [(false, false), (false, true), (true, false), (true, true)] {
                let op = Op::Gemm(ta, tb);
                if a.len().max(b.len()) == 4 && !defined(&op, &[arr_t(a, I32), arr_t(b, I32)]) {
                    continue;
                }
                for st in STS {
                    out.push(gc(op.clone(), vec![arr_t(a, st), arr_t(b, st)], Plan::Gen(IntMode::PairsFew), k.bx_arith));
                }
            }
        }
    }
    out
}

/// numpy broadcast of two batch shapes (None if incompatible)
fn bcast(a: &[u64], b: &[u64]) -> Option<Vec<u64>> {
    let r = a.len().max(b.len());
    let mut out = vec![];
    for i in 0..r {
        let x = if i + a.len() >= r { a[i + a.len() - r] } else { 1 };
        let y = if i + b.len() >= r { b[i + b.len() - r] } else { 1 };
        if x != y && x != 1 && y != 1 {
            return None;
        }
        out.push(x.max(y));
    }
    Some(out)
}

/// Gemm / Matmul with batch dimensions of rank 0..=2 on both sides in every broadcast-compatible combination
/// (a size-1 batch dimension before, after and between larger ones; missing leading dimensions), matrix part
/// n=2, k=3, m=2 so that a transposition or batch mix-up cannot go unnoticed. Ranks 4 x 2..4 are reached in
/// both tiers (the plain shape sweep stops at rank 3 in the quick tier).
pub fn fam_batch_products(_k: &Knobs) -> Vec<GCase> {
    let batches: Vec<Vec<u64>> =
        vec![vec![], vec![1], vec![2], vec![3], vec![1, 1], vec![1, 2], vec![2, 1], vec![1, 3], vec![3, 1], vec![2, 3], vec![3, 2]];
    let (n, kk, m) = (2u64, 3u64, 2u64);
    let mut out = vec![];
    for ba in batches.iter() {
        for bb in batches.iter() {
            if ba.len().max(bb.len()) < 2 || bcast(ba, bb).is_none() {
                continue; // ranks <= 3 are covered by the plain sweeps
            }
            for (ta, tb) in [(false, false), (false, true), (true, false), (true, true)] {
                let mut a = ba.clone();
                a.extend(if ta { [kk, n] } else { [n, kk] });
                let mut b = bb.clone();
                b.extend(if tb { [m, kk] } else { [kk, m] });
                for st in STS {
                    out.push(gc(Op::Gemm(ta, tb), vec![arr_t(&a, st), arr_t(&b, st)], Plan::Gen(IntMode::PairsFew), 0));
                }
            }
            let mut a = ba.clone();
            a.extend([n, kk]);
            let mut b = bb.clone();
            b.extend([kk, m]);
            for st in STS {
                out.push(gc(Op::Matmul, vec![arr_t(&a, st), arr_t(&b, st)], Plan::Gen(IntMode::PairsFew), 0));
            }
        }
    }
    out
}

pub fn fam_sum(k: &Knobs) -> Vec<GCase> {
    let mut out = vec![];
    for s in shapes(1, k.rmax) {
        let mut axes_list: Vec<Vec<u64>> = vec![];
        for sub in subsets(s.len()) {
            if k.thorough {
                for p in permutations(sub.len()) {
                    axes_list.push(p.iter().map(|i| sub[*i as usize]).collect());
                }
            } else {
                axes_list.push(sub.clone());
                if sub.len() >= 2 {
                    let mut r = sub.clone();
                    r.reverse();
                    axes_list.push(r);
                }
            }
        }
        axes_list.push(vec![s.len() as u64]); // invalid axis
        axes_list.push(vec![0, 0]); // duplicate axis
        for ax in axes_list {
            for st in STS {
                out.push(gc(Op::Sum(ax.clone()), vec![arr_t(&s, st)], Plan::Gen(IntMode::Full), k.bx_arith));
            }
        }
    }
    for st in STS {
        out.push(gc(Op::Sum(vec![]), vec![RT::Scalar(st)], Plan::Gen(IntMode::Full), 4));
    }
    out
}

pub fn fam_cumsum(k: &Knobs) -> Vec<GCase> {
    let mut out = vec![];
    for s in shapes(1, k.rmax) {
        for ax in 0..=s.len() as u64 {
            for st in STS {
                out.push(gc(Op::CumSum(ax), vec![arr_t(&s, st)], Plan::Gen(IntMode::Full), k.bx_arith));
            }
        }
    }
    for st in STS {
        out.push(gc(Op::CumSum(0), vec![RT::Scalar(st)], Plan::Gen(IntMode::Full), 4));
    }
    out
}

// ------------------------------------------------------------------ structure

pub fn fam_permute(k: &Knobs) -> Vec<GCase> {
    let mut out = vec![];
    for s in shapes(1, k.rmax) {
        let mut ps = permutations(s.len());
        ps.push(vec![0; s.len()]); // not a permutation (for rank 1 it is the identity)
        ps.push((0..=s.len() as u64).collect()); // too long
        for p in ps {
            for st in STS {
                out.push(gc(Op::PermuteAxes(p.clone()), vec![arr_t(&s, st)], Plan::Gen(IntMode::Reduced), k.bx_struct));
            }
        }
    }
    out
}

pub fn fam_get(k: &Knobs) -> Vec<GCase> {
    let mut out = vec![];
    for s in shapes(1, k.rmax) {
        let mut idxs: Vec<Vec<u64>> = vec![vec![]];
        let mut level: Vec<Vec<u64>> = vec![vec![]];
        for d in 0..s.len() {
            let mut next = vec![];
            for p in level.iter() {
                for x in 0..s[d] {
                    let mut q = p.clone();
                    q.push(x);
                    next.push(q);
                }
            }
            idxs.extend(next.iter().cloned());
            level = next;
        }
        idxs.push(vec![s[0]]); // out of bounds
        idxs.push(vec![0; s.len() + 1]); // too long
        for ix in idxs {
            for st in STS {
                out.push(gc(Op::Get(ix.clone()), vec![arr_t(&s, st)], Plan::Gen(IntMode::Reduced), k.bx_struct));
            }
        }
    }
    out
}

pub fn slice_alphabet() -> Vec<Sl> {
    let mut v = vec![Sl::Single(0), Sl::Single(-1), Sl::Single(2), Sl::Ellipsis];
    for b in [None, Some(0), Some(1), Some(-1)] {
        for e in [None, Some(2), Some(-1)] {
            for s in [None, Some(1), Some(2), Some(-1), Some(-2)] {
                v.push(Sl::Sub(b, e, s));
            }
        }
    }
    v
}
fn slice_reduced(n: usize) -> Vec<Sl> {
    let v = vec![
        Sl::Single(0),
        Sl::Single(-1),
        Sl::Ellipsis,
        Sl::Sub(None, None, None),
        Sl::Sub(Some(1), None, None),
        Sl::Sub(None, None, Some(-1)),
        Sl::Sub(Some(-1), None, Some(-2)),
        Sl::Sub(None, Some(2), None),
        Sl::Sub(None, Some(-1), None),
        Sl::Sub(None, None, Some(2)),
    ];
    v[..n].to_vec()
}
/// all sequences over alpha of length len
fn seqs(alpha: &[Sl], len: usize) -> Vec<Vec<Sl>> {
    let mut cur: Vec<Vec<Sl>> = vec![vec![]];
    for _ in 0..len {
        let mut next = vec![];
        for p in cur.iter() {
            for x in alpha {
                let mut q = p.clone();
                q.push(x.clone());
                next.push(q);
            }
        }
        cur = next;
    }
    cur
}

/// part 0: rank 1 (dims 1..5), full alphabet, all types; part 1: rank 2, full alphabet squared, i32,
/// reduced alphabet all types; part 2: rank 3; part 3 (thorough): rank 4
pub fn fam_getslice(k: &Knobs, part: usize) -> Vec<GCase> {
    let full = slice_alphabet();
    let mut out = vec![];
    let mut push = |sl: &Vec<Sl>, s: &[u64], sts: &[St]| {
        for st in sts {
            out.push(gc(Op::GetSlice(sl.clone()), vec![arr_t(s, *st)], Plan::Gen(IntMode::Reduced), k.bx_struct));
        }
    };
    match part {
        0 => {
            for n in 1..=5u64 {
                let mut sls = seqs(&full, 1);
                for x in full.iter() {
                    sls.push(vec![Sl::Ellipsis, x.clone()]);
                    sls.push(vec![x.clone(), Sl::Ellipsis]);
                }
                sls.push(vec![Sl::Single(0), Sl::Single(0)]); // too long
                sls.push(vec![]); // empty slice
                sls.push(vec![Sl::Sub(None, None, Some(0))]); // zero step
                for sl in sls.iter() {
                    push(sl, &[n], &STS);
                }
            }
        }
        1 => {
            for s in shapes(2, 2) {
                for sl in seqs(&full, 2).iter() {
                    push(sl, &s, if k.thorough { &[I32, I128][..] } else { &[I32][..] });
                }
                let red = slice_reduced(10);
                let mut sls = seqs(&red, 1);
                sls.extend(seqs(&red, 2));
                for sl in seqs(&red, 3) {
                    if sl.iter().filter(|x| **x == Sl::Ellipsis).count() == 1 {
                        sls.push(sl);
                    }
                }
                for sl in sls.iter() {
                    push(sl, &s, &STS);
                }
            }
        }
        2 => {
            let red = slice_reduced(if k.thorough { 10 } else { 8 });
            let sts: Vec<St> =
                if k.thorough { STS.to_vec() } else { vec![BIT, U8, I32, U64, I128] };
            for s in shapes(3, 3) {
                let mut sls = seqs(&red, 1);
                sls.extend(seqs(&red, 2));
                sls.extend(seqs(&red, 3));
                for sl in sls.iter() {
                    push(sl, &s, &sts);
                }
                // four entries, one of them an ellipsis
                let r5 = slice_reduced(5);
                for sl in seqs(&r5, 4) {
                    if sl.iter().filter(|x| **x == Sl::Ellipsis).count() == 1 {
                        push(&sl, &s, &[I32]);
                    }
                }
            }
        }
        _ => {
            if k.rmax >= 4 {
                let red = slice_reduced(6);
                for s in shapes(4, 4) {
                    let mut sls = seqs(&red, 1);
                    sls.extend(seqs(&red, 2));
                    sls.extend(seqs(&red, 4));
                    for sl in sls.iter() {
                        push(sl, &s, &[U8, I128]);
                    }
                }
            }
        }
    }
    out
}

pub fn fam_gather(k: &Knobs) -> Vec<GCase> {
    let mut out = vec![];
    for s in shapes(1, k.rmax) {
        for ax in 0..=s.len() {
            let d = if ax < s.len() { s[ax] as usize } else { 1 };
            // index shapes of rank 1 and 2 with at most d elements (+ one too large)
            let mut ishapes: Vec<Vec<u64>> = vec![];
            for n in 1..=d as u64 {
                ishapes.push(vec![n]);
            }
            for a in 1..=d as u64 {
                for b in 1..=d as u64 {
                    if a * b <= d as u64 {
                        ishapes.push(vec![a, b]);
                    }
                }
            }
            ishapes.push(vec![d as u64 + 1]);
            for ish in ishapes {
                let n = numel(&ish);
                let ists: Vec<St> = if s.len() == 1 { vec![U64, U8, U16, U32, I32, BIT] } else { vec![U64, U8] };
                for ist in ists {
                    let mut vals: Vec<RV> = if n <= d {
                        injections(d, n).iter().map(|v| index_arr(ist, ish.clone(), v)).collect()
                    } else {
                        vec![index_arr(ist, ish.clone(), &vec![0; n])]
                    };
                    // one out-of-range index: the library must report an error
                    let mut bad: Vec<u64> = (0..n as u64).collect();
                    bad[n - 1] = d as u64;
                    vals.push(index_arr(ist, ish.clone(), &bad));
                    for st in STS {
                        out.push(gc(
                            Op::Gather(ax as u64),
                            vec![arr_t(&s, st), RT::Array(ish.clone(), ist)],
                            Plan::ExplicitAt(1, vals.clone(), IntMode::Reduced),
                            k.bx_struct,
                        ));
                    }
                }
            }
        }
    }
    out
}

fn t_small(st: St) -> Vec<RT> {
    vec![
        RT::Scalar(st),
        arr_t(&[2], st),
        arr_t(&[2, 3], st),
        RT::Tuple(vec![RT::Scalar(st), arr_t(&[2], st)]),
        RT::Vector(2, Box::new(arr_t(&[1, 2], st))),
        RT::Named(vec![("a".into(), arr_t(&[3], st)), ("b".into(), RT::Scalar(BIT))]),
        RT::Tuple(vec![]),
    ]
}

pub fn fam_reshape(k: &Knobs) -> Vec<GCase> {
    let ts = arrayish(k.rmax);
    let mut out = vec![];
    let n_of = |s: &Sh| s.as_ref().map(|x| numel(x)).unwrap_or(1);
    for a in ts.iter() {
        for b in ts.iter() {
            if n_of(a) != n_of(b) {
                continue;
            }
            for st in STS {
                out.push(gc(Op::Reshape(at(b, st)), vec![at(a, st)], Plan::Gen(IntMode::Reduced), k.bx_struct));
            }
        }
    }
    for st in STS {
        let a34 = arr_t(&[3, 4], st);
        let a12 = arr_t(&[12], st);
        let a26 = arr_t(&[2, 6], st);
        let tup = RT::Tuple(vec![a34.clone(), a12.clone(), a26.clone()]);
        let cases: Vec<(RT, RT)> = vec![
            (tup.clone(), RT::Vector(3, Box::new(arr_t(&[2, 2, 3], st)))),
            (tup.clone(), RT::Tuple(vec![RT::Tuple(vec![a12.clone(), a12.clone()]), a26.clone()])),
            (tup.clone(), RT::Named(vec![("x".into(), a26.clone()), ("y".into(), a34.clone()), ("z".into(), a12.clone())])),
            (RT::Vector(2, Box::new(RT::Tuple(vec![RT::Scalar(st), arr_t(&[2], st)]))), RT::Tuple(vec![arr_t(&[1], st), arr_t(&[1, 2], st), RT::Scalar(st), arr_t(&[2, 1], st)])),
            // refused: different number of leaves, different element counts, different scalar type
            (tup.clone(), RT::Vector(2, Box::new(a12.clone()))),
            (a12.clone(), arr_t(&[5], st)),
            (a12.clone(), arr_t(&[12], if st == I32 { U32 } else { I32 })),
        ];
        for (from, to) in cases {
            out.push(gc(Op::Reshape(to), vec![from], Plan::Gen(IntMode::Reduced), k.bx_struct));
        }
    }
    out
}

pub fn fam_stack(k: &Knobs, part: usize) -> Vec<GCase> {
    let ts = arrayish(k.rmax);
    let mut out = vec![];
    let mode = Plan::Gen(IntMode::Reduced);
    if part == 0 {
        // two operands, all shape pairs
        for a in ts.iter() {
            for b in ts.iter() {
                let outers: Vec<Vec<u64>> =
                    if rank(a) <= 2 && rank(b) <= 2 { vec![vec![2], vec![1, 2], vec![2, 1], vec![3]] } else { vec![vec![2]] };
                for o in outers {
                    for st in STS {
                        out.push(gc(Op::Stack(o.clone()), vec![at(a, st), at(b, st)], mode.clone(), k.bx_struct));
                    }
                }
            }
        }
    } else {
        for a in ts.iter() {
            for o in [vec![1], vec![1, 1]] {
                for st in STS {
                    out.push(gc(Op::Stack(o.clone()), vec![at(a, st)], mode.clone(), k.bx_struct));
                }
            }
            if rank(a) <= 3 {
                for (n, outers) in [(3usize, vec![vec![3u64], vec![1, 3], vec![3, 1]]), (4, vec![vec![4], vec![2, 2]]), (6, vec![vec![2, 3], vec![3, 2], vec![6]])] {
                    if n > 3 && rank(a) > 2 {
                        continue;
                    }
                    for o in outers {
                        for st in STS {
                            out.push(gc(Op::Stack(o.clone()), vec![at(a, st); n], mode.clone(), k.bx_struct));
                        }
                    }
                }
            }
        }
        // mixed shapes that broadcast to [2,3]
        let mixes: Vec<Vec<Sh>> = vec![
            vec![None, Some(vec![3]), Some(vec![2, 3])],
            vec![Some(vec![1]), Some(vec![2, 1]), Some(vec![1, 3])],
            vec![Some(vec![2, 3]), None, Some(vec![1, 1]), Some(vec![3])],
            vec![Some(vec![2, 1]), Some(vec![3]), None, Some(vec![1, 3]), Some(vec![2, 3]), Some(vec![1])],
            vec![None, None, None],
            vec![Some(vec![2]), Some(vec![3]), None], // not broadcastable
        ];
        for m in mixes {
            let n = m.len();
            let outers: Vec<Vec<u64>> = match n {
                3 => vec![vec![3], vec![3, 1]],
                4 => vec![vec![4], vec![2, 2]],
                _ => vec![vec![6], vec![2, 3], vec![3, 2]],
            };
            for o in outers {
                for st in STS {
                    out.push(gc(Op::Stack(o.clone()), m.iter().map(|s| at(s, st)).collect(), mode.clone(), k.bx_struct));
                }
            }
        }
    }
    out
}

pub fn fam_concat(k: &Knobs) -> Vec<GCase> {
    let mut out = vec![];
    let mode = Plan::Gen(IntMode::Reduced);
    for r in 1..=k.rmax {
        let ss = shapes(r, r);
        for a in ss.iter() {
            for b in ss.iter() {
                for ax in 0..=r as u64 {
                    let differing = (0..r).filter(|i| a[*i] != b[*i]).count();
                    if differing > 1 && !(r <= 2) {
                        continue; // refused anyway; probes of that kept for rank <= 2
                    }
                    for st in STS {
                        out.push(gc(Op::Concatenate(ax), vec![arr_t(a, st), arr_t(b, st)], mode.clone(), k.bx_struct));
                    }
                }
            }
        }
        // three operands differing along the axis
        for a in ss.iter() {
            for ax in 0..r {
                let mut b = a.clone();
                b[ax] = 1;
                let mut c = a.clone();
                c[ax] = 2;
                for st in STS {
                    out.push(gc(Op::Concatenate(ax as u64), vec![arr_t(a, st), arr_t(&b, st), arr_t(&c, st)], mode.clone(), k.bx_struct));
                }
            }
        }
    }
    for st in STS {
        out.push(gc(Op::Concatenate(0), vec![arr_t(&[2], st)], mode.clone(), 4)); // one operand
        out.push(gc(Op::Concatenate(0), vec![arr_t(&[2], st), RT::Scalar(st)], mode.clone(), 4));
        out.push(gc(Op::Concatenate(0), vec![arr_t(&[2], st), arr_t(&[2], if st == I32 { U32 } else { I32 })], mode.clone(), 4));
    }
    out
}

// ------------------------------------------------------------------ vectors, tuples

pub fn fam_vectors(k: &Knobs) -> Vec<GCase> {
    let mut out = vec![];
    let mode = Plan::Gen(IntMode::Reduced);
    for st in STS {
        let small = t_small(st);
        for t in small.iter() {
            for n in 0..=3u64 {
                out.push(gc(Op::Repeat(n), vec![t.clone()], mode.clone(), k.bx_struct));
            }
        }
        // zip
        for la in 1..=3u64 {
            for lb in 1..=3u64 {
                for (ta, tb) in [(0usize, 1usize), (1, 3), (2, 2), (4, 5)] {
                    out.push(gc(
                        Op::Zip,
                        vec![RT::Vector(la, Box::new(small[ta].clone())), RT::Vector(lb, Box::new(small[tb].clone()))],
                        mode.clone(),
                        k.bx_struct,
                    ));
                }
            }
            out.push(gc(
                Op::Zip,
                vec![
                    RT::Vector(la, Box::new(small[0].clone())),
                    RT::Vector(la, Box::new(small[1].clone())),
                    RT::Vector(la, Box::new(small[3].clone())),
                ],
                mode.clone(),
                k.bx_struct,
            ));
        }
        out.push(gc(Op::Zip, vec![RT::Vector(2, Box::new(small[0].clone()))], mode.clone(), 4));
        out.push(gc(Op::Zip, vec![RT::Vector(2, Box::new(small[0].clone())), small[1].clone()], mode.clone(), 4));
    }
    // array <-> vector
    for s in shapes(1, k.rmax) {
        for st in STS {
            out.push(gc(Op::ArrayToVector, vec![arr_t(&s, st)], mode.clone(), k.bx_struct));
        }
    }
    for e in arrayish(k.rmax - 1) {
        for n in 0..=3u64 {
            for st in STS {
                out.push(gc(Op::VectorToArray, vec![RT::Vector(n, Box::new(at(&e, st)))], mode.clone(), k.bx_struct));
            }
        }
    }
    for st in STS {
        out.push(gc(Op::ArrayToVector, vec![RT::Scalar(st)], mode.clone(), 4));
        out.push(gc(Op::VectorToArray, vec![RT::Vector(2, Box::new(t_small(st)[3].clone()))], mode.clone(), 4));
        out.push(gc(Op::VectorToArray, vec![arr_t(&[2], st)], mode.clone(), 4));
    }
    out
}

pub fn fam_tuples(k: &Knobs) -> Vec<GCase> {
    let mut out = vec![];
    let mode = Plan::Gen(IntMode::Reduced);
    let names = ["a", "b", "c"];
    for st in STS {
        let small = t_small(st);
        // operand lists of length 0..3
        let mut lists: Vec<Vec<RT>> = vec![vec![]];
        for t in small.iter() {
            lists.push(vec![t.clone()]);
        }
        for i in 0..small.len() {
            for j in 0..small.len() {
                lists.push(vec![small[i].clone(), small[j].clone()]);
            }
        }
        lists.push(vec![small[0].clone(), small[1].clone(), small[2].clone()]);
        lists.push(vec![small[3].clone(), small[4].clone(), small[5].clone()]);
        for l in lists.iter() {
            out.push(gc(Op::CreateTuple, l.clone(), mode.clone(), k.bx_struct));
            let nm: Vec<String> = names[..l.len()].iter().map(|s| s.to_string()).collect();
            out.push(gc(Op::CreateNamedTuple(nm.clone()), l.clone(), mode.clone(), k.bx_struct));
            // element access on an input tuple / named tuple
            let tt = RT::Tuple(l.clone());
            let nt = RT::Named(nm.iter().cloned().zip(l.iter().cloned()).collect());
            for i in 0..=l.len() as u64 {
                out.push(gc(Op::TupleGet(i), vec![tt.clone()], mode.clone(), k.bx_struct));
                out.push(gc(Op::TupleGet(i), vec![nt.clone()], mode.clone(), k.bx_struct));
            }
            for n in names.iter() {
                out.push(gc(Op::NamedTupleGet(n.to_string()), vec![nt.clone()], mode.clone(), k.bx_struct));
            }
            if l.len() == 2 {
                out.push(gc(Op::CreateNamedTuple(vec!["a".into(), "a".into()]), l.clone(), mode.clone(), 4));
            }
        }
        out.push(gc(Op::TupleGet(0), vec![small[1].clone()], mode.clone(), 4));
        out.push(gc(Op::NamedTupleGet("a".into()), vec![small[3].clone()], mode.clone(), 4));
        // vectors
        for t in small.iter() {
            for n in 0..=3usize {
                out.push(gc(Op::CreateVector(t.clone()), vec![t.clone(); n], mode.clone(), k.bx_struct));
            }
            out.push(gc(Op::CreateVector(t.clone()), vec![t.clone(), small[if *t == small[0] { 1 } else { 0 }].clone()], mode.clone(), 4));
            for n in 1..=3u64 {
                for ist in [U64, U32, U8, I32] {
                    let idx: Vec<RV> =
                        (0..=n).map(|i| RV::A(Arr { st: ist, shape: None, data: vec![i as u128] })).collect();
                    out.push(gc(
                        Op::VectorGet,
                        vec![RT::Vector(n, Box::new(t.clone())), RT::Scalar(ist)],
                        Plan::ExplicitAt(1, idx, IntMode::Reduced),
                        k.bx_struct,
                    ));
                }
            }
        }
    }
    out
}

// ------------------------------------------------------------------ conversions, truncation, constants

pub fn fam_a2b_b2a(k: &Knobs) -> Vec<GCase> {
    let mut out = vec![];
    for a in arrayish(k.rmax) {
        for st in STS {
            out.push(gc(Op::A2B, vec![at(&a, st)], Plan::Gen(IntMode::Full), 4));
        }
    }
    let lead: Vec<Vec<u64>> = vec![vec![], vec![1], vec![2], vec![3], vec![2, 3], vec![1, 2], vec![2, 1, 2]];
    for l in lead {
        for st in STS {
            if st.is_bit() {
                continue;
            }
            // operand values: the binary forms of the integer fills (computed by the reference a2b) and bit patterns
            let it = if l.is_empty() { RT::Scalar(st) } else { RT::Array(l.clone(), st) };
            let mut sh = l.clone();
            sh.push(st.bits as u64);
            let bt = RT::Array(sh.clone(), BIT);
            let mut vals: Vec<Vec<RV>> = vec![];
            for f in super::fills::fills(&[it.clone()], IntMode::Full, 0) {
                let ints = super::fills::operands(&[it.clone()], &f);
                if let Ok(b) = eval(&Op::A2B, &ints) {
                    vals.push(vec![b]);
                }
            }
            for f in super::fills::fills(&[bt.clone()], IntMode::Reduced, 0) {
                vals.push(super::fills::operands(&[bt.clone()], &f));
            }
            out.push(gc(Op::B2A(st), vec![bt.clone()], Plan::Explicit(vals.clone()), 0));
            // wrong last dimension / wrong source type / bit target: refused
            let mut wrong = l.clone();
            wrong.push(st.bits as u64 + 1);
            out.push(gc(Op::B2A(st), vec![RT::Array(wrong, BIT)], Plan::Gen(IntMode::Reduced), 0));
            out.push(gc(Op::B2A(st), vec![RT::Array(sh.clone(), U8)], Plan::Gen(IntMode::Reduced), 0));
        }
    }
    out.push(gc(Op::B2A(BIT), vec![arr_t(&[2, 1], BIT)], Plan::Gen(IntMode::Reduced), 4));
    out
}

pub fn fam_truncate(_k: &Knobs) -> Vec<GCase> {
    let mut out = vec![];
    let scales: Vec<u128> = vec![
        1,
        2,
        3,
        10,
        1 << 7,
        255,
        1 << 31,
        1 << 63,
        1 << 64,
        (1 << 64) + 1,
        (1 << 100) + 5,
        (1u128 << 127) - 1,
        1u128 << 127,
        u128::MAX,
        0,
    ];
    let shs: Vec<Sh> = vec![None, Some(vec![1]), Some(vec![3]), Some(vec![11]), Some(vec![2, 3]), Some(vec![2, 1, 2])];
    for sh in shs {
        for sc in scales.iter() {
            for st in STS {
                out.push(gc(Op::Truncate(*sc), vec![at(&sh, st)], Plan::Gen(IntMode::Full), 12));
            }
        }
    }
    for st in STS {
        out.push(gc(Op::Truncate(2), vec![RT::Tuple(vec![RT::Scalar(st)])], Plan::Gen(IntMode::Reduced), 4));
    }
    out
}

pub fn fam_constants(k: &Knobs) -> Vec<GCase> {
    let mut out = vec![];
    let none = Plan::Explicit(vec![vec![]]);
    for a in arrayish(k.rmax) {
        for st in STS {
            let t = at(&a, st);
            out.push(gc(Op::Zeros(t.clone()), vec![], none.clone(), 0));
            out.push(gc(Op::Ones(t.clone()), vec![], none.clone(), 0));
            if rank(&a) <= 2 {
                for f in super::fills::fills(&[t.clone()], IntMode::Full, 4) {
                    let v = super::fills::operands(&[t.clone()], &f).remove(0);
                    out.push(gc(Op::Constant(v), vec![], none.clone(), 0));
                }
            }
        }
    }
    for st in STS {
        for t in t_small(st) {
            out.push(gc(Op::Zeros(t.clone()), vec![], none.clone(), 0));
            out.push(gc(Op::Ones(t.clone()), vec![], none.clone(), 0));
            for f in super::fills::fills(&[t.clone()], IntMode::Reduced, 4) {
                let v = super::fills::operands(&[t.clone()], &f).remove(0);
                out.push(gc(Op::Constant(v), vec![], none.clone(), 0));
            }
        }
    }
    out
}

// ------------------------------------------------------------------ permutations

pub fn fam_perms(k: &Knobs) -> Vec<GCase> {
    let mut out = vec![];
    let nmax = if k.thorough { 6 } else { 5 };
    for n in 1..=nmax {
        for st in [U64, U8, U16, U32, I32, BIT, St { bits: 128, signed: false }] {
            let mut vals: Vec<Vec<RV>> = permutations(n).iter().map(|p| vec![index_arr(st, vec![n as u64], p)]).collect();
            // not permutations: a repeated element, an element out of range
            vals.push(vec![index_arr(st, vec![n as u64], &vec![0; n])]);
            if n >= 2 {
                let mut bad: Vec<u64> = (0..n as u64).collect();
                bad[0] = n as u64;
                vals.push(vec![index_arr(st, vec![n as u64], &bad)]);
                let mut dup: Vec<u64> = (0..n as u64).collect();
                dup[n - 1] = 0;
                vals.push(vec![index_arr(st, vec![n as u64], &dup)]);
            }
            out.push(gc(Op::InversePermutation, vec![arr_t(&[n as u64], st)], Plan::Explicit(vals), 0));
        }
    }
    out.push(gc(Op::InversePermutation, vec![arr_t(&[2, 2], U64)], Plan::Gen(IntMode::Reduced), 0));
    out.push(gc(Op::InversePermutation, vec![RT::Scalar(U64)], Plan::Gen(IntMode::Reduced), 0));
    // apply_permutation / apply_inverse_permutation
    let mut ss = shapes(1, k.rmax);
    ss.push(vec![4]);
    ss.push(vec![4, 2]);
    if k.thorough {
        ss.push(vec![5]);
    }
    for s in ss {
        let n = s[0] as usize;
        let psts: Vec<St> = if s.len() == 1 { vec![U64, U8, U16, U32, I32, BIT] } else { vec![U64, U8] };
        for pst in psts {
            let mut vals: Vec<RV> = permutations(n).iter().map(|p| index_arr(pst, vec![n as u64], p)).collect();
            vals.push(index_arr(pst, vec![n as u64], &vec![0; n])); // for n = 1 this is the identity
            if n >= 2 {
                let mut bad: Vec<u64> = (0..n as u64).collect();
                bad[n - 1] = n as u64;
                vals.push(index_arr(pst, vec![n as u64], &bad));
            }
            for inv in [false, true] {
                for st in STS {
                    out.push(gc(
                        Op::ApplyPermutation(inv),
                        vec![arr_t(&s, st), arr_t(&[n as u64], pst)],
                        Plan::ExplicitAt(1, vals.clone(), IntMode::Reduced),
                        k.bx_struct,
                    ));
                }
            }
        }
    }
    for st in STS {
        // wrong permutation length, scalar operand
        out.push(gc(Op::ApplyPermutation(false), vec![arr_t(&[3], st), arr_t(&[2], U64)], Plan::Gen(IntMode::Reduced), 4));
        out.push(gc(Op::ApplyPermutation(false), vec![RT::Scalar(st), arr_t(&[1], U64)], Plan::Gen(IntMode::Reduced), 4));
    }
    out
}

pub fn fam_segcumsum(k: &Knobs) -> Vec<GCase> {
    let mut out = vec![];
    let mut ss = shapes(1, k.rmax);
    ss.push(vec![4]);
    ss.push(vec![5, 2]);
    for s in ss {
        let n = s[0];
        for st in STS {
            let first = if s.len() == 1 { RT::Scalar(st) } else { RT::Array(s[1..].to_vec(), st) };
            // for bit inputs all three operands are bits: bound the exhaustive part by bx_arith
            let bx = if st.is_bit() { k.bx_arith } else { 6 };
            out.push(gc(Op::SegmentCumSum, vec![arr_t(&s, st), arr_t(&[n], BIT), first], Plan::Gen(IntMode::Reduced), bx));
        }
    }
    for st in STS {
        out.push(gc(Op::SegmentCumSum, vec![arr_t(&[3], st), arr_t(&[2], BIT), RT::Scalar(st)], Plan::Gen(IntMode::Reduced), 4));
        out.push(gc(Op::SegmentCumSum, vec![arr_t(&[2, 2], st), arr_t(&[2], BIT), RT::Scalar(st)], Plan::Gen(IntMode::Reduced), 4));
    }
    out
}
