//! Operand values: the element alphabet {0, 1, 2, -1, min, max, 2^63, 2^64, 2^64+1, 2^100+5, 2^127}
//! reduced to the type, laid out in position-dependent patterns; bit arrays: all values up to a
//! bound, fixed patterns above it.
use super::refsem::*;
use serde::{Deserialize, Serialize};

pub fn alphabet(st: St) -> [u128; 11] {
    let m = st.mask();
    let w = st.bits;
    let min = if st.signed { 1u128 << (w - 1) } else { 0 };
    let max = if st.signed { (1u128 << (w - 1)) - 1 } else { m };
    [
        0,
        1 & m,
        2 & m,
        m,
        min,
        max,
        (1u128 << 63) & m,
        (1u128 << 64) & m,
        ((1u128 << 64) + 1) & m,
        ((1u128 << 100) + 5) & m,
        (1u128 << 127) & m,
    ]
}

#[derive(Clone, Debug, PartialEq, Serialize, Deserialize)]
pub enum IntFill {
    /// (i+1) * small odd multiplier (different per leaf): all elements of a leaf differ
    Ramp,
    /// (i+1) * large odd 128-bit multiplier: all elements differ, all bit positions in use
    RampMul,
    /// alphabet[(i + off + 4*leaf) mod 11]
    Ext(u32),
    /// operand 0: alphabet[(i + a) mod 11], operand 1: alphabet[(i + b) mod 11]
    ExtPair(u32, u32),
}

#[derive(Clone, Debug, PartialEq, Serialize, Deserialize)]
pub enum BitFill {
    /// bit p (global position over all bit leaves) of the number
    Exh(u64),
    Pat(u32),
}

#[derive(Clone, Debug, PartialEq, Serialize, Deserialize)]
pub struct Fill {
    pub int: IntFill,
    pub bit: BitFill,
}

const SMALL: [u128; 4] = [1, 3, 7, 13];
const BIG: [u128; 4] = [
    0x9E3779B97F4A7C15F39CC0605CEDC835,
    0xC2B2AE3D27D4EB4F165667B19E3779F9,
    0xD6E8FEB86659FD93A0761D6478BD642F,
    0x8CB92BA72F3D8DD7E7037ED1A0B428DB,
];

fn mix(mut z: u64) -> u64 {
    z = z.wrapping_add(0x9E3779B97F4A7C15);
    z = (z ^ (z >> 30)).wrapping_mul(0xBF58476D1CE4E5B9);
    z = (z ^ (z >> 27)).wrapping_mul(0x94D049BB133111EB);
    z ^ (z >> 31)
}

struct Ctx {
    leaf: usize,
    operand: usize,
    bitpos: u64,
}

fn leaf(st: St, shape: Option<Vec<u64>>, f: &Fill, c: &mut Ctx) -> Arr {
    let n = shape.as_ref().map(|s| numel(s)).unwrap_or(1);
    let m = st.mask();
    let l = c.leaf;
    let data: Vec<u128> = if st.is_bit() {
        (0..n)
            .map(|_| {
                let p = c.bitpos;
                c.bitpos += 1;
                let b = match f.bit {
                    BitFill::Exh(v) => {
                        if p < 64 {
                            (v >> p) & 1
                        } else {
                            0
                        }
                    }
                    BitFill::Pat(0) => 1,
                    BitFill::Pat(1) => p % 2,
                    BitFill::Pat(2) => (p % 3 == 0) as u64,
                    BitFill::Pat(3) => (p / 2) % 2,
                    BitFill::Pat(7) => 0,
                    BitFill::Pat(k) => mix(p * 16 + k as u64) & 1,
                };
                b as u128
            })
            .collect()
    } else {
        let al = alphabet(st);
        (0..n)
            .map(|i| {
                let v = match f.int {
                    IntFill::Ramp => ((i as u128 + 1).wrapping_mul(SMALL[l % 4])).wrapping_add(31 * l as u128),
                    IntFill::RampMul => (i as u128 + 1 + 5 * l as u128).wrapping_mul(BIG[l % 4]),
                    IntFill::Ext(off) => al[(i + off as usize + 4 * l) % 11],
                    IntFill::ExtPair(a, b) => {
                        let off = if c.operand == 0 { a } else { b };
                        al[(i + off as usize) % 11]
                    }
                };
                v & m
            })
            .collect()
    };
    c.leaf += 1;
    Arr { st, shape, data }
}

fn value(t: &RT, f: &Fill, c: &mut Ctx) -> RV {
    match t {
        RT::Scalar(st) => RV::A(leaf(*st, None, f, c)),
        RT::Array(sh, st) => RV::A(leaf(*st, Some(sh.clone()), f, c)),
        RT::Tuple(ts) => RV::Tuple(ts.iter().map(|x| value(x, f, c)).collect()),
        RT::Named(ts) => RV::Named(ts.iter().map(|(n, x)| (n.clone(), value(x, f, c))).collect()),
        RT::Vector(n, e) => RV::Vector((**e).clone(), (0..*n).map(|_| value(e, f, c)).collect()),
    }
}

/// operand values of the given types under a fill
pub fn operands(args: &[RT], f: &Fill) -> Vec<RV> {
    let mut c = Ctx { leaf: 0, operand: 0, bitpos: 0 };
    let mut out = vec![];
    for (i, t) in args.iter().enumerate() {
        c.operand = i;
        out.push(value(t, f, &mut c));
    }
    out
}

/// (number of bit elements, number of integer leaves, smallest integer leaf size)
pub fn census(args: &[RT]) -> (u64, usize, usize) {
    fn go(t: &RT, nb: &mut u64, ni: &mut usize, mn: &mut usize) {
        match t {
            RT::Scalar(st) => {
                if st.is_bit() {
                    *nb += 1
                } else {
                    *ni += 1;
                    *mn = (*mn).min(1)
                }
            }
            RT::Array(sh, st) => {
                if st.is_bit() {
                    *nb += numel(sh) as u64
                } else {
                    *ni += 1;
                    *mn = (*mn).min(numel(sh))
                }
            }
            RT::Tuple(ts) => ts.iter().for_each(|x| go(x, nb, ni, mn)),
            RT::Named(ts) => ts.iter().for_each(|x| go(&x.1, nb, ni, mn)),
            RT::Vector(n, e) => (0..*n).for_each(|_| go(e, nb, ni, mn)),
        }
    }
    let (mut nb, mut ni, mut mn) = (0, 0, usize::MAX);
    for t in args {
        go(t, &mut nb, &mut ni, &mut mn);
    }
    (nb, ni, mn)
}

pub fn bit_fills(nb: u64, bx: u32) -> Vec<BitFill> {
    if nb == 0 {
        vec![BitFill::Pat(0)]
    } else if nb <= bx as u64 {
        (0..(1u64 << nb)).map(BitFill::Exh).collect()
    } else {
        (0..8).map(BitFill::Pat).collect()
    }
}

#[derive(Clone, Copy, Debug, PartialEq, Serialize, Deserialize)]
pub enum IntMode {
    /// Ramp, RampMul and enough Ext offsets that every alphabet value occurs in every leaf position class
    Full,
    /// Ramp, RampMul, Ext(0), Ext(5)
    Reduced,
    /// binary arithmetic: Ramp, RampMul and ExtPair offsets such that all 121 alphabet pairs meet
    PairsFull,
    /// binary arithmetic: Ramp, RampMul and 5 ExtPair offsets
    PairsFew,
}

pub fn int_fills(ni: usize, mn: usize, mode: IntMode) -> Vec<IntFill> {
    if ni == 0 {
        return vec![IntFill::Ramp];
    }
    let mut v = vec![IntFill::Ramp, IntFill::RampMul];
    let step = mn.clamp(1, 11);
    match mode {
        IntMode::Full => {
            for off in (0..11).step_by(step) {
                v.push(IntFill::Ext(off as u32));
            }
        }
        IntMode::Reduced => {
            v.push(IntFill::Ext(0));
            v.push(IntFill::Ext(5));
        }
        IntMode::PairsFull => {
            for a in (0..11).step_by(step) {
                for b in 0..11 {
                    v.push(IntFill::ExtPair(a as u32, b as u32));
                }
            }
        }
        IntMode::PairsFew => {
            for (a, b) in [(0, 0), (0, 4), (3, 9), (5, 6), (8, 2)] {
                v.push(IntFill::ExtPair(a, b));
            }
        }
    }
    v
}

/// fills for a list of operand types: integer fills x bit fills (only the needed factor if one kind is absent)
pub fn fills(args: &[RT], mode: IntMode, bx: u32) -> Vec<Fill> {
    let (nb, ni, mn) = census(args);
    let ints = int_fills(ni, mn, mode);
    let bits = bit_fills(nb, bx);
    let mut out = vec![];
    for i in ints.iter() {
        for b in bits.iter() {
            out.push(Fill { int: i.clone(), bit: b.clone() });
        }
    }
    out
}
