//! E3 - reference interpreter of the documented semantics of ciphercore's primitive operations.
//!
//! Written from the doc comments of the `Graph` methods (ciphercore-base/src/graphs.rs) and from the
//! NumPy rules those comments cite (broadcasting, dot, matmul, sum, cumsum, transpose, basic
//! indexing, take, concatenate, reshape). A value is a tree whose leaves are
//! (scalar type, shape, residues): every element is a u128 residue reduced mod 2^w, arrays are
//! row-major (C order). All arithmetic is exact arithmetic mod 2^w: the product/sum is formed in
//! u128 with wrap-around (2^w divides 2^128) and then masked to w bits.
//!
//! Style: every array operation is written as "result[idx] = formula over operand[idx']" on
//! multi-indices, the way NumPy's documentation states it; no flat-offset tricks. This module uses
//! nothing from ciphercore (no types, no helpers), in particular nothing from simple_evaluator.rs,
//! broadcast.rs, slices.rs or bytes.rs.
use serde::{Deserialize, Serialize};

#[derive(Clone, Copy, Debug, PartialEq, Eq, Hash, Serialize, Deserialize)]
pub struct St {
    pub bits: u32,
    pub signed: bool,
}
pub const BIT: St = St { bits: 1, signed: false };

impl St {
    pub fn mask(&self) -> u128 {
        if self.bits == 128 {
            u128::MAX
        } else {
            (1u128 << self.bits) - 1
        }
    }
    pub fn is_bit(&self) -> bool {
        self.bits == 1
    }
    pub fn name(&self) -> String {
        if self.bits == 1 {
            "bit".into()
        } else {
            format!("{}{}", if self.signed { "i" } else { "u" }, self.bits)
        }
    }
}

/// reference type
#[derive(Clone, Debug, PartialEq, Eq, Serialize, Deserialize)]
pub enum RT {
    Scalar(St),
    Array(Vec<u64>, St),
    Tuple(Vec<RT>),
    Named(Vec<(String, RT)>),
    Vector(u64, Box<RT>),
}

pub mod u128s {
    //! u128 as decimal strings in JSON
    use serde::{Deserialize, Deserializer, Serializer};
    pub fn serialize<S: Serializer>(v: &Vec<u128>, s: S) -> Result<S::Ok, S::Error> {
        s.collect_seq(v.iter().map(|x| x.to_string()))
    }
    pub fn deserialize<'de, D: Deserializer<'de>>(d: D) -> Result<Vec<u128>, D::Error> {
        let v: Vec<String> = Vec::deserialize(d)?;
        v.iter()
            .map(|s| s.parse::<u128>().map_err(serde::de::Error::custom))
            .collect()
    }
}
pub mod u128one {
    use serde::{Deserialize, Deserializer, Serializer};
    pub fn serialize<S: Serializer>(v: &u128, s: S) -> Result<S::Ok, S::Error> {
        s.serialize_str(&v.to_string())
    }
    pub fn deserialize<'de, D: Deserializer<'de>>(d: D) -> Result<u128, D::Error> {
        let v = String::deserialize(d)?;
        v.parse::<u128>().map_err(serde::de::Error::custom)
    }
}

/// scalar (shape None) or array (shape Some(non-empty))
#[derive(Clone, Debug, PartialEq, Eq, Serialize, Deserialize)]
pub struct Arr {
    pub st: St,
    pub shape: Option<Vec<u64>>,
    #[serde(with = "u128s")]
    pub data: Vec<u128>,
}

#[derive(Clone, Debug, PartialEq, Eq, Serialize, Deserialize)]
pub enum RV {
    A(Arr),
    Tuple(Vec<RV>),
    Named(Vec<(String, RV)>),
    /// element type, elements
    Vector(RT, Vec<RV>),
}

#[derive(Clone, Debug, PartialEq, Eq, Serialize, Deserialize)]
pub enum Sl {
    Single(i64),
    Sub(Option<i64>, Option<i64>, Option<i64>),
    Ellipsis,
}

#[derive(Clone, Debug, PartialEq, Eq, Serialize, Deserialize)]
pub enum Op {
    Add,
    Subtract,
    Multiply,
    MixedMultiply,
    Dot,
    Matmul,
    Gemm(bool, bool),
    Sum(Vec<u64>),
    CumSum(u64),
    PermuteAxes(Vec<u64>),
    Get(Vec<u64>),
    GetSlice(Vec<Sl>),
    Gather(u64),
    Reshape(RT),
    Stack(Vec<u64>),
    Concatenate(u64),
    Repeat(u64),
    Zip,
    ArrayToVector,
    VectorToArray,
    CreateTuple,
    TupleGet(u64),
    CreateNamedTuple(Vec<String>),
    NamedTupleGet(String),
    CreateVector(RT),
    VectorGet,
    A2B,
    B2A(St),
    Truncate(#[serde(with = "u128one")] u128),
    Zeros(RT),
    Ones(RT),
    Constant(RV),
    InversePermutation,
    ApplyPermutation(bool),
    SegmentCumSum,
}

impl Op {
    pub fn name(&self) -> &'static str {
        match self {
            Op::Add => "Add",
            Op::Subtract => "Subtract",
            Op::Multiply => "Multiply",
            Op::MixedMultiply => "MixedMultiply",
            Op::Dot => "Dot",
            Op::Matmul => "Matmul",
            Op::Gemm(_, _) => "Gemm",
            Op::Sum(_) => "Sum",
            Op::CumSum(_) => "CumSum",
            Op::PermuteAxes(_) => "PermuteAxes",
            Op::Get(_) => "Get",
            Op::GetSlice(_) => "GetSlice",
            Op::Gather(_) => "Gather",
            Op::Reshape(_) => "Reshape",
            Op::Stack(_) => "Stack",
            Op::Concatenate(_) => "Concatenate",
            Op::Repeat(_) => "Repeat",
            Op::Zip => "Zip",
            Op::ArrayToVector => "ArrayToVector",
            Op::VectorToArray => "VectorToArray",
            Op::CreateTuple => "CreateTuple",
            Op::TupleGet(_) => "TupleGet",
            Op::CreateNamedTuple(_) => "CreateNamedTuple",
            Op::NamedTupleGet(_) => "NamedTupleGet",
            Op::CreateVector(_) => "CreateVector",
            Op::VectorGet => "VectorGet",
            Op::A2B => "A2B",
            Op::B2A(_) => "B2A",
            Op::Truncate(_) => "Truncate",
            Op::Zeros(_) => "Zeros",
            Op::Ones(_) => "Ones",
            Op::Constant(_) => "Constant",
            Op::InversePermutation => "InversePermutation",
            Op::ApplyPermutation(_) => "ApplyPermutation",
            Op::SegmentCumSum => "SegmentCumSum",
        }
    }
}

#[derive(Clone, Debug, PartialEq, Eq)]
pub enum RefErr {
    /// the documented semantics do not define a result for these argument TYPES / parameters
    Undefined(String),
    /// NumPy would give an array with a zero dimension; ciphercore has no such arrays
    Empty,
    /// types are fine but the DATA violates a documented precondition; the library must return an error
    Data(String),
}

type R<T> = Result<T, RefErr>;
fn undef<T>(s: &str) -> R<T> {
    Err(RefErr::Undefined(s.to_string()))
}

// ---------------------------------------------------------------- multi-index helpers

pub fn numel(dims: &[u64]) -> usize {
    dims.iter().product::<u64>() as usize
}

/// position of multi-index idx in the row-major enumeration of dims
fn flat(idx: &[u64], dims: &[u64]) -> usize {
    assert_eq!(idx.len(), dims.len());
    let mut p = 0usize;
    for k in 0..dims.len() {
        assert!(idx[k] < dims[k]);
        p = p * dims[k] as usize + idx[k] as usize;
    }
    p
}

/// all multi-indices of dims in row-major order (the single empty index for rank 0)
fn all_indices(dims: &[u64]) -> Vec<Vec<u64>> {
    let mut out = vec![vec![]];
    for d in dims {
        let mut next = Vec::with_capacity(out.len() * *d as usize);
        for pre in out.iter() {
            for x in 0..*d {
                let mut v = pre.clone();
                v.push(x);
                next.push(v);
            }
        }
        out = next;
    }
    out
}

impl Arr {
    pub fn dims(&self) -> Vec<u64> {
        self.shape.clone().unwrap_or_default()
    }
    pub fn rank(&self) -> usize {
        self.dims().len()
    }
    pub fn at(&self, idx: &[u64]) -> u128 {
        self.data[flat(idx, &self.dims())]
    }
    /// rank 0 gives a scalar
    pub fn build(st: St, dims: Vec<u64>, mut f: impl FnMut(&[u64]) -> u128) -> Arr {
        let m = st.mask();
        let data: Vec<u128> = all_indices(&dims).iter().map(|i| f(i) & m).collect();
        Arr { st, shape: if dims.is_empty() { None } else { Some(dims) }, data }
    }
    pub fn rt(&self) -> RT {
        match &self.shape {
            None => RT::Scalar(self.st),
            Some(s) => RT::Array(s.clone(), self.st),
        }
    }
}

pub fn type_of(v: &RV) -> RT {
    match v {
        RV::A(a) => a.rt(),
        RV::Tuple(vs) => RT::Tuple(vs.iter().map(type_of).collect()),
        RV::Named(vs) => RT::Named(vs.iter().map(|(n, x)| (n.clone(), type_of(x))).collect()),
        RV::Vector(t, vs) => RT::Vector(vs.len() as u64, Box::new(t.clone())),
    }
}

fn arr<'a>(args: &'a [RV], i: usize) -> R<&'a Arr> {
    match args.get(i) {
        Some(RV::A(a)) => Ok(a),
        Some(_) => undef("operand is not a scalar or an array"),
        None => undef("missing operand"),
    }
}
fn need_args(args: &[RV], n: usize) -> R<()> {
    if args.len() != n {
        undef("wrong number of operands")
    } else {
        Ok(())
    }
}

// ---------------------------------------------------------------- modular arithmetic

fn madd(a: u128, b: u128, st: St) -> u128 {
    a.wrapping_add(b) & st.mask()
}
fn msub(a: u128, b: u128, st: St) -> u128 {
    a.wrapping_sub(b) & st.mask()
}
fn mmul(a: u128, b: u128, st: St) -> u128 {
    a.wrapping_mul(b) & st.mask()
}

// ---------------------------------------------------------------- broadcasting (NumPy rules)

/// NumPy: shapes are aligned at their trailing dimensions; two dimensions are compatible when they
/// are equal or one of them is 1; a missing dimension counts as 1.
fn broadcast_dims(a: &[u64], b: &[u64]) -> R<Vec<u64>> {
    let r = a.len().max(b.len());
    let mut out = vec![0u64; r];
    for k in 0..r {
        // k counts from the trailing end
        let da = if k < a.len() { a[a.len() - 1 - k] } else { 1 };
        let db = if k < b.len() { b[b.len() - 1 - k] } else { 1 };
        let d = if da == db {
            da
        } else if da == 1 {
            db
        } else if db == 1 {
            da
        } else {
            return undef("shapes cannot be broadcast");
        };
        out[r - 1 - k] = d;
    }
    Ok(out)
}

/// element of `a` that the broadcast result position idx (over dims_out) reads
fn bget(a: &Arr, idx: &[u64]) -> u128 {
    let ad = a.dims();
    let off = idx.len() - ad.len();
    let ai: Vec<u64> = (0..ad.len()).map(|k| if ad[k] == 1 { 0 } else { idx[off + k] }).collect();
    a.at(&ai)
}

fn elementwise(a: &Arr, b: &Arr, st: St, f: impl Fn(u128, u128) -> u128) -> R<Arr> {
    let dims = broadcast_dims(&a.dims(), &b.dims())?;
    Ok(Arr::build(st, dims, |idx| f(bget(a, idx), bget(b, idx))))
}

// ---------------------------------------------------------------- products

/// numpy.matmul on arrays of rank >= 2 with broadcast batch dimensions
fn matmul2(a: &Arr, b: &Arr) -> R<Arr> {
    let (ad, bd) = (a.dims(), b.dims());
    if ad.len() < 2 || bd.len() < 2 {
        return undef("matmul2 needs rank >= 2");
    }
    let (n, k) = (ad[ad.len() - 2], ad[ad.len() - 1]);
    let (k2, m) = (bd[bd.len() - 2], bd[bd.len() - 1]);
    if k != k2 {
        return undef("inner dimensions differ");
    }
    let abatch = &ad[..ad.len() - 2];
    let bbatch = &bd[..bd.len() - 2];
    let batch = broadcast_dims(abatch, bbatch)?;
    let mut dims = batch.clone();
    dims.push(n);
    dims.push(m);
    let st = a.st;
    let nb = batch.len();
    Ok(Arr::build(st, dims, |idx| {
        let (i, j) = (idx[nb], idx[nb + 1]);
        let bi = &idx[..nb];
        let pick = |bdims: &[u64]| -> Vec<u64> {
            let off = nb - bdims.len();
            (0..bdims.len()).map(|q| if bdims[q] == 1 { 0 } else { bi[off + q] }).collect()
        };
        let mut acc = 0u128;
        for t in 0..k {
            let mut ia = pick(abatch);
            ia.push(i);
            ia.push(t);
            let mut ib = pick(bbatch);
            ib.push(t);
            ib.push(j);
            acc = madd(acc, mmul(a.at(&ia), b.at(&ib), st), st);
        }
        acc
    }))
}

fn with_dims(a: &Arr, dims: Vec<u64>) -> Arr {
    assert_eq!(numel(&dims), a.data.len());
    Arr { st: a.st, shape: if dims.is_empty() { None } else { Some(dims) }, data: a.data.clone() }
}

/// numpy.matmul: no scalars; a rank-1 first operand is promoted by prepending a 1, a rank-1 second
/// operand by appending a 1, and the added dimension is removed from the result.
fn matmul(a: &Arr, b: &Arr) -> R<Arr> {
    if a.st != b.st {
        return undef("scalar types differ");
    }
    if a.rank() == 0 || b.rank() == 0 {
        return undef("matmul does not take scalars");
    }
    let (a1, b1) = (a.rank() == 1, b.rank() == 1);
    let ap = if a1 { with_dims(a, vec![1, a.dims()[0]]) } else { a.clone() };
    let bp = if b1 { with_dims(b, vec![b.dims()[0], 1]) } else { b.clone() };
    let r = matmul2(&ap, &bp)?;
    // r.dims() = batch ++ [n, m]; n is the prepended 1 if a1, m the appended 1 if b1
    let mut dims = r.dims();
    let l = dims.len();
    if b1 {
        dims.remove(l - 1);
    }
    if a1 {
        dims.remove(l - 2);
    }
    Ok(with_dims(&r, dims))
}

fn swap_last_two(a: &Arr) -> R<Arr> {
    let d = a.dims();
    if d.len() < 2 {
        return undef("transposition needs rank >= 2");
    }
    let r = d.len();
    let mut nd = d.clone();
    nd.swap(r - 1, r - 2);
    Ok(Arr::build(a.st, nd, |idx| {
        let mut s = idx.to_vec();
        s.swap(r - 1, r - 2);
        a.at(&s)
    }))
}

/// numpy.dot
fn dot(a: &Arr, b: &Arr) -> R<Arr> {
    if a.st != b.st {
        return undef("scalar types differ");
    }
    let st = a.st;
    if a.rank() == 0 || b.rank() == 0 {
        return elementwise(a, b, st, |x, y| mmul(x, y, st));
    }
    let (ad, bd) = (a.dims(), b.dims());
    let k = ad[ad.len() - 1];
    if bd.len() == 1 {
        // sum product over the last axis of a and b
        if bd[0] != k {
            return undef("dot: dimensions differ");
        }
        let dims = ad[..ad.len() - 1].to_vec();
        return Ok(Arr::build(st, dims, |idx| {
            let mut acc = 0;
            for t in 0..k {
                let mut ia = idx.to_vec();
                ia.push(t);
                acc = madd(acc, mmul(a.at(&ia), b.at(&[t]), st), st);
            }
            acc
        }));
    }
    // dot(a, b)[i.., j.., m] = sum_t a[i.., t] * b[j.., t, m]
    if bd[bd.len() - 2] != k {
        return undef("dot: dimensions differ");
    }
    let na = ad.len() - 1;
    let mut dims = ad[..na].to_vec();
    dims.extend_from_slice(&bd[..bd.len() - 2]);
    dims.push(bd[bd.len() - 1]);
    Ok(Arr::build(st, dims, |idx| {
        let mut acc = 0;
        for t in 0..k {
            let mut ia = idx[..na].to_vec();
            ia.push(t);
            let rest = &idx[na..];
            let mut ib = rest[..rest.len() - 1].to_vec();
            ib.push(t);
            ib.push(rest[rest.len() - 1]);
            acc = madd(acc, mmul(a.at(&ia), b.at(&ib), st), st);
        }
        acc
    }))
}

// ---------------------------------------------------------------- slicing (NumPy basic indexing)

/// Python's slice.indices(n) followed by range(start, stop, step)
fn slice_positions(n: u64, b: Option<i64>, e: Option<i64>, s: Option<i64>) -> R<Vec<u64>> {
    let n = n as i64;
    let step = s.unwrap_or(1);
    if step == 0 {
        return undef("slice step cannot be zero");
    }
    let (lower, upper) = if step < 0 { (-1, n - 1) } else { (0, n) };
    let clamp = |x: i64| -> i64 {
        if x < 0 {
            (x + n).max(lower)
        } else {
            x.min(upper)
        }
    };
    let start = match b {
        None => {
            if step < 0 {
                upper
            } else {
                lower
            }
        }
        Some(x) => clamp(x),
    };
    let stop = match e {
        None => {
            if step < 0 {
                lower
            } else {
                upper
            }
        }
        Some(x) => clamp(x),
    };
    let mut out = vec![];
    let mut i = start;
    while (step > 0 && i < stop) || (step < 0 && i > stop) {
        out.push(i as u64);
        i += step;
    }
    Ok(out)
}

enum Sel {
    One(u64),
    Many(Vec<u64>),
}

fn get_slice(a: &Arr, slice: &[Sl]) -> R<Arr> {
    let ad = a.dims();
    if ad.is_empty() {
        return undef("slicing a scalar");
    }
    let n_ell = slice.iter().filter(|x| **x == Sl::Ellipsis).count();
    if n_ell > 1 {
        return undef("an index can only have a single ellipsis");
    }
    let explicit = slice.len() - n_ell;
    if explicit > ad.len() {
        return undef("too many indices for array");
    }
    // expand the ellipsis / pad with full slices
    let mut expanded: Vec<Sl> = vec![];
    for x in slice {
        if *x == Sl::Ellipsis {
            for _ in 0..(ad.len() - explicit) {
                expanded.push(Sl::Sub(None, None, None));
            }
        } else {
            expanded.push(x.clone());
        }
    }
    while expanded.len() < ad.len() {
        expanded.push(Sl::Sub(None, None, None));
    }
    let mut sels = vec![];
    for (k, x) in expanded.iter().enumerate() {
        let n = ad[k];
        match x {
            Sl::Single(i) => {
                let j = if *i < 0 { *i + n as i64 } else { *i };
                if j < 0 || j >= n as i64 {
                    return undef("index out of bounds");
                }
                sels.push(Sel::One(j as u64));
            }
            Sl::Sub(b, e, s) => sels.push(Sel::Many(slice_positions(n, *b, *e, *s)?)),
            Sl::Ellipsis => unreachable!(),
        }
    }
    let mut dims = vec![];
    for s in sels.iter() {
        if let Sel::Many(v) = s {
            if v.is_empty() {
                return Err(RefErr::Empty);
            }
            dims.push(v.len() as u64);
        }
    }
    Ok(Arr::build(a.st, dims, |idx| {
        let mut src = vec![];
        let mut q = 0;
        for s in sels.iter() {
            match s {
                Sel::One(j) => src.push(*j),
                Sel::Many(v) => {
                    src.push(v[idx[q] as usize]);
                    q += 1;
                }
            }
        }
        a.at(&src)
    }))
}

// ---------------------------------------------------------------- structural helpers

fn sub_array(a: &Arr, prefix: &[u64]) -> Arr {
    let ad = a.dims();
    let dims = ad[prefix.len()..].to_vec();
    Arr::build(a.st, dims, |idx| {
        let mut s = prefix.to_vec();
        s.extend_from_slice(idx);
        a.at(&s)
    })
}

fn leaves(v: &RV, out: &mut Vec<Arr>) {
    match v {
        RV::A(a) => out.push(a.clone()),
        RV::Tuple(vs) | RV::Vector(_, vs) => vs.iter().for_each(|x| leaves(x, out)),
        RV::Named(vs) => vs.iter().for_each(|(_, x)| leaves(x, out)),
    }
}

fn count_leaves(t: &RT) -> usize {
    match t {
        RT::Scalar(_) | RT::Array(_, _) => 1,
        RT::Tuple(v) => v.iter().map(count_leaves).sum(),
        RT::Named(v) => v.iter().map(|(_, x)| count_leaves(x)).sum(),
        RT::Vector(n, e) => *n as usize * count_leaves(e),
    }
}

fn rebuild(t: &RT, ls: &[Arr], pos: &mut usize) -> R<RV> {
    match t {
        RT::Scalar(st) => {
            let a = &ls[*pos];
            *pos += 1;
            if a.st != *st || a.data.len() != 1 {
                return undef("reshape: incompatible leaf");
            }
            Ok(RV::A(Arr { st: *st, shape: None, data: a.data.clone() }))
        }
        RT::Array(sh, st) => {
            let a = &ls[*pos];
            *pos += 1;
            if a.st != *st || a.data.len() != numel(sh) || sh.is_empty() || sh.contains(&0) {
                return undef("reshape: incompatible leaf");
            }
            Ok(RV::A(Arr { st: *st, shape: Some(sh.clone()), data: a.data.clone() }))
        }
        RT::Tuple(ts) => {
            let mut v = vec![];
            for x in ts {
                v.push(rebuild(x, ls, pos)?);
            }
            Ok(RV::Tuple(v))
        }
        RT::Named(ts) => {
            let mut v = vec![];
            for (n, x) in ts {
                v.push((n.clone(), rebuild(x, ls, pos)?));
            }
            Ok(RV::Named(v))
        }
        RT::Vector(n, e) => {
            let mut v = vec![];
            for _ in 0..*n {
                v.push(rebuild(e, ls, pos)?);
            }
            Ok(RV::Vector((**e).clone(), v))
        }
    }
}

pub fn constant_of(t: &RT, c: u128) -> RV {
    match t {
        RT::Scalar(st) => RV::A(Arr { st: *st, shape: None, data: vec![c & st.mask()] }),
        RT::Array(sh, st) => RV::A(Arr { st: *st, shape: Some(sh.clone()), data: vec![c & st.mask(); numel(sh)] }),
        RT::Tuple(ts) => RV::Tuple(ts.iter().map(|x| constant_of(x, c)).collect()),
        RT::Named(ts) => RV::Named(ts.iter().map(|(n, x)| (n.clone(), constant_of(x, c))).collect()),
        RT::Vector(n, e) => RV::Vector((**e).clone(), (0..*n).map(|_| constant_of(e, c)).collect()),
    }
}

fn is_index_type(st: St) -> bool {
    !st.signed && !st.is_bit()
}

/// 1-d array of pairwise different numbers 0..n-1 ?
fn permutation_of(p: &Arr) -> Option<Vec<u64>> {
    let n = p.data.len();
    let mut seen = vec![false; n];
    let mut out = vec![];
    for x in p.data.iter() {
        if *x >= n as u128 || seen[*x as usize] {
            return None;
        }
        seen[*x as usize] = true;
        out.push(*x as u64);
    }
    Some(out)
}

/// out[i] = a[src[i]] along the first dimension
fn take_rows(a: &Arr, src: &[u64]) -> Arr {
    let ad = a.dims();
    let mut dims = ad.clone();
    dims[0] = src.len() as u64;
    Arr::build(a.st, dims, |idx| {
        let mut s = idx.to_vec();
        s[0] = src[idx[0] as usize];
        a.at(&s)
    })
}

// ---------------------------------------------------------------- the interpreter

pub fn eval(op: &Op, args: &[RV]) -> R<RV> {
    match op {
        Op::Add | Op::Subtract | Op::Multiply => {
            need_args(args, 2)?;
            let (a, b) = (arr(args, 0)?, arr(args, 1)?);
            if a.st != b.st {
                return undef("scalar types differ");
            }
            let st = a.st;
            let r = match op {
                Op::Add => elementwise(a, b, st, |x, y| madd(x, y, st))?,
                Op::Subtract => elementwise(a, b, st, |x, y| msub(x, y, st))?,
                _ => elementwise(a, b, st, |x, y| mmul(x, y, st))?,
            };
            Ok(RV::A(r))
        }
        Op::MixedMultiply => {
            need_args(args, 2)?;
            let (a, b) = (arr(args, 0)?, arr(args, 1)?);
            if a.st.is_bit() || !b.st.is_bit() {
                return undef("mixed multiply takes an integer operand and a bit operand");
            }
            // "returns this element or zero depending on the corresponding bit element"
            Ok(RV::A(elementwise(a, b, a.st, |x, y| if y == 1 { x } else { 0 })?))
        }
        Op::Dot => {
            need_args(args, 2)?;
            Ok(RV::A(dot(arr(args, 0)?, arr(args, 1)?)?))
        }
        Op::Matmul => {
            need_args(args, 2)?;
            Ok(RV::A(matmul(arr(args, 0)?, arr(args, 1)?)?))
        }
        Op::Gemm(ta, tb) => {
            need_args(args, 2)?;
            let (a, b) = (arr(args, 0)?, arr(args, 1)?);
            if a.st != b.st {
                return undef("scalar types differ");
            }
            if a.rank() < 2 || b.rank() < 2 {
                return undef("gemm: each matrix should have at least 2 dimensions");
            }
            // ONNX Gemm with alpha = 1, beta = 0: Y = A' * B', A' = transpose(A) if transA
            let a2 = if *ta { swap_last_two(a)? } else { a.clone() };
            let b2 = if *tb { swap_last_two(b)? } else { b.clone() };
            Ok(RV::A(matmul2(&a2, &b2)?))
        }
        Op::Sum(axes) => {
            need_args(args, 1)?;
            let a = arr(args, 0)?;
            let ad = a.dims();
            if ad.is_empty() {
                return undef("sum of a scalar");
            }
            for (i, x) in axes.iter().enumerate() {
                if *x as usize >= ad.len() || axes[..i].contains(x) {
                    return undef("sum: bad axes");
                }
            }
            let kept: Vec<usize> = (0..ad.len()).filter(|k| !axes.contains(&(*k as u64))).collect();
            let dims: Vec<u64> = kept.iter().map(|k| ad[*k]).collect();
            let st = a.st;
            let everything = all_indices(&ad);
            Ok(RV::A(Arr::build(st, dims, |idx| {
                let mut acc = 0;
                for src in everything.iter() {
                    if kept.iter().enumerate().all(|(q, k)| src[*k] == idx[q]) {
                        acc = madd(acc, a.at(src), st);
                    }
                }
                acc
            })))
        }
        Op::CumSum(axis) => {
            need_args(args, 1)?;
            let a = arr(args, 0)?;
            let ad = a.dims();
            let ax = *axis as usize;
            if ad.is_empty() || ax >= ad.len() {
                return undef("cumsum: bad axis");
            }
            let st = a.st;
            Ok(RV::A(Arr::build(st, ad.clone(), |idx| {
                let mut acc = 0;
                for t in 0..=idx[ax] {
                    let mut s = idx.to_vec();
                    s[ax] = t;
                    acc = madd(acc, a.at(&s), st);
                }
                acc
            })))
        }
        Op::PermuteAxes(perm) => {
            need_args(args, 1)?;
            let a = arr(args, 0)?;
            let ad = a.dims();
            if ad.is_empty() || perm.len() != ad.len() {
                return undef("transpose: axes don't match array");
            }
            for (i, x) in perm.iter().enumerate() {
                if *x as usize >= ad.len() || perm[..i].contains(x) {
                    return undef("transpose: not a permutation");
                }
            }
            // numpy.transpose: the i-th axis of the result corresponds to axis perm[i] of the input
            let dims: Vec<u64> = perm.iter().map(|p| ad[*p as usize]).collect();
            Ok(RV::A(Arr::build(a.st, dims, |idx| {
                let mut s = vec![0u64; ad.len()];
                for (i, p) in perm.iter().enumerate() {
                    s[*p as usize] = idx[i];
                }
                a.at(&s)
            })))
        }
        Op::Get(index) => {
            need_args(args, 1)?;
            let a = arr(args, 0)?;
            let ad = a.dims();
            if ad.is_empty() || index.len() > ad.len() {
                return undef("get: too many indices");
            }
            for (k, i) in index.iter().enumerate() {
                if *i >= ad[k] {
                    return undef("get: index out of bounds");
                }
            }
            Ok(RV::A(sub_array(a, index)))
        }
        Op::GetSlice(slice) => {
            need_args(args, 1)?;
            Ok(RV::A(get_slice(arr(args, 0)?, slice)?))
        }
        Op::Gather(axis) => {
            need_args(args, 2)?;
            let (a, ind) = (arr(args, 0)?, arr(args, 1)?);
            let ad = a.dims();
            let ax = *axis as usize;
            if ad.is_empty() || ax >= ad.len() {
                return undef("take: bad axis");
            }
            if ind.rank() == 0 || !is_index_type(ind.st) {
                return undef("take: indices must be an array of unsigned integers");
            }
            for (i, x) in ind.data.iter().enumerate() {
                if ind.data[..i].contains(x) {
                    return undef("take: the documentation requires unique indices");
                }
            }
            for x in ind.data.iter() {
                if *x >= ad[ax] as u128 {
                    return Err(RefErr::Data("take: index out of range".into()));
                }
            }
            // numpy.take: result.shape = a.shape[:axis] + indices.shape + a.shape[axis+1:]
            let idims = ind.dims();
            let mut dims = ad[..ax].to_vec();
            dims.extend_from_slice(&idims);
            dims.extend_from_slice(&ad[ax + 1..]);
            Ok(RV::A(Arr::build(a.st, dims, |idx| {
                let ii = &idx[ax..ax + idims.len()];
                let mut s = idx[..ax].to_vec();
                s.push(ind.at(ii) as u64);
                s.extend_from_slice(&idx[ax + idims.len()..]);
                a.at(&s)
            })))
        }
        Op::Reshape(t) => {
            need_args(args, 1)?;
            let mut ls = vec![];
            leaves(&args[0], &mut ls);
            if ls.len() != count_leaves(t) {
                return undef("reshape: different number of arrays and scalars");
            }
            let mut pos = 0;
            rebuild(t, &ls, &mut pos)
        }
        Op::Stack(outer) => {
            if outer.is_empty() || outer.contains(&0) || numel(outer) != args.len() || args.is_empty() {
                return undef("stack: outer shape does not match the number of operands");
            }
            let first = arr(args, 0)?;
            let st = first.st;
            let mut inner = first.dims();
            for i in 1..args.len() {
                let x = arr(args, i)?;
                if x.st != st {
                    return undef("scalar types differ");
                }
                inner = broadcast_dims(&inner, &x.dims())?;
            }
            let mut dims = outer.clone();
            dims.extend_from_slice(&inner);
            let no = outer.len();
            let mut err = None;
            let r = Arr::build(st, dims, |idx| {
                let which = flat(&idx[..no], outer);
                match arr(args, which) {
                    Ok(x) => bget(x, &idx[no..]),
                    Err(e) => {
                        err = Some(e);
                        0
                    }
                }
            });
            match err {
                Some(e) => Err(e),
                None => Ok(RV::A(r)),
            }
        }
        Op::Concatenate(axis) => {
            if args.len() < 2 {
                return undef("concatenate: at least two arrays");
            }
            let first = arr(args, 0)?;
            let st = first.st;
            let fd = first.dims();
            let ax = *axis as usize;
            if fd.is_empty() || ax >= fd.len() {
                return undef("concatenate: bad axis");
            }
            let mut parts = vec![];
            let mut total = 0;
            for i in 0..args.len() {
                let x = arr(args, i)?;
                let xd = x.dims();
                if x.st != st || xd.len() != fd.len() {
                    return undef("concatenate: scalar types or ranks differ");
                }
                for k in 0..fd.len() {
                    if k != ax && xd[k] != fd[k] {
                        return undef("concatenate: shapes differ outside the axis");
                    }
                }
                parts.push((total, xd[ax], x));
                total += xd[ax];
            }
            let mut dims = fd.clone();
            dims[ax] = total;
            Ok(RV::A(Arr::build(st, dims, |idx| {
                let p = idx[ax];
                let (start, _, x) = parts.iter().find(|(s, l, _)| p >= *s && p < *s + *l).unwrap();
                let mut s = idx.to_vec();
                s[ax] = p - *start;
                x.at(&s)
            })))
        }
        Op::Repeat(n) => {
            need_args(args, 1)?;
            Ok(RV::Vector(type_of(&args[0]), (0..*n).map(|_| args[0].clone()).collect()))
        }
        Op::Zip => {
            if args.len() < 2 {
                return undef("zip: at least two vectors");
            }
            let mut cols = vec![];
            let mut ets = vec![];
            for a in args {
                match a {
                    RV::Vector(t, vs) => {
                        cols.push(vs);
                        ets.push(t.clone());
                    }
                    _ => return undef("zip: operand is not a vector"),
                }
            }
            let n = cols[0].len();
            if cols.iter().any(|c| c.len() != n) {
                return undef("zip: vectors of different lengths");
            }
            let rows = (0..n).map(|i| RV::Tuple(cols.iter().map(|c| c[i].clone()).collect())).collect();
            Ok(RV::Vector(RT::Tuple(ets), rows))
        }
        Op::ArrayToVector => {
            need_args(args, 1)?;
            let a = arr(args, 0)?;
            let ad = a.dims();
            if ad.is_empty() {
                return undef("array_to_vector of a scalar");
            }
            let et = if ad.len() == 1 { RT::Scalar(a.st) } else { RT::Array(ad[1..].to_vec(), a.st) };
            Ok(RV::Vector(et, (0..ad[0]).map(|i| RV::A(sub_array(a, &[i]))).collect()))
        }
        Op::VectorToArray => {
            need_args(args, 1)?;
            match &args[0] {
                RV::Vector(t, vs) => {
                    let (st, edims) = match t {
                        RT::Scalar(st) => (*st, vec![]),
                        RT::Array(sh, st) => (*st, sh.clone()),
                        _ => return undef("vector_to_array: elements must be scalars or arrays"),
                    };
                    if vs.is_empty() {
                        return undef("vector_to_array of an empty vector");
                    }
                    let mut dims = vec![vs.len() as u64];
                    dims.extend_from_slice(&edims);
                    let mut err = None;
                    let r = Arr::build(st, dims, |idx| match &vs[idx[0] as usize] {
                        RV::A(x) => x.at(&idx[1..]),
                        _ => {
                            err = Some(());
                            0
                        }
                    });
                    if err.is_some() {
                        return undef("vector_to_array: malformed vector");
                    }
                    Ok(RV::A(r))
                }
                _ => undef("vector_to_array of a non-vector"),
            }
        }
        Op::CreateTuple => Ok(RV::Tuple(args.to_vec())),
        Op::TupleGet(i) => {
            need_args(args, 1)?;
            match &args[0] {
                RV::Tuple(vs) => vs.get(*i as usize).cloned().ok_or(RefErr::Undefined("tuple index".into())),
                RV::Named(vs) => {
                    vs.get(*i as usize).map(|x| x.1.clone()).ok_or(RefErr::Undefined("tuple index".into()))
                }
                _ => undef("tuple_get of a non-tuple"),
            }
        }
        Op::CreateNamedTuple(names) => {
            if names.len() != args.len() {
                return undef("named tuple: number of names");
            }
            for (i, n) in names.iter().enumerate() {
                if names[..i].contains(n) {
                    return undef("named tuple: duplicate names");
                }
            }
            Ok(RV::Named(names.iter().cloned().zip(args.iter().cloned()).collect()))
        }
        Op::NamedTupleGet(name) => {
            need_args(args, 1)?;
            match &args[0] {
                RV::Named(vs) => {
                    vs.iter().find(|x| x.0 == *name).map(|x| x.1.clone()).ok_or(RefErr::Undefined("no such field".into()))
                }
                _ => undef("named_tuple_get of a non-named-tuple"),
            }
        }
        Op::CreateVector(t) => {
            if args.iter().any(|a| type_of(a) != *t) {
                return undef("create_vector: element type mismatch");
            }
            Ok(RV::Vector(t.clone(), args.to_vec()))
        }
        Op::VectorGet => {
            need_args(args, 2)?;
            let i = arr(args, 1)?;
            if i.rank() != 0 || !is_index_type(i.st) {
                return undef("vector_get: index must be an unsigned scalar");
            }
            match &args[0] {
                RV::Vector(_, vs) => {
                    if i.data[0] >= vs.len() as u128 {
                        Err(RefErr::Data("vector_get: index out of range".into()))
                    } else {
                        Ok(vs[i.data[0] as usize].clone())
                    }
                }
                _ => undef("vector_get of a non-vector"),
            }
        }
        Op::A2B => {
            need_args(args, 1)?;
            let a = arr(args, 0)?;
            if a.st.is_bit() {
                return undef("a2b of bits");
            }
            // binary form, least significant bit first (the byte layout of values is little-endian)
            let mut dims = a.dims();
            let r = dims.len();
            dims.push(a.st.bits as u64);
            Ok(RV::A(Arr::build(BIT, dims, |idx| (a.at(&idx[..r]) >> idx[r]) & 1)))
        }
        Op::B2A(st) => {
            need_args(args, 1)?;
            let b = arr(args, 0)?;
            let bd = b.dims();
            if !b.st.is_bit() || st.is_bit() || bd.is_empty() || bd[bd.len() - 1] != st.bits as u64 {
                return undef("b2a: needs a bit array whose last dimension is the bit size of the type");
            }
            let dims = bd[..bd.len() - 1].to_vec();
            Ok(RV::A(Arr::build(*st, dims, |idx| {
                let mut acc = 0u128;
                for k in 0..st.bits as u64 {
                    let mut s = idx.to_vec();
                    s.push(k);
                    acc |= b.at(&s) << k;
                }
                acc
            })))
        }
        Op::Truncate(scale) => {
            need_args(args, 1)?;
            let a = arr(args, 0)?;
            if *scale == 0 {
                return undef("truncate: scale must be positive");
            }
            let st = a.st;
            if st.signed && *scale > i128::MAX as u128 {
                // the quotient is representable, but the library documents no support; leave to the builder
                return undef("truncate: scale does not fit the signed range");
            }
            let m = st.mask();
            let data = a
                .data
                .iter()
                .map(|x| {
                    if !st.signed {
                        x / scale
                    } else {
                        // signed value = x - 2^w if the top bit is set; quotient rounded toward zero
                        let neg = (x >> (st.bits - 1)) & 1 == 1;
                        if neg {
                            let mag = (0u128.wrapping_sub(*x)) & m; // |value|, 2^(w-1) for the minimum
                            let q = mag / scale;
                            0u128.wrapping_sub(q) & m
                        } else {
                            x / scale
                        }
                    }
                })
                .collect();
            Ok(RV::A(Arr { st, shape: a.shape.clone(), data }))
        }
        Op::Zeros(t) => {
            need_args(args, 0)?;
            Ok(constant_of(t, 0))
        }
        Op::Ones(t) => {
            need_args(args, 0)?;
            Ok(constant_of(t, 1))
        }
        Op::Constant(v) => {
            need_args(args, 0)?;
            Ok(v.clone())
        }
        Op::InversePermutation => {
            need_args(args, 1)?;
            let p = arr(args, 0)?;
            if p.rank() != 1 || !is_index_type(p.st) {
                return undef("inverse_permutation: 1-dimensional unsigned array");
            }
            match permutation_of(p) {
                None => Err(RefErr::Data("not a permutation".into())),
                Some(perm) => {
                    // output[i] = j if input[j] = i
                    let n = perm.len();
                    let mut out = vec![0u128; n];
                    for j in 0..n {
                        out[perm[j] as usize] = j as u128;
                    }
                    Ok(RV::A(Arr { st: p.st, shape: p.shape.clone(), data: out }))
                }
            }
        }
        Op::ApplyPermutation(inverse) => {
            need_args(args, 2)?;
            let (a, p) = (arr(args, 0)?, arr(args, 1)?);
            let ad = a.dims();
            if ad.is_empty() || p.rank() != 1 || !is_index_type(p.st) || p.data.len() as u64 != ad[0] {
                return undef("apply_permutation: array and a 1-dimensional unsigned array of the same length");
            }
            match permutation_of(p) {
                None => Err(RefErr::Data("not a permutation".into())),
                Some(perm) => {
                    // NumPy convention a[p]: result[i] = a[p[i]]; inverse: result[p[i]] = a[i]
                    let src: Vec<u64> = if *inverse {
                        let mut inv = vec![0u64; perm.len()];
                        for (i, x) in perm.iter().enumerate() {
                            inv[*x as usize] = i as u64;
                        }
                        inv
                    } else {
                        perm
                    };
                    Ok(RV::A(take_rows(a, &src)))
                }
            }
        }
        Op::SegmentCumSum => {
            need_args(args, 3)?;
            let (a, b, v) = (arr(args, 0)?, arr(args, 1)?, arr(args, 2)?);
            let ad = a.dims();
            if ad.is_empty() || !b.st.is_bit() || b.dims() != vec![ad[0]] || v.st != a.st || v.dims() != ad[1..].to_vec() {
                return undef("segment_cumsum: operand types");
            }
            // output[0] = v; output[i] = A[i-1] + B[i-1] * output[i-1], i in 1..=n
            let st = a.st;
            let n = ad[0];
            let row = numel(&ad[1..]);
            let mut out: Vec<u128> = v.data.clone();
            for i in 1..=n as usize {
                for q in 0..row {
                    let prev = out[(i - 1) * row + q];
                    let x = a.data[(i - 1) * row + q];
                    let bb = b.data[i - 1];
                    out.push(madd(x, mmul(bb, prev, st), st));
                }
            }
            let mut dims = ad.clone();
            dims[0] = n + 1;
            Ok(RV::A(Arr { st, shape: Some(dims), data: out }))
        }
    }
}
