//! Bridge between the reference world (refsem::RT/RV/Op) and the real library: type/value
//! conversion (independent byte encoding from vals.rs), graph construction through the real builder,
//! evaluation with the real SimpleEvaluator.
use super::refsem::*;
use crate::common::catch;
use crate::vals;
use ciphercore_base::data_types::{
    array_type, named_tuple_type, scalar_type, tuple_type, vector_type, ScalarType, Type,
};
use ciphercore_base::data_values::Value;
use ciphercore_base::evaluators::evaluate_simple_evaluator;
use ciphercore_base::graphs::{create_context, Context, Graph, Node, SliceElement};

pub fn to_sc(st: St) -> ScalarType {
    match (st.bits, st.signed) {
        (1, _) => ScalarType::Bit,
        (8, false) => ScalarType::U8,
        (8, true) => ScalarType::I8,
        (16, false) => ScalarType::U16,
        (16, true) => ScalarType::I16,
        (32, false) => ScalarType::U32,
        (32, true) => ScalarType::I32,
        (64, false) => ScalarType::U64,
        (64, true) => ScalarType::I64,
        (128, false) => ScalarType::U128,
        (128, true) => ScalarType::I128,
        _ => panic!("no such scalar type"),
    }
}
pub fn from_sc(s: &ScalarType) -> St {
    St { bits: vals::st_bits(s), signed: vals::st_signed(s) }
}

pub fn to_type(t: &RT) -> Type {
    match t {
        RT::Scalar(st) => scalar_type(to_sc(*st)),
        RT::Array(sh, st) => array_type(sh.clone(), to_sc(*st)),
        RT::Tuple(v) => tuple_type(v.iter().map(to_type).collect()),
        RT::Named(v) => named_tuple_type(v.iter().map(|(n, x)| (n.clone(), to_type(x))).collect()),
        RT::Vector(n, e) => vector_type(*n, to_type(e)),
    }
}
pub fn from_type(t: &Type) -> RT {
    match t {
        Type::Scalar(st) => RT::Scalar(from_sc(st)),
        Type::Array(sh, st) => RT::Array(sh.clone(), from_sc(st)),
        Type::Tuple(v) => RT::Tuple(v.iter().map(|x| from_type(x)).collect()),
        Type::NamedTuple(v) => RT::Named(v.iter().map(|(n, x)| (n.clone(), from_type(x))).collect()),
        Type::Vector(n, e) => RT::Vector(*n, Box::new(from_type(e))),
    }
}

pub fn to_value(v: &RV) -> Value {
    match v {
        RV::A(a) => Value::from_bytes(vals::encode(&a.data, &to_sc(a.st))),
        RV::Tuple(vs) | RV::Vector(_, vs) => Value::from_vector(vs.iter().map(to_value).collect()),
        RV::Named(vs) => Value::from_vector(vs.iter().map(|x| to_value(&x.1)).collect()),
    }
}

/// decode a library value of reference type t; None if the byte layout / tree shape does not fit
pub fn from_value(v: &Value, t: &RT) -> Option<RV> {
    match t {
        RT::Scalar(st) => {
            let d = v.access_bytes(|b| Ok(vals::decode(b, &to_sc(*st), 1))).ok().flatten()?;
            Some(RV::A(Arr { st: *st, shape: None, data: d }))
        }
        RT::Array(sh, st) => {
            let d = v.access_bytes(|b| Ok(vals::decode(b, &to_sc(*st), numel(sh)))).ok().flatten()?;
            Some(RV::A(Arr { st: *st, shape: Some(sh.clone()), data: d }))
        }
        RT::Tuple(ts) => {
            let vs = v.to_vector().ok()?;
            if vs.len() != ts.len() {
                return None;
            }
            let mut out = vec![];
            for (x, tt) in vs.iter().zip(ts.iter()) {
                out.push(from_value(x, tt)?);
            }
            Some(RV::Tuple(out))
        }
        RT::Named(ts) => {
            let vs = v.to_vector().ok()?;
            if vs.len() != ts.len() {
                return None;
            }
            let mut out = vec![];
            for (x, (n, tt)) in vs.iter().zip(ts.iter()) {
                out.push((n.clone(), from_value(x, tt)?));
            }
            Some(RV::Named(out))
        }
        RT::Vector(n, e) => {
            let vs = v.to_vector().ok()?;
            if vs.len() as u64 != *n {
                return None;
            }
            let mut out = vec![];
            for x in vs.iter() {
                out.push(from_value(x, e)?);
            }
            Some(RV::Vector((**e).clone(), out))
        }
    }
}

fn to_slice(s: &[Sl]) -> Vec<SliceElement> {
    s.iter()
        .map(|x| match x {
            Sl::Single(i) => SliceElement::SingleIndex(*i),
            Sl::Sub(b, e, st) => SliceElement::SubArray(*b, *e, *st),
            Sl::Ellipsis => SliceElement::Ellipsis,
        })
        .collect()
}

pub struct Built {
    /// keeps the context alive (graphs only hold a weak reference to it)
    #[allow(dead_code)]
    pub ctx: Context,
    pub graph: Graph,
    pub out: RT,
}

pub enum BuildErr {
    /// an Input node was refused (the harness asked for an invalid operand type)
    Input(String),
    /// the operation node was refused by the builder: the combination is not well-typed
    Op(String),
    /// later stage (set output / finalize / get_type) failed or something panicked
    Other(String),
}

fn first_line(e: &dyn std::fmt::Display) -> String {
    format!("{}", e).lines().next().unwrap_or("").chars().take(160).collect()
}

fn need(ins: &[Node], n: usize) -> Result<(), BuildErr> {
    if ins.len() != n {
        Err(BuildErr::Other(format!("harness: operation needs {} operands", n)))
    } else {
        Ok(())
    }
}

fn build_inner(op: &Op, args: &[RT]) -> Result<Built, BuildErr> {
    let c = create_context().map_err(|e| BuildErr::Other(first_line(&e)))?;
    let g = c.create_graph().map_err(|e| BuildErr::Other(first_line(&e)))?;
    let mut ins: Vec<Node> = vec![];
    for t in args {
        ins.push(g.input(to_type(t)).map_err(|e| BuildErr::Input(first_line(&e)))?);
    }
    let i = |k: usize| ins[k].clone();
    let node = match op {
        Op::Add => need(&ins, 2).and_then(|_| Ok(g.add(i(0), i(1)))),
        Op::Subtract => need(&ins, 2).and_then(|_| Ok(g.subtract(i(0), i(1)))),
        Op::Multiply => need(&ins, 2).and_then(|_| Ok(g.multiply(i(0), i(1)))),
        Op::MixedMultiply => need(&ins, 2).and_then(|_| Ok(g.mixed_multiply(i(0), i(1)))),
        Op::Dot => need(&ins, 2).and_then(|_| Ok(g.dot(i(0), i(1)))),
        Op::Matmul => need(&ins, 2).and_then(|_| Ok(g.matmul(i(0), i(1)))),
        Op::Gemm(ta, tb) => need(&ins, 2).and_then(|_| Ok(g.gemm(i(0), i(1), *ta, *tb))),
        Op::Sum(axes) => need(&ins, 1).and_then(|_| Ok(g.sum(i(0), axes.clone()))),
        Op::CumSum(a) => need(&ins, 1).and_then(|_| Ok(g.cum_sum(i(0), *a))),
        Op::PermuteAxes(p) => need(&ins, 1).and_then(|_| Ok(g.permute_axes(i(0), p.clone()))),
        Op::Get(ix) => need(&ins, 1).and_then(|_| Ok(g.get(i(0), ix.clone()))),
        Op::GetSlice(s) => need(&ins, 1).and_then(|_| Ok(g.get_slice(i(0), to_slice(s)))),
        Op::Gather(ax) => need(&ins, 2).and_then(|_| Ok(g.gather(i(0), i(1), *ax))),
        Op::Reshape(t) => need(&ins, 1).and_then(|_| Ok(g.reshape(i(0), to_type(t)))),
        Op::Stack(outer) => Ok(g.stack(ins.clone(), outer.clone())),
        Op::Concatenate(ax) => Ok(g.concatenate(ins.clone(), *ax)),
        Op::Repeat(n) => need(&ins, 1).and_then(|_| Ok(g.repeat(i(0), *n))),
        Op::Zip => Ok(g.zip(ins.clone())),
        Op::ArrayToVector => need(&ins, 1).and_then(|_| Ok(g.array_to_vector(i(0)))),
        Op::VectorToArray => need(&ins, 1).and_then(|_| Ok(g.vector_to_array(i(0)))),
        Op::CreateTuple => Ok(g.create_tuple(ins.clone())),
        Op::TupleGet(k) => need(&ins, 1).and_then(|_| Ok(g.tuple_get(i(0), *k))),
        Op::CreateNamedTuple(names) => {
            if names.len() != ins.len() {
                Err(BuildErr::Other("harness: names/operands".into()))
            } else {
                Ok(g.create_named_tuple(names.iter().cloned().zip(ins.iter().cloned()).collect()))
            }
        }
        Op::NamedTupleGet(n) => need(&ins, 1).and_then(|_| Ok(g.named_tuple_get(i(0), n.clone()))),
        Op::CreateVector(t) => Ok(g.create_vector(to_type(t), ins.clone())),
        Op::VectorGet => need(&ins, 2).and_then(|_| Ok(g.vector_get(i(0), i(1)))),
        Op::A2B => need(&ins, 1).and_then(|_| Ok(g.a2b(i(0)))),
        Op::B2A(st) => need(&ins, 1).and_then(|_| Ok(g.b2a(i(0), to_sc(*st)))),
        Op::Truncate(s) => need(&ins, 1).and_then(|_| Ok(g.truncate(i(0), *s))),
        Op::Zeros(t) => need(&ins, 0).and_then(|_| Ok(g.zeros(to_type(t)))),
        Op::Ones(t) => need(&ins, 0).and_then(|_| Ok(g.ones(to_type(t)))),
        Op::Constant(v) => need(&ins, 0).and_then(|_| Ok(g.constant(to_type(&type_of(v)), to_value(v)))),
        Op::InversePermutation => need(&ins, 1).and_then(|_| Ok(g.inverse_permutation(i(0)))),
        Op::ApplyPermutation(inv) => need(&ins, 2).and_then(|_| {
            Ok(if *inv { g.apply_inverse_permutation(i(0), i(1)) } else { g.apply_permutation(i(0), i(1)) })
        }),
        Op::SegmentCumSum => need(&ins, 3).and_then(|_| Ok(g.segment_cumsum(i(0), i(1), i(2)))),
    }?;
    let node = node.map_err(|e| BuildErr::Op(first_line(&e)))?;
    let other = |e: &dyn std::fmt::Display| BuildErr::Other(first_line(e));
    node.set_as_output().map_err(|e| other(&e))?;
    g.finalize().map_err(|e| other(&e))?;
    c.set_main_graph(g.clone()).map_err(|e| other(&e))?;
    c.finalize().map_err(|e| other(&e))?;
    let t = node.get_type().map_err(|e| other(&e))?;
    Ok(Built { ctx: c, graph: g, out: from_type(&t) })
}

pub fn build(op: &Op, args: &[RT]) -> Result<Built, BuildErr> {
    match catch(|| build_inner(op, args)) {
        Ok(r) => r,
        Err(p) => Err(BuildErr::Other(format!("panic: {}", p))),
    }
}

pub enum Obs {
    Val(Value),
    Err(String),
    Panic(String),
}

/// evaluate with the real SimpleEvaluator (fixed PRNG seed; none of the operations here draws randomness)
pub fn evaluate(b: &Built, operands: &[RV]) -> Obs {
    let inputs: Vec<Value> = operands.iter().map(to_value).collect();
    let g = b.graph.clone();
    match catch(move || evaluate_simple_evaluator(g, inputs, Some([7u8; 16]))) {
        Ok(Ok(v)) => Obs::Val(v),
        Ok(Err(e)) => Obs::Err(first_line(&e)),
        Err(p) => Obs::Panic(p),
    }
}
