#!/usr/bin/env python3
"""C10: recompute the reference interpreter's (E3) results with NumPy on exact Python integers.

usage: numpy_oracle.py IN.json OUT.json
IN:  list of {"id", "op", "args": [RV], "expect": RV}   (serde externally-tagged enums of refsem.rs)
OUT: {"validated": n, "skipped": n, "mismatches": [{"id", "op", "numpy", "e3"}]}

Arrays are numpy arrays with dtype=object holding Python ints (no overflow); the result is reduced
mod 2^w afterwards. Elements arrive as residues in [0, 2^w); ring operations do not care, Truncate
converts to the signed value first.
"""
import json
import sys

import numpy as np


def st_of(a):
    return a["st"]["bits"], a["st"]["signed"]


def to_np(a):
    data = np.empty(len(a["data"]), dtype=object)
    for i, x in enumerate(a["data"]):
        data[i] = int(x)
    shape = a["shape"]
    return data.reshape(tuple(shape) if shape is not None else ())


def obj(x):
    """anything -> object ndarray of Python ints"""
    r = np.empty(np.shape(x), dtype=object)
    if r.ndim == 0:
        r[()] = int(x)
    else:
        flat = np.asarray(x, dtype=object).reshape(-1)
        rf = r.reshape(-1)
        for i in range(len(flat)):
            rf[i] = int(flat[i])
    return r


def canon(x, bits):
    """(shape or None, list of residues as decimal strings)"""
    x = obj(x)
    m = 1 << bits
    shape = None if x.ndim == 0 else list(x.shape)
    return shape, [str(int(v) % m) for v in x.reshape(-1)]


def canon_e3(a):
    return a["shape"], [str(int(v)) for v in a["data"]]


def py_slice(s):
    if s == "Ellipsis":
        return Ellipsis
    if "Single" in s:
        return s["Single"]
    b, e, st = s["Sub"]
    return slice(b, e, st)


def compute(op, args):
    """returns (bits, result) where result is an ndarray / int, or a list of them for vectors; None = not expressible"""
    name = op if isinstance(op, str) else list(op.keys())[0]
    par = None if isinstance(op, str) else op[name]
    arrs = [a["A"] for a in args if "A" in a]
    if name == "VectorToArray":
        elems = [to_np(e["A"]) for e in args[0]["Vector"][1]]
        bits = args[0]["Vector"][1][0]["A"]["st"]["bits"]
        return bits, np.stack(elems)
    if len(arrs) != len(args):
        return None
    xs = [to_np(a) for a in arrs]
    bits, signed = st_of(arrs[0]) if arrs else (None, None)
    if name == "Add":
        return bits, xs[0] + xs[1]
    if name == "Subtract":
        return bits, xs[0] - xs[1]
    if name in ("Multiply", "MixedMultiply"):
        return bits, xs[0] * xs[1]
    if name == "Dot":
        return bits, np.dot(xs[0], xs[1])
    if name == "Matmul":
        return bits, np.matmul(xs[0], xs[1])
    if name == "Gemm":
        a = np.swapaxes(xs[0], -1, -2) if par[0] else xs[0]
        b = np.swapaxes(xs[1], -1, -2) if par[1] else xs[1]
        return bits, np.matmul(a, b)
    if name == "Sum":
        return bits, np.sum(xs[0], axis=tuple(par))
    if name == "CumSum":
        return bits, np.cumsum(xs[0], axis=par)
    if name == "PermuteAxes":
        return bits, np.transpose(xs[0], par)
    if name == "Get":
        return bits, xs[0][tuple(par)]
    if name == "GetSlice":
        return bits, xs[0][tuple(py_slice(s) for s in par)]
    if name == "Gather":
        return bits, np.take(xs[0], xs[1].astype(np.int64), axis=par)
    if name == "Reshape":
        t = par
        shape = () if "Scalar" in t else tuple(t["Array"][0])
        return bits, xs[0].reshape(shape)
    if name == "Stack":
        bs = np.broadcast_arrays(*xs)
        inner = list(bs[0].shape)
        return bits, np.stack(bs).reshape(tuple(par + inner))
    if name == "Concatenate":
        return bits, np.concatenate(xs, axis=par)
    if name == "ArrayToVector":
        return bits, [xs[0][i] for i in range(xs[0].shape[0])]
    if name == "A2B":
        a = xs[0]
        r = np.empty(a.shape + (bits,), dtype=object)
        for idx in np.ndindex(a.shape):
            for k in range(bits):
                r[idx + (k,)] = (int(a[idx]) >> k) & 1
        return 1, r
    if name == "B2A":
        w = par["bits"]
        b = xs[0]
        r = np.zeros(b.shape[:-1], dtype=object)
        for k in range(w):
            r = r + b[..., k] * (1 << k)
        return w, r
    if name == "Truncate":
        scale = int(par)
        m = 1 << bits

        def tr(v):
            v = int(v)
            if signed and v >= m // 2:
                v -= m
            q = abs(v) // scale
            return -q if v < 0 else q

        return bits, np.vectorize(tr, otypes=[object])(xs[0]) if xs[0].ndim > 0 else tr(xs[0][()])
    if name in ("Zeros", "Ones"):
        t = par
        if "Scalar" in t:
            st, shape = t["Scalar"], ()
        elif "Array" in t:
            st, shape = t["Array"][1], tuple(t["Array"][0])
        else:
            return None
        c = 0 if name == "Zeros" else 1
        r = np.empty(shape, dtype=object)
        r[...] = c
        return st["bits"], r
    if name == "InversePermutation":
        return bits, np.argsort(xs[0].astype(np.int64))
    if name == "ApplyPermutation":
        p = xs[1].astype(np.int64)
        if not par:
            return bits, xs[0][p]
        r = np.empty_like(xs[0])
        r[p] = xs[0]
        return bits, r
    if name == "SegmentCumSum":
        a, b, v = xs
        rows = [v]
        for i in range(a.shape[0]):
            rows.append(a[i] + int(b[i]) * rows[-1])
        return bits, np.stack([obj(x) for x in rows])
    return None


def main():
    cases = json.load(open(sys.argv[1]))
    validated, skipped, mism = 0, 0, []
    for c in cases:
        try:
            got = compute(c["op"], c["args"])
        except Exception as e:  # E3 defined a result where NumPy raises: a disagreement
            mism.append({"id": c["id"], "op": c["op"], "numpy": "exception: %r" % (e,), "e3": c["expect"]})
            continue
        if got is None:
            skipped += 1
            continue
        bits, res = got
        exp = c["expect"]
        if isinstance(res, list):
            ok = "Vector" in exp and len(exp["Vector"][1]) == len(res) and all(
                canon(r, bits) == canon_e3(e["A"]) for r, e in zip(res, exp["Vector"][1])
            )
            shown = [canon(r, bits) for r in res]
        else:
            ok = "A" in exp and exp["A"]["st"]["bits"] == bits and canon(res, bits) == canon_e3(exp["A"])
            shown = canon(res, bits)
        if ok:
            validated += 1
        else:
            mism.append({"id": c["id"], "op": c["op"], "args": c["args"], "numpy": shown, "e3": exp})
    json.dump({"validated": validated, "skipped": skipped, "mismatches": mism[:20]}, open(sys.argv[2], "w"))


if __name__ == "__main__":
    main()
