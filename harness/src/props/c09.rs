//! C09 - type inference is sound for evaluation; well-typed programs never crash.
//!
//! Bounded-exhaustive exploration: for every primitive operation of `graphs::Operation`, every element of a
//! parameter alphabet x every argument-type tuple of a type alphabet is offered to the real builder
//! (`Graph::add_node`). Accepted nodes are finalized and evaluated with the real `SimpleEvaluator` on an input
//! alphabet. Oracle: (1) no panic in builder or evaluator, (2) every node value has exactly the layout of the
//! node's inferred type, (3) an accepted node evaluates on at least one input of the alphabet (which contains
//! inputs built to satisfy the documented data preconditions).
mod alpha;
mod inputs;

use crate::common::{catch, hash_str, Report, SplitMix};
use crate::exec::{new_eval, run_global, Plan, RealRandomness};
use crate::vals;
use alpha::{ArgSpace, Level, OpSpace};
use ciphercore_base::data_types::Type;
use ciphercore_base::data_values::Value;
use ciphercore_base::evaluators::Evaluator;
use ciphercore_base::graphs::{create_context, Context, Graph, Node, Operation};
use rayon::prelude::*;
use serde::{Deserialize, Serialize};
use serde_json::{json, Value as J};
use std::collections::BTreeMap;

const EVAL_SEED: u64 = 0xC09;
const CHUNK: u64 = 2048;

#[derive(Clone, Debug, Serialize, Deserialize)]
pub enum Arg {
    /// k-th input of the program
    In(usize),
    /// result of the j-th step
    Step(usize),
}

#[derive(Clone, Debug, Serialize, Deserialize)]
pub struct Step {
    pub op: Operation,
    pub args: Vec<Arg>,
    /// graph dependency of Call / Iterate
    pub sub: Option<Box<Program>>,
}

/// inputs (valid types) followed by steps; the output is the last step unless `out` names another one
#[derive(Clone, Debug, Serialize, Deserialize)]
pub struct Program {
    pub inputs: Vec<Type>,
    pub steps: Vec<Step>,
    /// index of the output step (None: the last step); steps after it are readers of it or dead nodes
    #[serde(default)]
    pub out: Option<usize>,
}

impl Program {
    pub fn out_index(&self) -> usize {
        self.out.unwrap_or(self.steps.len().saturating_sub(1)).min(self.steps.len().saturating_sub(1))
    }
}

fn op_name(op: &Operation) -> String {
    format!("{}", op)
}

/// panic/error message without numbers and without the location prefix of the source tree
fn stable(msg: &str) -> String {
    let first = msg.lines().next().unwrap_or("");
    let cut = match (first.find(" at /"), first.find("ciphercore-base/")) {
        (Some(a), Some(b)) if b > a => format!("{} at {}", &first[..a], &first[b..]),
        _ => first.to_string(),
    };
    let mut out = String::new();
    let mut last_digit = false;
    for c in cut.chars() {
        if c.is_ascii_digit() {
            if !last_digit {
                out.push('#');
            }
            last_digit = true;
        } else {
            last_digit = false;
            out.push(c);
        }
    }
    out.chars().take(110).collect()
}

/// runtime-error message reduced to its constant head (up to the first ':' or ',')
fn stable_err(msg: &str) -> String {
    let first = msg.lines().next().unwrap_or("");
    let cut = first.find(|c| c == ':' || c == ',').unwrap_or(first.len());
    stable(&first[..cut])
}

/// coarse class of a never-evaluating case, so that different defects of one operation get different signatures
fn never_eval_class(op: &Operation, in_types: &[Type]) -> &'static str {
    match op {
        Operation::CuckooHash if in_types.len() == 2 && in_types[0].is_array() && in_types[1].is_array() => {
            let si = in_types[0].get_shape();
            let sh = in_types[1].get_shape();
            if si.len() >= 2 && sh.len() == 3 && sh[1] < 63 && si[si.len() - 2] > (1u64 << sh[1]) {
                ":more-strings-than-table-slots"
            } else {
                ":strings-fit-table"
            }
        }
        Operation::VectorGet => match in_types.first() {
            Some(Type::Vector(0, _)) => ":empty-vector",
            _ => ":non-empty-vector",
        },
        _ => "",
    }
}

pub enum BuildOutcome {
    /// the builder returned Err at this step (usize::MAX: while adding a declared input)
    Rejected(usize, String),
    /// the builder panicked at this step
    Panicked(usize, String),
    /// accepted, but the graph / context could not be finalized
    FinalizeError(String),
    Built(Built),
}

pub struct Built {
    pub ctx: Context,
    pub graph: Graph,
    pub step_nodes: Vec<Node>,
    pub has_sub: bool,
    pub out_idx: usize,
}

fn build_graph(ctx: &Context, p: &Program, subs: &[Option<Graph>]) -> Result<(Graph, Vec<Node>), BuildOutcome> {
    let g = ctx.create_graph().map_err(|e| BuildOutcome::FinalizeError(format!("create_graph: {}", e)))?;
    let mut ins = vec![];
    for t in p.inputs.iter() {
        match catch(|| g.input(t.clone())) {
            Ok(Ok(n)) => ins.push(n),
            Ok(Err(e)) => return Err(BuildOutcome::Rejected(usize::MAX, e.to_string())),
            Err(m) => return Err(BuildOutcome::Panicked(usize::MAX, m)),
        }
    }
    let mut nodes: Vec<Node> = vec![];
    for (si, st) in p.steps.iter().enumerate() {
        let deps: Vec<Node> = st
            .args
            .iter()
            .map(|a| match a {
                Arg::In(k) => ins[*k].clone(),
                Arg::Step(j) => nodes[*j].clone(),
            })
            .collect();
        let gdeps: Vec<Graph> = match subs.get(si).and_then(|x| x.clone()) {
            Some(sg) => vec![sg],
            None => vec![],
        };
        let op = st.op.clone();
        match catch(|| g.add_node(deps, gdeps, op)) {
            Ok(Ok(n)) => {
                // the inferred type must be available for an accepted node
                match catch(|| n.get_type()) {
                    Ok(Ok(_)) => {}
                    Ok(Err(e)) => return Err(BuildOutcome::FinalizeError(format!("get_type after add_node: {}", e))),
                    Err(m) => return Err(BuildOutcome::Panicked(si, m)),
                }
                nodes.push(n)
            }
            Ok(Err(e)) => return Err(BuildOutcome::Rejected(si, e.to_string())),
            Err(m) => return Err(BuildOutcome::Panicked(si, m)),
        }
    }
    Ok((g, nodes))
}

pub fn build(p: &Program) -> BuildOutcome {
    let ctx = match catch(create_context) {
        Ok(Ok(c)) => c,
        Ok(Err(e)) => return BuildOutcome::FinalizeError(format!("create_context: {}", e)),
        Err(m) => return BuildOutcome::FinalizeError(format!("create_context panic: {}", m)),
    };
    // graph dependencies must exist (finalized) before the graph that uses them
    let mut subs: Vec<Option<Graph>> = vec![];
    let mut has_sub = false;
    for (si, st) in p.steps.iter().enumerate() {
        match &st.sub {
            None => subs.push(None),
            Some(sp) => {
                has_sub = true;
                let (sg, nodes) = match build_graph(&ctx, sp, &[]) {
                    Ok(x) => x,
                    Err(_) => return BuildOutcome::FinalizeError(format!("sub-graph of step {} is not buildable", si)),
                };
                let fin = catch(|| -> ciphercore_base::errors::Result<()> {
                    sg.set_output_node(nodes[sp.out_index()].clone())?;
                    sg.finalize()?;
                    Ok(())
                });
                match fin {
                    Ok(Ok(())) => subs.push(Some(sg)),
                    _ => return BuildOutcome::FinalizeError(format!("sub-graph of step {} cannot be finalized", si)),
                }
            }
        }
    }
    let (g, nodes) = match build_graph(&ctx, p, &subs) {
        Ok(x) => x,
        Err(o) => return o,
    };
    if nodes.is_empty() {
        return BuildOutcome::FinalizeError("program without steps".into());
    }
    let fin = catch(|| -> ciphercore_base::errors::Result<()> {
        g.set_output_node(nodes[p.out_index()].clone())?;
        g.finalize()?;
        ctx.set_main_graph(g.clone())?;
        ctx.finalize()?;
        Ok(())
    });
    match fin {
        Ok(Ok(())) => BuildOutcome::Built(Built { ctx, graph: g, step_nodes: nodes, has_sub, out_idx: p.out_index() }),
        Ok(Err(e)) => BuildOutcome::FinalizeError(format!("finalize: {}", e)),
        Err(m) => BuildOutcome::FinalizeError(format!("finalize panic: {}", m)),
    }
}

/// types of the graph's Input nodes in node order (declared inputs first, then Input steps)
fn graph_input_types(g: &Graph) -> Vec<Type> {
    g.get_nodes()
        .iter()
        .filter_map(|n| if let Operation::Input(t) = n.get_operation() { Some(t) } else { None })
        .collect()
}

pub enum RunOutcome {
    /// values of all nodes (walk) or of the output only (graphs with Call / Iterate), with the node ids
    Values(Vec<(usize, Value)>),
    /// node id (usize::MAX: unknown) and message
    Error(usize, String),
    Panic(usize, String),
}

/// the real evaluator, whole context at once (the library's own graph walk)
fn eval_whole(b: &Built, ins: &[Value]) -> Result<Value, (bool, String)> {
    let mut ev = new_eval(EVAL_SEED);
    let c = b.ctx.clone();
    let v = ins.to_vec();
    match catch(move || {
        ev.preprocess(&c)?;
        ev.evaluate_context(c, v)
    }) {
        Ok(Ok(v)) => Ok(v),
        Ok(Err(e)) => Err((false, e.to_string().lines().next().unwrap_or("").to_string())),
        Err(m) => Err((true, m)),
    }
}

fn run_inputs(b: &Built, plan: Option<&Plan>, ins: &[Value]) -> RunOutcome {
    match plan {
        Some(pl) => {
            let mut ev = new_eval(EVAL_SEED);
            match run_global(pl, ins, &mut ev, &mut RealRandomness) {
                Ok(vs) => RunOutcome::Values(vs.into_iter().enumerate().collect()),
                Err((i, m)) => {
                    if let Some(x) = m.strip_prefix("panic: ") {
                        RunOutcome::Panic(i, x.to_string())
                    } else {
                        RunOutcome::Error(i, m.strip_prefix("error: ").unwrap_or(&m).to_string())
                    }
                }
            }
        }
        None => match eval_whole(b, ins) {
            Ok(v) => {
                let out_id = b.step_nodes[b.out_idx].get_id() as usize;
                RunOutcome::Values(vec![(out_id, v)])
            }
            Err((true, m)) => RunOutcome::Panic(usize::MAX, m),
            Err((false, m)) => RunOutcome::Error(usize::MAX, m),
        },
    }
}

#[derive(Default, Clone)]
struct OpStat {
    attempted: u64,
    accepted: u64,
    rejected: u64,
    runs_ok: u64,
    runs_err: u64,
}

struct Viol {
    sig: String,
    what: String,
    case: J,
}

#[derive(Default)]
struct ChunkOut {
    stats: BTreeMap<String, OpStat>,
    counters: BTreeMap<&'static str, u64>,
    viols: Vec<Viol>,
    distinct: Vec<u64>,
    samples: Vec<J>,
    /// accepted programs with their output type (collected only when requested)
    accepted: Vec<(Program, Type)>,
}

impl ChunkOut {
    fn c(&mut self, k: &'static str, n: u64) {
        *self.counters.entry(k).or_insert(0) += n;
    }
    fn viol(&mut self, sig: String, what: String, case: J) {
        if std::env::var("VERIF_C09_DUMP").is_ok() {
            eprintln!("DUMP [{}] {}", sig, what.replace(ciphercore_base::type_inference::NULL_HEADER, "NULL"));
        }
        if self.viols.iter().any(|v| v.sig == sig) {
            self.c("violating_cases_dup", 1);
            return;
        }
        self.viols.push(Viol { sig, what, case });
    }
}

fn case_json(p: &Program, kind: &str, label: &str, ins: Option<&[Value]>) -> J {
    json!({
        "kind": kind,
        "program": serde_json::to_value(p).unwrap_or(J::Null),
        "input_label": label,
        "inputs": ins.map(|v| v.iter().map(inputs::value_to_json).collect::<Vec<_>>()),
        "eval_seed": EVAL_SEED,
    })
}

fn describe(p: &Program) -> String {
    let mut s = String::new();
    for (i, st) in p.steps.iter().enumerate() {
        if i > 0 {
            s.push_str(" ; ");
        }
        let args: Vec<String> = st
            .args
            .iter()
            .map(|a| match a {
                Arg::In(k) => format!("{}", p.inputs[*k]),
                Arg::Step(j) => format!("#{}", j),
            })
            .collect();
        let mut opd = format!("{:?}", st.op);
        if opd.len() > 160 {
            opd.truncate(160);
            opd.push_str("..");
        }
        s.push_str(&format!("{}({})", opd, args.join(", ")));
    }
    s
}

/// Builds and checks one program. `single`: the program is one operation applied to inputs (oracle 3 applies).
fn check_program(p: &Program, single: bool, seed: u64, out: &mut ChunkOut, keep_accepted: bool, want_sample: bool) {
    let last_op = op_name(&p.steps.last().unwrap().op);
    let st_name = if single { last_op.clone() } else { "compose".to_string() };
    out.stats.entry(st_name.clone()).or_default().attempted += 1;
    out.c("programs_offered", 1);
    let b = match build(p) {
        BuildOutcome::Rejected(si, _) => {
            if si == usize::MAX {
                out.c("declared_input_rejected", 1);
            }
            out.stats.entry(st_name).or_default().rejected += 1;
            out.c("rejected_by_builder", 1);
            return;
        }
        BuildOutcome::Panicked(si, m) => {
            let opn = if si == usize::MAX { "Input".to_string() } else { op_name(&p.steps[si].op) };
            out.viol(
                format!("C09:{}:panic:{}", opn, stable(&m)),
                format!("builder panics while adding {}: {} [{}]", opn, m, describe(p)),
                case_json(p, "builder-panic", "", None),
            );
            return;
        }
        BuildOutcome::FinalizeError(m) => {
            out.c("finalize_errors", 1);
            out.viol(
                format!("C09:{}:accepted-but-not-finalizable:{}", last_op, stable(&m)),
                format!("all nodes accepted but the graph cannot be finalized: {} [{}]", m, describe(p)),
                case_json(p, "finalize-error", "", None),
            );
            return;
        }
        BuildOutcome::Built(b) => b,
    };
    out.stats.entry(st_name.clone()).or_default().accepted += 1;
    out.c("accepted_programs", 1);
    let key = serde_json::to_string(p).unwrap_or_default();
    let h = hash_str(&key);
    out.distinct.push(h);
    let out_node = b.step_nodes[p.out_index()].clone();
    let out_type = match out_node.get_type() {
        Ok(t) => t,
        Err(_) => return,
    };
    if keep_accepted {
        out.accepted.push((p.clone(), out_type.clone()));
    }
    let plan = if b.has_sub {
        None
    } else {
        match Plan::new(&b.graph) {
            Ok(pl) => Some(pl),
            Err(m) => {
                out.c("plan_errors", 1);
                out.viol(format!("C09:{}:plan-error", last_op), m, case_json(p, "plan-error", "", None));
                return;
            }
        }
    };
    let node_types: Vec<Type> = b.graph.get_nodes().iter().map(|n| n.get_type().unwrap()).collect();
    let node_ops: Vec<Operation> = b.graph.get_nodes().iter().map(|n| n.get_operation()).collect();
    let in_types = graph_input_types(&b.graph);
    let mut sm = SplitMix(seed ^ h ^ 0xC09C09);
    let single_op = if single { Some(&p.steps[0].op) } else { None };
    let alphabet = inputs::input_alphabet(&in_types, single_op, &mut sm);
    let mut n_ok = 0u64;
    let mut n_panics = 0u64;
    let mut first_err: Option<(usize, String, String, Vec<Value>)> = None;
    let mut crafted_ok = false;
    let mut plain_ok = false;
    for (label, ins) in alphabet.iter() {
        // the harness's own inputs must fit the declared types
        for (v, t) in ins.iter().zip(in_types.iter()) {
            if !vals::layout_ok(v, t) {
                out.c("harness_bad_input", 1);
            }
        }
        out.c("evaluations", 1);
        if label.starts_with("seeded") {
            out.c("extra_seeded_cases", 1);
        }
        match run_inputs(&b, plan.as_ref(), ins) {
            RunOutcome::Values(vs) => {
                n_ok += 1;
                out.stats.entry(st_name.clone()).or_default().runs_ok += 1;
                if label.starts_with("crafted") {
                    crafted_ok = true;
                } else if !label.starts_with("seeded") {
                    plain_ok = true;
                }
                for (id, v) in vs.iter() {
                    out.c("node_values_checked", 1);
                    let t = &node_types[*id];
                    if !vals::layout_ok(v, t) {
                        let opn = op_name(&node_ops[*id]);
                        let lib = v.check_type(t.clone()).map(|x| x.to_string()).unwrap_or_else(|e| format!("Err({})", e));
                        out.viol(
                            format!("C09:{}:type-mismatch", opn),
                            format!(
                                "value of node {} ({}) does not have the layout of its inferred type {} (library check_type says {}) on input '{}' [{}]",
                                id, opn, t, lib, label, describe(p)
                            ),
                            case_json(p, "type-mismatch", label, Some(ins)),
                        );
                    }
                }
                // cross-check of the node walk against the library's own graph walk (first input only)
                if plan.is_some() && label == "zeros" {
                    out.c("whole_graph_crosschecks", 1);
                    let walked = vs.iter().find(|(id, _)| *id == out_node.get_id() as usize).map(|x| x.1.clone());
                    match (eval_whole(&b, ins), walked) {
                        (Ok(w), Some(v)) => {
                            let (mut k1, mut k2) = (vec![], vec![]);
                            vals::key(&w, &mut k1);
                            vals::key(&v, &mut k2);
                            if k1 != k2 {
                                out.viol(
                                    format!("C09:{}:evaluate_graph-differs-from-node-walk", last_op),
                                    format!("evaluate_context and node-by-node evaluation give different outputs [{}]", describe(p)),
                                    case_json(p, "walk-mismatch", label, Some(ins)),
                                );
                            }
                        }
                        (Err((is_panic, m)), _) => {
                            let sig = if is_panic {
                                format!("C09:{}:panic:{}", last_op, stable(&m))
                            } else {
                                format!("C09:{}:evaluate_graph-fails-where-node-walk-succeeds", last_op)
                            };
                            out.viol(
                                sig,
                                format!("evaluate_context fails ({}) although every node evaluates [{}]", m, describe(p)),
                                case_json(p, "walk-mismatch", label, Some(ins)),
                            );
                        }
                        _ => {}
                    }
                }
            }
            RunOutcome::Error(id, m) => {
                out.stats.entry(st_name.clone()).or_default().runs_err += 1;
                out.c("runtime_errors", 1);
                if first_err.is_none() {
                    first_err = Some((id, m, label.clone(), ins.clone()));
                }
            }
            RunOutcome::Panic(id, m) => {
                out.c("panics", 1);
                n_panics += 1;
                let opn = if id == usize::MAX { last_op.clone() } else { op_name(&node_ops[id]) };
                out.viol(
                    format!("C09:{}:panic:{}", opn, stable(&m)),
                    format!("evaluator panics at node {} ({}) on input '{}': {} [{}]", id, opn, label, m, describe(p)),
                    case_json(p, "panic", label, Some(ins)),
                );
            }
        }
    }
    if n_ok > 0 {
        out.c("programs_evaluated_ok", 1);
        if crafted_ok && !plain_ok {
            out.c("programs_ok_only_on_precondition_inputs", 1);
        }
    } else if let Some((id, m, label, ins)) = first_err {
        out.c("programs_never_ok", 1);
        // a program that panics is reported as such (oracle 1), not a second time by oracle 3
        // Oracle 3 is about ARGUMENTS THAT DO NOT FIT (type / shape / arity problems that type inference should have
        // rejected). Two error classes are admissible runtime errors in the sense of the property statement and are
        // counted, not flagged: an operation the plain evaluator does not implement (Shard*: "Not implemented"), and
        // the data-dependent failure of cuckoo hashing (documented as a runtime outcome of CuckooHash).
        let admissible_runtime = m.contains("Not implemented") || m.contains("Cuckoo hashing failed");
        if single && n_panics == 0 && admissible_runtime {
            out.c("programs_never_ok_with_admissible_runtime_error", 1);
        }
        if single && n_panics == 0 && !admissible_runtime {
            let opn = if id == usize::MAX { last_op.clone() } else { op_name(&node_ops[id]) };
            out.viol(
                format!("C09:{}:accepted-but-never-evaluates:{}{}", opn, stable_err(&m), never_eval_class(&p.steps[0].op, &in_types)),
                format!(
                    "node accepted by the builder, but evaluation fails on all {} inputs of the alphabet (first: '{}': {}) [{}]",
                    alphabet.len(), label, m, describe(p)
                ),
                case_json(p, "never-evaluates", &label, Some(&ins)),
            );
        }
    }
    if want_sample && out.samples.len() < 2 {
        out.samples.push(json!({"program": describe(p), "output_type": format!("{}", out_type), "inputs_tried": alphabet.len(), "inputs_ok": n_ok}));
    }
}

fn merge(r: &Report, total: &mut BTreeMap<String, OpStat>, co: ChunkOut, accepted: &mut Vec<(Program, Type)>) {
    for (k, s) in co.stats {
        let e = total.entry(k).or_default();
        e.attempted += s.attempted;
        e.accepted += s.accepted;
        e.rejected += s.rejected;
        e.runs_ok += s.runs_ok;
        e.runs_err += s.runs_err;
    }
    for (k, n) in co.counters {
        r.count(k, n);
    }
    for h in co.distinct {
        r.distinct(h);
    }
    for s in co.samples {
        r.sample(s);
    }
    for v in co.viols {
        r.violation(&v.sig, &v.what, v.case);
    }
    accepted.extend(co.accepted);
}

/// Enumerates one operation space completely (chunks in parallel, merged in enumeration order).
fn explore_space(
    r: &Report,
    sp: &OpSpace,
    total: &mut BTreeMap<String, OpStat>,
    keep_accepted: bool,
    accepted: &mut Vec<(Program, Type)>,
) {
    let n = sp.size();
    let nchunks = (n + CHUNK - 1) / CHUNK;
    let seed = r.seed;
    let outs: Vec<ChunkOut> = (0..nchunks)
        .into_par_iter()
        .map(|ci| {
            let mut co = ChunkOut::default();
            let lo = ci * CHUNK;
            let hi = ((ci + 1) * CHUNK).min(n);
            for idx in lo..hi {
                let p = sp.program(idx);
                check_program(&p, true, seed, &mut co, keep_accepted, ci == 0);
            }
            co
        })
        .collect();
    for co in outs {
        merge(r, total, co, accepted);
    }
}

/// second halves of compositions: every case of every space in which one argument position is fed by the
/// first program's output and the other positions range over the space's alphabets
fn compositions_of(first: &Program, spaces: &[OpSpace], f: &mut dyn FnMut(Program)) {
    let s0 = first.steps.len();
    for sp in spaces.iter() {
        let arities: Vec<(usize, Vec<std::sync::Arc<Vec<Type>>>)> = match &sp.args {
            ArgSpace::Fixed(v) => vec![(v.len(), v.clone())],
            ArgSpace::Variadic { min, max, alpha } => {
                (*min..=*max).map(|a| (a, vec![alpha.clone(); a])).collect()
            }
        };
        for (arity, alphas) in arities {
            for pos in 0..arity {
                // other positions: product
                let others: Vec<usize> = (0..arity).filter(|q| *q != pos).collect();
                let total: u64 = others.iter().map(|q| alphas[*q].len() as u64).product();
                for (op, sub) in sp.params.iter() {
                    if sub.is_some() {
                        continue;
                    }
                    for mut idx in 0..total {
                        let mut p = first.clone();
                        let mut args = vec![Arg::Step(s0 - 1); arity];
                        for q in others.iter().rev() {
                            let n = alphas[*q].len() as u64;
                            let t = alphas[*q][(idx % n) as usize].clone();
                            idx /= n;
                            p.inputs.push(t);
                            args[*q] = Arg::In(p.inputs.len() - 1);
                        }
                        p.steps.push(Step { op: op.clone(), args, sub: None });
                        f(p);
                    }
                }
            }
        }
    }
}

/// anyhow captures a backtrace for every Err when RUST_BACKTRACE is set (millions of rejected nodes here):
/// 4x the CPU time and a global lock. Library backtraces are of no use to the check.
fn quiet_backtraces() {
    std::env::set_var("RUST_LIB_BACKTRACE", "0");
}

/// Graph shapes: a chain of cheap operations in which every step may read any earlier step, with EVERY step as the
/// output node - so the output has readers, is followed by dead nodes, or is the last node - as the main graph, as
/// the body of a Call and as the body of an Iterate. (The library's own graph walk frees values it no longer needs;
/// which values those are depends on the shape, not on the operations.)
fn shape_programs(thorough: bool) -> Vec<Program> {
    use ciphercore_base::data_types::{array_type, vector_type, INT32};
    let t = array_type(vec![2], INT32);
    let menu = |j: usize| -> Vec<Step> {
        vec![
            alpha::step(Operation::Add, vec![Arg::Step(j), Arg::In(0)]),
            alpha::step(Operation::NOP, vec![Arg::Step(j)]),
            alpha::step(Operation::Print("dbg".to_string()), vec![Arg::Step(j)]),
            alpha::step(Operation::Sum(vec![0]), vec![Arg::Step(j)]),
            alpha::step(Operation::CreateTuple, vec![Arg::Step(j), Arg::Step(j)]),
        ]
    };
    let nmax = if thorough { 4 } else { 3 };
    let mut chains: Vec<Vec<Step>> = vec![vec![alpha::step(Operation::Add, vec![Arg::In(0), Arg::In(1)])]];
    let mut all: Vec<Vec<Step>> = vec![];
    for _ in 1..nmax {
        let mut next = vec![];
        for c in chains.iter() {
            for j in 0..c.len() {
                for st in menu(j) {
                    let mut d = c.clone();
                    d.push(st);
                    next.push(d);
                }
            }
        }
        all.extend(next.iter().cloned());
        chains = next;
    }
    let mut out = vec![];
    for steps in all {
        for o in 0..steps.len() {
            let body = Program { inputs: vec![t.clone(), t.clone()], steps: steps.clone(), out: Some(o) };
            out.push(body.clone());
            // the same graph as the body of a Call (only bodies the builder accepts: a rejected body is the
            // main-graph case above)
            if !matches!(build(&body), BuildOutcome::Built(_)) {
                continue;
            }
            out.push(Program {
                inputs: vec![t.clone(), t.clone()],
                steps: vec![Step { op: Operation::Call, args: vec![Arg::In(0), Arg::In(1)], sub: Some(Box::new(body)) }],
                out: None,
            });
        }
        // as the body of an Iterate: (state, x) -> (state + x, x) built first, the chain's later steps after the output
        let mut it = vec![
            alpha::step(Operation::Add, vec![Arg::In(0), Arg::In(1)]),
            alpha::step(Operation::CreateTuple, vec![Arg::Step(0), Arg::In(1)]),
        ];
        for st in steps.iter().skip(1) {
            // shift the chain's step references by one (step 0 of the chain = step 0 here, later ones follow the tuple)
            let args = st.args.iter().map(|a| match a { Arg::Step(j) if *j > 0 => Arg::Step(*j + 1), x => x.clone() }).collect();
            it.push(Step { op: st.op.clone(), args, sub: None });
        }
        let body = Program { inputs: vec![t.clone(), t.clone()], steps: it, out: Some(1) };
        if !matches!(build(&body), BuildOutcome::Built(_)) {
            continue;
        }
        out.push(Program {
            inputs: vec![t.clone(), vector_type(3, t.clone())],
            steps: vec![Step { op: Operation::Iterate, args: vec![Arg::In(0), Arg::In(1)], sub: Some(Box::new(body)) }],
            out: None,
        });
    }
    out
}

pub fn run(r: &Report) -> i32 {
    quiet_backtraces();
    let level = if r.tier.thorough() { Level::Thorough } else { Level::Quick };
    let spaces = alpha::op_spaces(level);
    let mut total: BTreeMap<String, OpStat> = BTreeMap::new();
    let mut sink = vec![];
    let mut space_sizes = vec![];
    for sp in spaces.iter() {
        space_sizes.push(json!({"op": sp.name, "params": sp.params.len(), "arg_tuples": sp.args.size(), "cases": sp.size()}));
        let t0 = r.elapsed();
        explore_space(r, sp, &mut total, false, &mut sink);
        if std::env::var("VERIF_C09_TIMING").is_ok() {
            eprintln!("TIMING {} cases={} {:.2}s", sp.name, sp.size(), r.elapsed() - t0);
        }
    }
    r.extra("spaces", J::Array(space_sizes));
    r.count("single_operation_programs", r.get("programs_offered"));
    {
        // graph shapes (see shape_programs)
        let progs = shape_programs(r.tier.thorough());
        let seed = r.seed;
        let before = r.get("accepted_programs");
        let outs: Vec<ChunkOut> = progs
            .par_chunks(64)
            .map(|ps| {
                let mut co = ChunkOut::default();
                for p in ps {
                    check_program(p, false, seed, &mut co, false, false);
                }
                co
            })
            .collect();
        let mut scratch: BTreeMap<String, OpStat> = BTreeMap::new();
        for co in outs {
            merge(r, &mut scratch, co, &mut sink);
        }
        r.count("shape_programs_offered", progs.len() as u64);
        r.count("shape_programs_accepted", r.get("accepted_programs") - before);
    }

    let budget_s: f64 = std::env::var("VERIF_C09_BUDGET_S").ok().and_then(|s| s.parse().ok()).unwrap_or(480.0);
    if r.tier.thorough() {
        // all two-operation compositions over the reduced alphabets
        let cspaces = alpha::op_spaces(Level::Compose);
        let mut firsts: Vec<(Program, Type)> = vec![];
        let mut scratch: BTreeMap<String, OpStat> = BTreeMap::new();
        // the first halves are re-enumerated over the reduced alphabets (their verdicts are part of the run, too)
        let before = r.get("programs_offered");
        for sp in cspaces.iter() {
            explore_space(r, sp, &mut scratch, true, &mut firsts);
        }
        r.count("compose_first_halves_offered", r.get("programs_offered") - before);
        r.count("compose_first_halves_accepted", firsts.len() as u64);
        let seed = r.seed;
        let group = 8usize;
        let mut done = 0usize;
        for batch in firsts.chunks(group * 64) {
            if r.elapsed() > budget_s {
                r.cap_hit(&format!(
                    "time budget {} s: compositions enumerated for {} of {} first operations",
                    budget_s, done, firsts.len()
                ));
                break;
            }
            let outs: Vec<ChunkOut> = batch
                .par_chunks(group)
                .map(|fs| {
                    let mut co = ChunkOut::default();
                    for (fp, _ft) in fs {
                        compositions_of(fp, &cspaces, &mut |p| {
                            check_program(&p, false, seed, &mut co, false, false);
                        });
                    }
                    co
                })
                .collect();
            for co in outs {
                merge(r, &mut total, co, &mut sink);
            }
            done += batch.len();
        }
        r.count("compose_first_halves_expanded", done as u64);
    }

    // per-operation table, coverage of the operation list
    let mut per_op = serde_json::Map::new();
    let mut missing = vec![];
    let mut never_ok = vec![];
    for name in alpha::ALL_OPS.iter() {
        let s = total.get(*name).cloned().unwrap_or_default();
        if s.accepted == 0 {
            missing.push(name.to_string());
        } else {
            r.count("ops_with_accepted_case", 1);
        }
        if s.accepted > 0 && s.runs_ok == 0 {
            never_ok.push(name.to_string());
        } else if s.runs_ok > 0 {
            r.count("ops_with_successful_evaluation", 1);
        }
    }
    for (k, s) in total.iter() {
        per_op.insert(
            k.clone(),
            json!({"offered": s.attempted, "accepted": s.accepted, "rejected": s.rejected, "runs_ok": s.runs_ok, "runs_runtime_error": s.runs_err}),
        );
    }
    r.extra("per_operation", J::Object(per_op));
    r.extra("operations_never_evaluated_successfully", json!(never_ok));
    r.count("ops_enumerated", alpha::ALL_OPS.len() as u64);
    if !missing.is_empty() {
        println!("MACHINERY-ERROR property=C09 vacuous: no accepted case for operations {:?}", missing);
        return 2;
    }
    if r.get("harness_bad_input") > 0 || r.get("declared_input_rejected") > 0 {
        println!(
            "MACHINERY-ERROR property=C09 harness inputs do not fit their types ({} values, {} declared inputs rejected)",
            r.get("harness_bad_input"),
            r.get("declared_input_rejected")
        );
        return 2;
    }
    r.finish(
        "exploration",
        "every primitive operation x parameter alphabet x argument-type tuples from the type alphabet (scalars, arrays rank 1-3 dims 1..3, \
         tuples, named tuples, vectors incl. length 0, tables) offered to Graph::add_node; accepted programs are evaluated on \
         {zeros, ones, max, iota, reversed iota, row-iota, precondition-satisfying inputs, 2 seed-derived}; thorough adds all \
         two-operation compositions over reduced alphabets. evaluations = program executions; distinct = accepted programs",
        true,
        &[
            "Custom operations are not primitive and are not enumerated; Call/Iterate are evaluated through evaluate_context only (output value checked)",
            "oracle 3 (accepted implies evaluable) is applied to single-operation programs only; in compositions the data precondition of the second operation depends on the first",
            "CuckooHash: benign inputs are row-distinct strings with structured/seeded hash matrices; a shape for which none of them hashes is reported",
            "inputs and constants are clean encodings (no stray bits); the check is that the evaluator never produces values that do not fit the inferred type",
        ],
        &["evaluations", "accepted_programs", "rejected_by_builder", "node_values_checked", "runtime_errors", "ops_with_accepted_case", "whole_graph_crosschecks", "programs_ok_only_on_precondition_inputs"],
    )
}

pub fn replay(r: &Report, rec: &serde_json::Value) -> i32 {
    quiet_backtraces();
    let case = &rec["case"];
    let p: Program = match serde_json::from_value(case["program"].clone()) {
        Ok(p) => p,
        Err(e) => {
            println!("MACHINERY-ERROR property=C09 cannot parse program: {}", e);
            return 2;
        }
    };
    let kind = case["kind"].as_str().unwrap_or("");
    let sig = rec["signature"].as_str().unwrap_or("");
    println!("replay C09 kind={} program: {}", kind, describe(&p));
    println!("expected (property): builder rejects, or evaluation returns a value of the inferred type / a runtime error, never a panic; an accepted node evaluates on some input");
    let seed = rec["seed"].as_u64().unwrap_or(r.seed);
    if let BuildOutcome::Rejected(si, m) = build(&p) {
        println!("observed: the builder rejects step {}: {}", si, m.lines().next().unwrap_or(""));
    }
    let mut co = ChunkOut::default();
    check_program(&p, p.steps.len() == 1, seed, &mut co, false, false);
    let mut hit = false;
    for v in co.viols.iter() {
        println!("observed: [{}] {}", v.sig, v.what);
        if v.sig == sig || sig.is_empty() {
            hit = true;
        }
    }
    // additionally re-run the recorded input alone
    if let Some(arr) = case["inputs"].as_array() {
        let ins: Option<Vec<Value>> = arr.iter().map(inputs::json_to_value).collect();
        if let (Some(ins), BuildOutcome::Built(b)) = (ins, build(&p)) {
            let plan = if b.has_sub { None } else { Plan::new(&b.graph).ok() };
            match run_inputs(&b, plan.as_ref(), &ins) {
                RunOutcome::Values(vs) => {
                    let (id, v) = vs.last().unwrap();
                    let t = b.graph.get_nodes()[*id].get_type().unwrap();
                    println!("recorded input '{}': output {} of inferred type {} layout_ok={}", case["input_label"].as_str().unwrap_or(""), vals::show(v, &t), t, vals::layout_ok(v, &t));
                }
                RunOutcome::Error(id, m) => println!("recorded input: runtime error at node {}: {}", id, m),
                RunOutcome::Panic(id, m) => println!("recorded input: PANIC at node {}: {}", id, m),
            }
        }
    }
    if co.viols.is_empty() {
        println!("observed: no violation");
    }
    if hit {
        1
    } else {
        0
    }
}
