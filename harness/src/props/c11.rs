//! C11 - Graph-building API keeps contexts well-formed; failed calls have no effect.
//!
//! Explicit-state BFS over API-call histories executed on REAL Context/Graph/Node objects.
//! * state = (prelude, history of successful calls); dedup key = hash of the observation of the real
//!   objects (public getters + serde_json::to_string(&context) of both contexts);
//! * every transition rebuilds the real objects by replaying the history and applies one more real call;
//! * engine 1 (all checks): in-crate level-synchronous BFS, rayon over the frontier, merged in order;
//! * engine 2 (cross-check): the same transition function as a stateright 0.31 `Model`, parallel BFS
//!   with `target_max_depth`; unique state counts of both engines must agree.
mod alpha;
mod model;
mod real;

use crate::common::Report;
use alpha::*;
use model::{Model, Why};
use rayon::prelude::*;
use real::{observe, Obs, Out, World};
use serde_json::{json, Value as J};
use stateright::{Checker, Model as SrModelTrait, Property};
use std::collections::{BTreeMap, HashSet};
use std::hash::{Hash, Hasher};
use std::sync::atomic::{AtomicU64, Ordering};
use std::sync::Arc;

const LIMITS: (u64, u64) = (1000, 10000);

struct Env {
    alpha: Vec<Act>,
    preludes: Vec<(&'static str, Vec<Act>)>,
    limits: Option<(u64, u64)>,
}

#[derive(Clone, Debug)]
struct St {
    prelude: usize,
    hist: Vec<u8>,
    model: Model,
    dh: u128,
}

struct Viol {
    sig: String,
    what: String,
    case: J,
}

#[derive(Default)]
struct Expansion {
    succ: Vec<St>,
    cnt: BTreeMap<&'static str, u64>,
    viols: Vec<Viol>,
    samples: Vec<(&'static str, J)>,
}
impl Expansion {
    fn c(&mut self, k: &'static str) {
        *self.cnt.entry(k).or_insert(0) += 1;
    }
}

impl Env {
    fn new(limits: Option<(u64, u64)>) -> Env {
        Env { alpha: alphabet(), preludes: preludes(), limits }
    }

    /// fresh real objects for (prelude . history); every replayed call must succeed again
    fn build(&self, prelude: usize, hist: &[u8]) -> Result<World, String> {
        let w = World::new();
        for a in self.preludes[prelude].1.iter().chain(hist.iter().map(|i| &self.alpha[*i as usize])) {
            let o = w.exec(a);
            if !o.is_ok() {
                return Err(format!("replayed call {:?} gives {}", a, o.show()));
            }
        }
        Ok(w)
    }

    fn init(&self, prelude: usize) -> Result<(St, Obs), String> {
        let mut m = Model::new(self.limits);
        for a in self.preludes[prelude].1.iter() {
            m.apply(a).map_err(|w| format!("prelude {}: model rejects {:?}: {:?}", self.preludes[prelude].0, a, w))?;
        }
        let w = self.build(prelude, &[]).map_err(|e| format!("prelude {}: {}", self.preludes[prelude].0, e))?;
        let o = observe(&w, true)?;
        Ok((St { prelude, hist: vec![], model: m, dh: o.hash() }, o))
    }

    fn case(&self, st: &St, check: &str, action: Option<usize>, cont: Option<usize>) -> J {
        json!({
            "check": check,
            "prelude": st.prelude,
            "prelude_name": self.preludes[st.prelude].0,
            "history": st.hist,
            "history_calls": st.hist.iter().map(|i| format!("{:?}", self.alpha[*i as usize])).collect::<Vec<_>>(),
            "action": action,
            "action_call": action.map(|i| format!("{:?}", self.alpha[i])),
            "continuation": cont,
            "continuation_call": cont.map(|i| format!("{:?}", self.alpha[i])),
            "limits_build": self.limits.is_some(),
        })
    }

    /// model conformance + invariants of the state observed after `a` (or of an initial state)
    fn check_state(&self, m: &Model, o: &Obs, tag: &str, out: &mut Vec<(String, String)>) {
        for (name, msg) in o.broken.iter() {
            out.push((format!("C11:invariant:{}", name), msg.clone()));
        }
        let mt = m.text();
        if mt != o.text {
            let (e, g) = first_diff(&mt, &o.text);
            out.push((
                format!("C11:dump-mismatch:{}", tag),
                format!("public getters disagree with the reference model: expected `{}` observed `{}`", e, g),
            ));
        }
        if let Some(d) = &o.data {
            for c in [Cx::A, Cx::B] {
                let exp = m.json(c);
                if exp != d[c.ix()] {
                    out.push((
                        format!("C11:serialized-mismatch:{}", tag),
                        format!("serialized ctx{} differs from the reference model: expected {} observed {}", c.ix(), exp, d[c.ix()]),
                    ));
                }
            }
        }
    }

    /// Executes every enabled action on a fresh replay of the state (baseline), checks each transition,
    /// then runs the differential continuation for every failing transition.
    /// `only` restricts to one action (replay mode).
    fn expand(&self, st: &St, only: Option<(usize, Option<usize>)>) -> Expansion {
        let mut ex = Expansion::default();
        let enabled: Vec<usize> = (0..self.alpha.len()).filter(|i| st.model.enabled(&self.alpha[*i])).collect();
        // baseline[i] = (outcome, dump hash) of (h . a_i)
        let mut baseline: BTreeMap<usize, (Out, u128)> = BTreeMap::new();
        // calls without observable effect: rejected calls and no-op successes, with a label of the reason
        let mut failing: Vec<(usize, String)> = vec![];
        for &ai in enabled.iter() {
            if let Some((oa, oc)) = only {
                // replay mode: the action itself, plus the continuation baseline
                if ai != oa && Some(ai) != oc {
                    continue;
                }
            }
            let a = &self.alpha[ai];
            let kind = a.kind();
            let w = match self.build(st.prelude, &st.hist) {
                Ok(w) => w,
                Err(e) => {
                    ex.viols.push(Viol {
                        sig: "C11:replay-nondeterministic".into(),
                        what: format!("replaying a history of successful calls fails: {}", e),
                        case: self.case(st, "transition", Some(ai), None),
                    });
                    continue;
                }
            };
            let out = w.exec(a);
            ex.c("transitions");
            ex.c("evaluations");
            let obs = match observe(&w, true) {
                Ok(o) => o,
                Err(p) => {
                    ex.viols.push(Viol {
                        sig: format!("C11:panic:observe-after:{}", kind),
                        what: format!("getters / serializer panic after {:?}: {}", a, p),
                        case: self.case(st, "transition", Some(ai), None),
                    });
                    continue;
                }
            };
            let h = obs.hash();
            let mut m2 = st.model.clone();
            let pred = m2.apply(a);
            let mut problems: Vec<(String, String)> = vec![];
            if let Out::Panic(p) = &out {
                problems.push((format!("C11:panic:{}", kind), format!("{:?} panics: {}", a, p)));
            }
            match (&pred, out.is_ok()) {
                (Ok(()), false) => problems.push((
                    format!("C11:outcome:{}:rejected-but-valid", kind),
                    format!("{:?} must succeed, observed {}", a, out.show()),
                )),
                (Err(why), true) => problems.push((
                    format!("C11:outcome:{}:accepted-but-invalid:{:?}", kind, why),
                    format!("{:?} must be rejected ({:?}), observed Ok", a, why),
                )),
                _ => {}
            }
            ex.c("traces_validated_against_impl");
            self.check_state(&m2, &obs, &format!("after-{}-{}", kind, if out.is_ok() { "ok" } else { "err" }), &mut problems);
            if !out.is_ok() && h != st.dh {
                let why = pred.err().map(|w| format!("{:?}", w)).unwrap_or_else(|| "unexpected".into());
                problems.push((
                    format!("C11:failed-call-changed-state:{}:{}", kind, why),
                    format!("{:?} returned {} but the observable state changed", a, out.show()),
                ));
            }
            let clean_state = problems.is_empty();
            for (sig, what) in problems {
                ex.viols.push(Viol { sig, what, case: self.case(st, "transition", Some(ai), None) });
            }
            baseline.insert(ai, (out.clone(), h));
            if out.is_ok() {
                match a {
                    Act::Call(..) => ex.c("call_ok"),
                    Act::Iterate(..) => ex.c("iterate_ok"),
                    Act::Not(..) => ex.c("custom_ok"),
                    Act::FinalizeCtx(..) => ex.c("context_finalize_ok"),
                    _ => {}
                }
                if h == st.dh {
                    ex.c("noop_success_transitions");
                    failing.push((ai, "NoopOk".into()));
                } else {
                    ex.c("successful_transitions");
                    // a state that already violates something is reported once and not explored further
                    if pred.is_ok() && clean_state {
                        let mut hist = st.hist.clone();
                        hist.push(ai as u8);
                        ex.succ.push(St { prelude: st.prelude, hist, model: m2, dh: h });
                    }
                }
            } else {
                ex.c("failing_transitions");
                let why = pred.err();
                let key: &'static str = match why {
                    Some(Why::TypeError) => "rollback_type_error",
                    Some(Why::SizeIndividual) => "rollback_size_individual",
                    Some(Why::SizeTotal) => "rollback_size_total",
                    Some(Why::GraphFinalized) | Some(Why::OutputAlreadySet)
                        if a.adds_node_to().is_some() || matches!(a, Act::SetOutput(..)) =>
                    {
                        "reject_in_finalized_graph"
                    }
                    Some(Why::BadNodeDeps) => "reject_bad_node_dependency",
                    Some(Why::BadCallee) => "reject_bad_callee",
                    Some(Why::ForeignCtx) => "reject_foreign_context",
                    Some(Why::NameTwice) | Some(Why::NameTaken) => "reject_name_clash",
                    _ => "reject_other",
                };
                ex.c(key);
                if st.model.ctx[0].finalized && !matches!(a, Act::CreateGraph(Cx::B) | Act::Input(G(Cx::B, _), _) | Act::Add(G(Cx::B, _), ..) | Act::SetOutput(G(Cx::B, _), _) | Act::Finalize(G(Cx::B, _))) {
                    ex.c("reject_in_finalized_context");
                }
                if let Some(wy) = why {
                    if wy.is_rollback() {
                        ex.samples.push((key, json!({"prelude": self.preludes[st.prelude].0,
                            "history": st.hist.iter().map(|i| format!("{:?}", self.alpha[*i as usize])).collect::<Vec<_>>(),
                            "failing_call": format!("{:?}", a), "library_error": out.show(), "model_reason": format!("{:?}", wy)})));
                    }
                    failing.push((ai, format!("{:?}", wy)));
                } else {
                    failing.push((ai, "Unexpected".into())); // outcome violation already reported; still check residue
                }
            }
        }

        // differential continuation: (h . f . a) must behave like (h . a) for every a
        for (fi, why) in failing.iter() {
            let fi = *fi;
            if let Some((oa, _)) = only {
                if fi != oa {
                    continue;
                }
            }
            let f = &self.alpha[fi];
            let rebuild = || -> Result<World, String> {
                let w = self.build(st.prelude, &st.hist)?;
                let o = w.exec(f);
                if o != baseline[&fi].0 {
                    return Err(format!("failing call {:?} gives {} on a second run, first {}", f, o.show(), baseline[&fi].0.show()));
                }
                Ok(w)
            };
            let mut w = match rebuild() {
                Ok(w) => w,
                Err(e) => {
                    ex.viols.push(Viol { sig: "C11:replay-nondeterministic".into(), what: e, case: self.case(st, "continuation", Some(fi), None) });
                    continue;
                }
            };
            ex.c("continuation_rebuilds");
            let mut dirty = false;
            let mut chain: Vec<usize> = vec![]; // effect-free calls executed on `w` since the last rebuild
            for &ai in enabled.iter() {
                if let Some((_, Some(oc))) = only {
                    if ai != oc {
                        continue;
                    }
                }
                let base = match baseline.get(&ai) {
                    Some(b) => b,
                    None => continue,
                };
                if dirty {
                    w = match rebuild() {
                        Ok(w) => w,
                        Err(_) => break,
                    };
                    ex.c("continuation_rebuilds");
                    dirty = false;
                    chain.clear();
                }
                let a = &self.alpha[ai];
                let run = |w: &World| -> (Out, u128) {
                    let o = w.exec(a);
                    let h = observe(w, false).map(|o| o.hash()).unwrap_or(0);
                    (o, h)
                };
                let got = run(&w);
                ex.c("continuations");
                ex.c("evaluations");
                if got.1 != st.dh {
                    dirty = true;
                }
                if got != *base {
                    // attribute: repeat on a clean (h . f)
                    let clean = rebuild().map(|w2| run(&w2));
                    dirty = true;
                    match clean {
                        Ok(c) if c != *base => ex.viols.push(Viol {
                            sig: format!("C11:residue:{}:{}", f.kind(), why),
                            what: format!(
                                "after the effect-free call {:?} ({}), {:?} gives {} / dump {:032x}; without that call it gives {} / dump {:032x}",
                                f, baseline[&fi].0.show(), a, c.0.show(), c.1, base.0.show(), base.1
                            ),
                            case: self.case(st, "continuation", Some(fi), Some(ai)),
                        }),
                        _ => {
                            // a call of the chain is the culprit; if it is one call c alone, (h . c . a) differs too and
                            // c's own continuation loop reports it with c's signature
                            let single = chain.iter().any(|c| {
                                self.build(st.prelude, &st.hist)
                                    .map(|w3| {
                                        w3.exec(&self.alpha[*c]);
                                        run(&w3) != *base
                                    })
                                    .unwrap_or(false)
                            });
                            if single {
                                ex.c("chain_mismatches_attributed_to_one_call");
                            } else {
                                let mut case = self.case(st, "chain", Some(fi), Some(ai));
                                case["chain"] = json!(chain);
                                ex.viols.push(Viol {
                                    sig: "C11:residue-after-chain-of-effect-free-calls".into(),
                                    what: format!(
                                        "after {:?} and the effect-free calls {:?}, {:?} gives {} / dump {:032x}; on the unchanged state it gives {} / dump {:032x}",
                                        f, chain.iter().map(|c| format!("{:?}", self.alpha[*c])).collect::<Vec<_>>(), a, got.0.show(), got.1, base.0.show(), base.1
                                    ),
                                    case,
                                });
                            }
                        }
                    }
                } else if got.1 == st.dh {
                    chain.push(ai);
                }
            }
        }
        ex
    }
}

fn first_diff(a: &str, b: &str) -> (String, String) {
    let (la, lb): (Vec<&str>, Vec<&str>) = (a.lines().collect(), b.lines().collect());
    for i in 0..la.len().max(lb.len()) {
        let (x, y) = (la.get(i).copied().unwrap_or("<missing>"), lb.get(i).copied().unwrap_or("<missing>"));
        if x != y {
            return (x.trim().to_string(), y.trim().to_string());
        }
    }
    ("".into(), "".into())
}

// ---------------------------------------------------------------------------------------------
// engine 2: the same transition system as a stateright Model (state invariants as `always` property)

#[derive(Clone, Debug)]
struct SrState {
    st: St,
    bad: bool,
}
impl PartialEq for SrState {
    fn eq(&self, o: &Self) -> bool {
        self.st.prelude == o.st.prelude && self.st.dh == o.st.dh
    }
}
impl Eq for SrState {}
impl Hash for SrState {
    fn hash<H: Hasher>(&self, h: &mut H) {
        self.st.prelude.hash(h);
        self.st.dh.hash(h);
    }
}

struct SrModel {
    env: Arc<Env>,
    transitions: Arc<AtomicU64>,
}

impl SrModelTrait for SrModel {
    type State = SrState;
    type Action = u8;
    fn init_states(&self) -> Vec<SrState> {
        (0..self.env.preludes.len())
            .filter_map(|p| self.env.init(p).ok())
            .map(|(st, o)| {
                let mut pr = vec![];
                self.env.check_state(&st.model, &o, "init", &mut pr);
                SrState { st, bad: !pr.is_empty() }
            })
            .collect()
    }
    fn actions(&self, s: &SrState, actions: &mut Vec<u8>) {
        for (i, a) in self.env.alpha.iter().enumerate() {
            if s.st.model.enabled(a) {
                actions.push(i as u8);
            }
        }
    }
    fn next_state(&self, s: &SrState, ai: u8) -> Option<SrState> {
        // rebuild real objects by replaying the history, apply one more real call
        let a = &self.env.alpha[ai as usize];
        let w = self.env.build(s.st.prelude, &s.st.hist).ok()?;
        let out = w.exec(a);
        self.transitions.fetch_add(1, Ordering::Relaxed);
        let obs = observe(&w, true).ok()?;
        let h = obs.hash();
        if !out.is_ok() || h == s.st.dh {
            return None; // failing / no-op calls are self-loops
        }
        let mut m2 = s.st.model.clone();
        let pred = m2.apply(a);
        let mut pr = vec![];
        self.env.check_state(&m2, &obs, "sr", &mut pr);
        let mut hist = s.st.hist.clone();
        hist.push(ai);
        Some(SrState { st: St { prelude: s.st.prelude, hist, model: m2, dh: h }, bad: pred.is_err() || !pr.is_empty() })
    }
    fn properties(&self) -> Vec<Property<Self>> {
        vec![
            Property::always("wellformed and equal to the reference model", |_, s: &SrState| !s.bad),
            // never discovered: keeps the checker exploring the whole bounded space
            Property::sometimes("unreachable", |_, _| false),
        ]
    }
}

// ---------------------------------------------------------------------------------------------

/// probes which size limits the linked ciphercore-base was built with
fn probe_limits() -> bool {
    let w = World::new();
    w.exec(&Act::CreateGraph(Cx::A));
    !w.exec(&Act::Input(A0, Ty::I32x300)).is_ok()
}

fn report_viols(r: &Report, viols: Vec<Viol>) {
    for v in viols {
        r.violation(&v.sig, &v.what, v.case);
    }
}

pub fn run(r: &Report) -> i32 {
    std::env::set_var("RUST_LIB_BACKTRACE", "0");
    let thorough = r.tier.thorough();
    let cfg_limits = cfg!(feature = "limits");
    let probe = probe_limits();
    r.extra("limits_build", json!(probe));
    r.extra("limits_feature_of_harness", json!(cfg_limits));
    let env = Arc::new(Env::new(if cfg_limits { Some(LIMITS) } else { None }));
    if cfg_limits && !probe {
        r.violation(
            "C11:limits:individual-size-not-enforced",
            "built with the fuzzing limits, but an input of type i32[300] (9633 bits > MAX_INDIVIDUAL_NODE_SIZE = 1000) is accepted",
            json!({"check": "probe"}),
        );
    }
    if !cfg_limits && probe {
        println!("MACHINERY-ERROR property=C11 i32[300] input rejected although the harness was built without `limits`");
        return 2;
    }
    r.extra("alphabet", json!(env.alpha.iter().map(|a| format!("{:?}", a)).collect::<Vec<_>>()));
    r.extra("alphabet_size", json!(env.alpha.len()));
    r.extra("preludes", json!(env.preludes.iter().map(|(n, p)| json!({"name": n, "calls": p.len()})).collect::<Vec<_>>()));

    let target_depth: usize = std::env::var("C11_DEPTH").ok().and_then(|s| s.parse().ok()).unwrap_or(if thorough { 7 } else { 5 });
    let budget: f64 = std::env::var("C11_BUDGET_S").ok().and_then(|s| s.parse().ok()).unwrap_or(if thorough { 700.0 } else { 30.0 });
    let total_budget: f64 = if thorough { 880.0 } else { 43.0 };

    // ---- engine 1: level-synchronous BFS with all checks
    let mut frontier: Vec<St> = vec![];
    let mut seen: HashSet<(usize, u128)> = HashSet::new();
    for p in 0..env.preludes.len() {
        match env.init(p) {
            Ok((st, o)) => {
                let mut pr = vec![];
                env.check_state(&st.model, &o, "init", &mut pr);
                r.count("traces_validated_against_impl", 1);
                r.count("evaluations", 1);
                for (sig, what) in pr {
                    r.violation(&sig, &what, env.case(&st, "state", None, None));
                }
                seen.insert((p, st.dh));
                r.distinct(st.dh as u64 ^ p as u64);
                frontier.push(st);
            }
            Err(e) => {
                println!("MACHINERY-ERROR property=C11 cannot build start state: {}", e);
                return 2;
            }
        }
    }
    let mut per_depth = vec![frontier.len() as u64];
    let mut completed = 0usize;
    let mut sample_seen: HashSet<&'static str> = HashSet::new();
    let mut last_cost = 0.0f64; // seconds per expanded state in the last level
    for depth in 0..target_depth {
        if frontier.is_empty() {
            completed = target_depth;
            break;
        }
        let est = last_cost * 1.15 * frontier.len() as f64;
        if depth > 0 && r.elapsed() + est > budget {
            r.cap_hit(&format!(
                "time budget {:.0}s: depth {} not started ({} states to expand, estimated {:.0}s); deepest fully explored depth = {}",
                budget, depth + 1, frontier.len(), est, completed
            ));
            break;
        }
        let t0 = r.elapsed();
        let mut level_cnt: BTreeMap<&'static str, u64> = BTreeMap::new();
        let mut level_viols: Vec<Viol> = vec![];
        let mut level_samples: Vec<(&'static str, J)> = vec![];
        let mut next: Vec<St> = vec![];
        let mut new_keys: Vec<(usize, u128)> = vec![];
        let mut aborted = false;
        let mut n_new = 0u64;
        let mut r_distinct: Vec<u64> = vec![];
        for chunk in frontier.chunks(512) {
            if r.elapsed() > budget {
                aborted = true;
                break;
            }
            let exps: Vec<Expansion> = chunk.par_iter().map(|st| env.expand(st, None)).collect();
            for ex in exps {
                for (k, v) in ex.cnt {
                    *level_cnt.entry(k).or_insert(0) += v;
                }
                level_viols.extend(ex.viols);
                level_samples.extend(ex.samples);
                for s in ex.succ {
                    if seen.insert((s.prelude, s.dh)) {
                        new_keys.push((s.prelude, s.dh));
                        n_new += 1;
                        r_distinct.push(s.dh as u64 ^ s.prelude as u64);
                        // states of the last level are checked (in expand) but not expanded: keep one for the sample
                        if depth + 1 < target_depth || next.is_empty() {
                            next.push(s);
                        }
                    }
                }
            }
        }
        report_viols(r, level_viols); // violations of a partial level are still violations
        if aborted {
            for k in new_keys {
                seen.remove(&k);
            }
            r.cap_hit(&format!(
                "time budget {:.0}s hit inside depth {}; its counters are discarded; deepest fully explored depth = {}",
                budget, depth + 1, completed
            ));
            break;
        }
        for (k, v) in level_cnt {
            r.count(k, v);
        }
        for (k, j) in level_samples {
            if sample_seen.insert(k) {
                r.sample(j);
            }
        }
        for d in r_distinct {
            r.distinct(d);
        }
        // per-state cost is only meaningful when the level was large enough to keep all workers busy
        last_cost = if frontier.len() >= 512 { (r.elapsed() - t0) / frontier.len() as f64 } else { 0.0 };
        per_depth.push(n_new);
        completed = depth + 1;
        frontier = next;
    }
    let states: u64 = per_depth.iter().sum();
    r.count("states", states);
    r.extra("depth_target", json!(target_depth));
    r.extra("depth_completed", json!(completed));
    r.extra("new_states_per_depth", json!(per_depth));
    r.extra("engine1_wall_s", json!(r.elapsed()));
    if r.want_sample() && !frontier.is_empty() {
        let s = &frontier[0];
        r.sample(json!({"prelude": env.preludes[s.prelude].0, "deepest_history": s.hist.iter().map(|i| format!("{:?}", env.alpha[*i as usize])).collect::<Vec<_>>()}));
    }

    // ---- engine 2: stateright parallel BFS over the same transition system, same depth
    let t1 = r.elapsed();
    let transitions = Arc::new(AtomicU64::new(0));
    let sr_budget = (total_budget - r.elapsed()).max(if thorough { 60.0 } else { 5.0 });
    let checker = SrModel { env: env.clone(), transitions: transitions.clone() }
        .checker()
        .threads(16)
        .target_max_depth(completed + 1) // stateright counts the start state as depth 1
        .timeout(std::time::Duration::from_secs_f64(sr_budget))
        .spawn_bfs()
        .join();
    let sr_unique = checker.unique_state_count() as u64;
    let sr_timed_out = r.elapsed() - t1 >= sr_budget && sr_unique != states;
    r.extra("engine", json!("in-crate level-synchronous BFS (all checks incl. failing-transition / differential continuation) + stateright 0.31 parallel BFS of the same Model (cross-check of the unique state count, state invariants as `always` property)"));
    r.extra("stateright_unique_states", json!(sr_unique));
    r.extra("stateright_generated_states", json!(checker.state_count()));
    r.extra("stateright_transitions", json!(transitions.load(Ordering::Relaxed)));
    r.extra("stateright_max_depth", json!(checker.max_depth()));
    r.extra("stateright_wall_s", json!(r.elapsed() - t1));
    let sr_bad = checker.discovery("wellformed and equal to the reference model").map(|p| p.into_actions());
    if sr_timed_out {
        r.cap_hit("stateright cross-check run timed out; state counts not compared");
    } else {
        if sr_unique != states && r.n_violation_signatures() > 0 {
            // engine 1 does not explore beyond a violating state; counts differ by construction
            r.extra("engines_agree", json!("not compared: violations found"));
        } else if sr_unique != states {
            println!(
                "MACHINERY-ERROR property=C11 engines disagree on the number of unique states: in-crate BFS {} vs stateright {}",
                states, sr_unique
            );
            r.extra("engines_agree", json!(false));
            let _ = r.finish("model_checking", "engines disagree", false, &[], &[]);
            return 2;
        }
        if sr_unique == states {
            r.extra("engines_agree", json!(true));
        }
        let e1_state_viol = r.n_violation_signatures() > 0;
        if sr_bad.is_some() && !e1_state_viol {
            println!("MACHINERY-ERROR property=C11 stateright found a bad state that the in-crate BFS did not report");
            return 2;
        }
    }
    if let Some(path) = sr_bad {
        r.extra("stateright_counterexample", json!(path.iter().map(|i| format!("{:?}", env.alpha[*i as usize])).collect::<Vec<_>>()));
    }

    let mut keys = vec!["states", "transitions", "traces_validated_against_impl", "failing_transitions", "continuations", "rollback_type_error", "reject_in_finalized_graph", "reject_in_finalized_context", "call_ok", "iterate_ok", "custom_ok"];
    if cfg_limits {
        keys.push("rollback_size_individual");
        keys.push("rollback_size_total");
    }
    r.finish(
        "model_checking",
        "all histories of <= depth_completed calls from a 57-action alphabet (see `alphabet`), started from 4 prelude states (empty; finalized callee graph; context with 9708 of 10000 budget bits used; finalized graph in the other context), <= 2 graphs in ctx A, 1 in ctx B, <= 4 explored nodes per graph; executed on real Context/Graph/Node objects; a state is non-trivial/distinct by the hash of its public observation (getters + serialized contexts); every failing transition is followed by every enabled action and compared with the run without the failing call",
        true,
        &[
            "names and annotations are context-level metadata: a finalized graph in an unfinalized context still accepts set_name / add_annotation on its nodes (the library's own deserializer relies on this); 'a finalized graph rejects every mutation' is checked for node-adding calls and set_output_node, finalize() of a finalized graph/context is an accepted no-op",
            "hidden state is only detectable through later public behaviour: the differential continuation looks one call ahead (every enabled action of the alphabet), chains of rejected calls included",
            "the reference model covers the operations of the alphabet only (Input, Add, CreateTuple, Constant, Custom Not, Call, Iterate)",
            "without the `limits` feature the size-rejection rollback paths are unreachable; only type-error rollbacks are explored",
        ],
        &keys,
    )
}

pub fn replay(r: &Report, rec: &J) -> i32 {
    std::env::set_var("RUST_LIB_BACKTRACE", "0");
    let case = &rec["case"];
    let sig = rec["signature"].as_str().unwrap_or("");
    let cfg_limits = cfg!(feature = "limits");
    if case["check"] == "probe" {
        let p = probe_limits();
        println!("expected: input i32[300] rejected (limits build = {}); observed: {}", cfg_limits, if p { "rejected" } else { "accepted" });
        return (cfg_limits && !p) as i32;
    }
    if case["limits_build"].as_bool() != Some(cfg_limits) {
        println!("MACHINERY-ERROR property=C11 replay record was produced by a build with limits={} , this build has limits={}", case["limits_build"], cfg_limits);
        return 2;
    }
    let env = Env::new(if cfg_limits { Some(LIMITS) } else { None });
    let prelude = case["prelude"].as_u64().unwrap_or(0) as usize;
    let hist: Vec<u8> = case["history"].as_array().map(|a| a.iter().map(|x| x.as_u64().unwrap_or(0) as u8).collect()).unwrap_or_default();
    let calls: Vec<String> = hist.iter().map(|i| env.alpha.get(*i as usize).map(|a| format!("{:?}", a)).unwrap_or_default()).collect();
    let rec_calls: Vec<String> = case["history_calls"].as_array().map(|a| a.iter().map(|x| x.as_str().unwrap_or("").to_string()).collect()).unwrap_or_default();
    if calls != rec_calls || prelude >= env.preludes.len() {
        println!("MACHINERY-ERROR property=C11 replay record does not match the current alphabet");
        return 2;
    }
    // state of the history: model by model replay, dump hash from the real objects
    let (mut st, o0) = match env.init(prelude) {
        Ok(x) => x,
        Err(e) => {
            println!("MACHINERY-ERROR property=C11 {}", e);
            return 2;
        }
    };
    let mut found: Vec<Viol> = vec![];
    if hist.is_empty() && case["check"] == "state" {
        let mut pr = vec![];
        env.check_state(&st.model, &o0, "init", &mut pr);
        for (s, w) in pr {
            found.push(Viol { sig: s, what: w, case: J::Null });
        }
    }
    for i in hist.iter() {
        let _ = st.model.apply(&env.alpha[*i as usize]);
        st.hist.push(*i);
    }
    println!("prelude: {} {:?}", env.preludes[prelude].0, env.preludes[prelude].1);
    println!("history: {:?}", calls);
    match env.build(prelude, &st.hist).and_then(|w| observe(&w, false)) {
        Ok(o) => st.dh = o.hash(),
        Err(e) => {
            println!("observed: history cannot be replayed: {}", e);
            return (sig == "C11:replay-nondeterministic") as i32;
        }
    }
    let action = case["action"].as_u64().map(|x| x as usize);
    let cont = case["continuation"].as_u64().map(|x| x as usize);
    if case["check"] == "chain" {
        let chain: Vec<usize> = case["chain"].as_array().map(|a| a.iter().map(|x| x.as_u64().unwrap_or(0) as usize).collect()).unwrap_or_default();
        let (f, a) = (action.unwrap_or(0), cont.unwrap_or(0));
        let run = |pre: &[usize]| -> Option<(Out, u128)> {
            let w = env.build(prelude, &st.hist).ok()?;
            for c in pre {
                w.exec(&env.alpha[*c]);
            }
            let o = w.exec(&env.alpha[a]);
            Some((o, observe(&w, false).ok()?.hash()))
        };
        let mut pre = vec![f];
        pre.extend(chain);
        let (with, without) = (run(&pre), run(&[]));
        println!("calls without effect first: {:?}", pre.iter().map(|c| format!("{:?}", env.alpha[*c])).collect::<Vec<_>>());
        println!("expected (same call on the unchanged state): {:?}", without.as_ref().map(|x| (x.0.show(), format!("{:032x}", x.1))));
        println!("observed: {:?}", with.as_ref().map(|x| (x.0.show(), format!("{:032x}", x.1))));
        return (with != without) as i32;
    }
    if let Some(a) = action {
        println!("call under test: {:?}{}", env.alpha[a], cont.map(|c| format!(" then {:?}", env.alpha[c])).unwrap_or_default());
        found.extend(env.expand(&st, Some((a, cont))).viols);
    }
    let mut hit = false;
    for v in found.iter() {
        println!("observed violation [{}]: {}", v.sig, v.what);
        hit |= v.sig == sig;
    }
    if !hit {
        println!("expected signature {} did not reproduce ({} other violations)", sig, found.len());
    }
    let _ = r;
    hit as i32
}
