//! C08 - custom-operation instantiation is total and meaning-preserving.
//!
//! Enumerated: contexts mixing library custom operations (alphabet: every public custom op with 2-3
//! values of each parameter, applied to argument signatures from a small type alphabet):
//! every unordered pair of "uses" (op+parameters+argument types) once and twice in one graph, two
//! parameterisations of one op side by side on the SAME arguments, nesting (output of one feeding
//! the other, with TupleGet / A2B / B2A glue where needed), and in the thorough tier every unordered
//! triple of alphabet members.
//!
//! Oracle (all on the real code):
//!  (1) `run_instantiation_pass` returns Ok for every context the builder accepted;
//!  (2) the real evaluator on the instantiated context equals a per-node reference walk over the
//!      ORIGINAL graph: a Custom node is evaluated by instantiating that single operation alone in a
//!      fresh one-op context (the configuration the repo's unit tests cover), any other node by
//!      `SimpleEvaluator::evaluate_node`;
//!  (3) distinct (operation, argument types) must be mapped to distinct instantiated graphs, and two
//!      parameterisations of one op on the same arguments must give different results whenever their
//!      single-op references differ on that input.
mod userops;
use crate::common::{catch, stable_msg, Report};
use userops::{VAffine, VFold, VNamedMain, VNest, VPick, VTwoAux};
use crate::exec::{first_line, seed_bytes};
use crate::vals::{arr_value, build_value, num_elems, show, st_signed};
use ciphercore_base::custom_ops::{run_instantiation_pass, CustomOperation, Not, Or};
use ciphercore_base::data_types::{
    array_type, named_tuple_type, scalar_type, ScalarType, Type, BIT, INT16, INT32, INT64, UINT64, UINT8,
};
use ciphercore_base::data_values::Value;
use ciphercore_base::evaluators::simple_evaluator::SimpleEvaluator;
use ciphercore_base::evaluators::{evaluate_simple_evaluator, Evaluator};
use ciphercore_base::graphs::{create_context, Context, Graph, Node, Operation};
use ciphercore_base::ops::adder::BinaryAdd;
use ciphercore_base::ops::auc::AucScore;
use ciphercore_base::ops::clip::Clip2K;
use ciphercore_base::ops::comparisons::{
    Equal, GreaterThan, GreaterThanEqualTo, LessThan, LessThanEqualTo, NotEqual,
};
use ciphercore_base::ops::fixed_precision::fixed_multiply::FixedMultiply;
use ciphercore_base::ops::fixed_precision::fixed_precision_config::FixedPrecisionConfig;
use ciphercore_base::ops::goldschmidt_division::GoldschmidtDivision;
use ciphercore_base::ops::integer_key_sort::SortByIntegerKey;
use ciphercore_base::ops::inverse_sqrt::InverseSqrt;
use ciphercore_base::ops::long_division::LongDivision;
use ciphercore_base::ops::min_max::{Max, Min};
use ciphercore_base::ops::multiplexer::Mux;
use ciphercore_base::ops::newton_inversion::NewtonInversion;
use ciphercore_base::ops::pwl::approx_exponent::ApproxExponent;
use ciphercore_base::ops::pwl::approx_gelu::ApproxGelu;
use ciphercore_base::ops::pwl::approx_gelu_derivative::ApproxGeluDerivative;
use ciphercore_base::ops::pwl::approx_sigmoid::ApproxSigmoid;
use ciphercore_base::ops::taylor_exponent::TaylorExponent;
use rayon::prelude::*;
use serde_json::{json, Value as J};
use std::cell::RefCell;
use std::collections::{BTreeMap, BTreeSet, HashMap};

// ---------------------------------------------------------------------------------------------
// alphabet
// ---------------------------------------------------------------------------------------------

/// One alphabet member: an operation with fixed parameters and its candidate argument signatures.
struct Member {
    /// struct name of the operation
    base: &'static str,
    /// human-readable parameters
    params: String,
    op: CustomOperation,
    /// candidate argument signatures; the builder decides which are accepted
    sigs: Vec<Vec<Type>>,
    /// expensive signatures (64-bit bit strings = A2B bridge to the integer ops; array arguments of
    /// FixedMultiply{debug=true}): members of pairs/triples only in the thorough tier; in the quick tier
    /// the 64-bit ones are still nesting targets
    wide_sigs: Vec<Vec<Type>>,
    /// operation defined in the harness (c08/userops.rs): enumerated in its own section (all pairs of all
    /// signatures among the user operations), not crossed with the whole library alphabet
    user: bool,
}

impl Member {
    fn label(&self) -> String {
        if self.params.is_empty() {
            self.base.to_string()
        } else {
            format!("{}{{{}}}", self.base, self.params)
        }
    }
}

fn bits(shape: &[u64]) -> Type {
    array_type(shape.to_vec(), BIT)
}
fn ints(shape: &[u64], st: ScalarType) -> Type {
    if shape.is_empty() {
        scalar_type(st)
    } else {
        array_type(shape.to_vec(), st)
    }
}
fn table1() -> Type {
    named_tuple_type(vec![
        ("a".to_string(), ints(&[4], INT32)),
        ("b".to_string(), ints(&[4], UINT8)),
    ])
}
fn table2() -> Type {
    named_tuple_type(vec![
        ("a".to_string(), ints(&[3], UINT64)),
        ("b".to_string(), ints(&[3, 2], INT16)),
        ("c".to_string(), bits(&[3])),
    ])
}

fn alphabet() -> Vec<Member> {
    let mut m: Vec<Member> = vec![];
    let mut add = |base: &'static str, params: String, op: CustomOperation, sigs: Vec<Vec<Type>>, wide: Vec<Vec<Type>>| {
        m.push(Member { base, params, op, sigs, wide_sigs: wide, user: false });
    };
    let b28 = bits(&[2, 8]);
    let b8 = bits(&[8]);
    let b24 = bits(&[2, 4]);
    let b2 = bits(&[2]);
    let b21 = bits(&[2, 1]);
    let b0 = scalar_type(BIT);
    let b364 = bits(&[3, 64]);
    let i3 = ints(&[3], INT64);
    let i0 = ints(&[], INT64);
    let u3 = ints(&[3], UINT64);
    let i4 = ints(&[4], INT64);
    let bin_sigs = vec![
        vec![b28.clone(), b28.clone()],
        vec![b28.clone(), b8.clone()],
        vec![b24.clone(), b24.clone()],
        // the mirror image of the second signature (same multiset of argument types, other order)
        vec![b8.clone(), b28.clone()],
    ];
    let bin_wide = vec![vec![b364.clone(), b364.clone()]];

    add("Not", String::new(), CustomOperation::new(Not {}), vec![vec![b28.clone()], vec![b2.clone()], vec![b0.clone()]], vec![vec![b364.clone()]]);
    add(
        "Or",
        String::new(),
        CustomOperation::new(Or {}),
        vec![vec![b28.clone(), b28.clone()], vec![b2.clone(), b2.clone()], vec![b28.clone(), b8.clone()]],
        bin_wide.clone(),
    );
    add(
        "Mux",
        String::new(),
        CustomOperation::new(Mux {}),
        vec![
            vec![b21.clone(), b28.clone(), b28.clone()],
            vec![b2.clone(), b2.clone(), b2.clone()],
            vec![b0.clone(), i3.clone(), i3.clone()],
        ],
        vec![vec![b364.clone(), b364.clone(), b364.clone()]],
    );
    add("Equal", String::new(), CustomOperation::new(Equal {}), bin_sigs.clone(), bin_wide.clone());
    add("NotEqual", String::new(), CustomOperation::new(NotEqual {}), bin_sigs.clone(), bin_wide.clone());
    for s in [false, true] {
        let p = format!("signed_comparison={}", s);
        add("GreaterThan", p.clone(), CustomOperation::new(GreaterThan { signed_comparison: s }), bin_sigs.clone(), bin_wide.clone());
        add("LessThan", p.clone(), CustomOperation::new(LessThan { signed_comparison: s }), bin_sigs.clone(), bin_wide.clone());
        add(
            "GreaterThanEqualTo",
            p.clone(),
            CustomOperation::new(GreaterThanEqualTo { signed_comparison: s }),
            bin_sigs.clone(),
            bin_wide.clone(),
        );
        add(
            "LessThanEqualTo",
            p.clone(),
            CustomOperation::new(LessThanEqualTo { signed_comparison: s }),
            bin_sigs.clone(),
            bin_wide.clone(),
        );
        add("Min", p.clone(), CustomOperation::new(Min { signed_comparison: s }), bin_sigs.clone(), bin_wide.clone());
        add("Max", p.clone(), CustomOperation::new(Max { signed_comparison: s }), bin_sigs.clone(), bin_wide.clone());
    }
    for k in [1u64, 3, 6] {
        add(
            "Clip2K",
            format!("k={}", k),
            CustomOperation::new(Clip2K { k }),
            vec![vec![b28.clone()], vec![b8.clone()], vec![b24.clone()]],
            vec![vec![b364.clone()]],
        );
    }
    for o in [false, true] {
        add(
            "BinaryAdd",
            format!("overflow_bit={}", o),
            CustomOperation::new(BinaryAdd { overflow_bit: o }),
            bin_sigs.clone(),
            bin_wide.clone(),
        );
    }
    for s in [false, true] {
        add(
            "LongDivision",
            format!("signed={}", s),
            CustomOperation::new(LongDivision { signed: s }),
            vec![vec![b28.clone(), b28.clone()], vec![b28.clone(), b8.clone()], vec![b24.clone(), b24.clone()]],
            vec![],
        );
    }
    for key in ["a", "b", "c"] {
        add(
            "SortByIntegerKey",
            format!("key={}", key),
            CustomOperation::new(SortByIntegerKey { key: key.to_string() }),
            vec![vec![table1()], vec![table2()]],
            vec![],
        );
    }
    for fb in [3u64, 10] {
        for debug in [false, true] {
            let config = FixedPrecisionConfig { fractional_bits: fb, debug };
            // debug=true builds a [.., 64, 64] overflow check (about 0.1 s per array element to evaluate):
            // array signatures of the debug variant are left to the thorough tier
            let arr = vec![vec![i3.clone(), i3.clone()], vec![i3.clone(), i0.clone()]];
            let (sigs, wide) = if debug {
                (vec![vec![i0.clone(), i0.clone()]], arr)
            } else {
                let mut s = vec![vec![i0.clone(), i0.clone()]];
                s.extend(arr);
                (s, vec![])
            };
            add(
                "FixedMultiply",
                format!("fractional_bits={},debug={}", fb, debug),
                CustomOperation::new(FixedMultiply { config }),
                sigs,
                wide,
            );
        }
    }
    let un_i = vec![vec![i3.clone()], vec![i0.clone()]];
    for precision in [4u64, 10] {
        for lb in [3u64, 5] {
            let p = format!("precision={},approximation_log_buckets={}", precision, lb);
            add(
                "ApproxSigmoid",
                p.clone(),
                CustomOperation::new(ApproxSigmoid { precision, approximation_log_buckets: lb }),
                un_i.clone(),
                vec![],
            );
            add(
                "ApproxGelu",
                p.clone(),
                CustomOperation::new(ApproxGelu { precision, approximation_log_buckets: lb }),
                un_i.clone(),
                vec![],
            );
            add(
                "ApproxGeluDerivative",
                p.clone(),
                CustomOperation::new(ApproxGeluDerivative { precision, approximation_log_buckets: lb }),
                un_i.clone(),
                vec![],
            );
        }
        add(
            "ApproxExponent",
            format!("precision={}", precision),
            CustomOperation::new(ApproxExponent { precision }),
            un_i.clone(),
            vec![],
        );
    }
    for iterations in [2u64, 3] {
        for cap in [4u64, 10] {
            let p = format!("iterations={},denominator_cap_2k={}", iterations, cap);
            add(
                "NewtonInversion",
                p.clone(),
                CustomOperation::new(NewtonInversion { iterations, denominator_cap_2k: cap }),
                vec![vec![u3.clone()], vec![i3.clone()], vec![u3.clone(), u3.clone()]],
                vec![],
            );
            add(
                "GoldschmidtDivision",
                p.clone(),
                CustomOperation::new(GoldschmidtDivision { iterations, denominator_cap_2k: cap }),
                vec![vec![u3.clone(), u3.clone()], vec![i3.clone(), i3.clone()], vec![i3.clone(), i3.clone(), i3.clone()]],
                vec![],
            );
            add(
                "InverseSqrt",
                p.clone(),
                CustomOperation::new(InverseSqrt { iterations, denominator_cap_2k: cap }),
                vec![vec![u3.clone()], vec![i3.clone()], vec![i3.clone(), i3.clone()]],
                vec![],
            );
        }
    }
    for terms in [3u64, 5] {
        for fpp in [4u64, 10] {
            add(
                "TaylorExponent",
                format!("taylor_terms={},fixed_precision_points={}", terms, fpp),
                CustomOperation::new(TaylorExponent { taylor_terms: terms, fixed_precision_points: fpp }),
                un_i.clone(),
                vec![],
            );
        }
    }
    for fb in [3u64, 10] {
        for debug in [false, true] {
            let fp = FixedPrecisionConfig { fractional_bits: fb, debug };
            add(
                "AucScore",
                format!("fractional_bits={},debug={}", fb, debug),
                CustomOperation::new(AucScore { fp }),
                vec![vec![i4.clone(), i4.clone()]],
                vec![],
            );
        }
    }
    // user-defined operations (c08/userops.rs)
    {
        // odd first dimension: VFold{flip} differs from VFold{!flip} only for an odd number of slices
        let un_bits = vec![vec![bits(&[3, 8])], vec![bits(&[5])], vec![bits(&[3])]];
        let mut addu = |base: &'static str, params: String, op: CustomOperation, sigs: Vec<Vec<Type>>| {
            m.push(Member { base, params, op, sigs, wide_sigs: vec![], user: true });
        };
        for flip in [false, true] {
            addu("VFold", format!("flip={}", flip), CustomOperation::new(VFold { flip }), un_bits.clone());
        }
        for k in [1u64, 2] {
            addu("VNamedMain", format!("k={}", k), CustomOperation::new(VNamedMain { k }), vec![vec![i3.clone()], vec![i0.clone()]]);
        }
        for depth in [0u64, 1, 3] {
            addu("VNest", format!("depth={}", depth), CustomOperation::new(VNest { depth }), un_bits.clone());
        }
        for (scale, shift) in [(3u64, 1u64), (3, 5), (2, 1)] {
            addu(
                "VAffine",
                format!("scale={},shift={}", scale, shift),
                CustomOperation::new(VAffine { scale, shift }),
                vec![vec![i3.clone()], vec![i0.clone()]],
            );
        }
        for late in [false, true] {
            let sigs: Vec<Vec<Type>> = un_bits.iter().map(|s| vec![s[0].clone(), s[0].clone()]).collect();
            addu("VPick", format!("late={}", late), CustomOperation::new(VPick { late }), sigs);
        }
        for swap in [false, true] {
            addu("VTwoAux", format!("swap={}", swap), CustomOperation::new(VTwoAux { swap }), un_bits.clone());
        }
    }
    m
}

// ---------------------------------------------------------------------------------------------
// context specifications (what is enumerated) and their construction through the real builder
// ---------------------------------------------------------------------------------------------

#[derive(Clone, Debug)]
enum Step {
    Input(Type),
    /// (member index, argument steps)
    Custom(usize, Vec<usize>),
    TupleGet(usize, u64),
    A2B(usize),
    B2A(usize, ScalarType),
}

#[derive(Clone, Debug)]
struct Spec {
    label: String,
    steps: Vec<Step>,
    /// steps whose values form the output tuple (all custom nodes)
    outs: Vec<usize>,
}

impl Spec {
    fn new(label: String) -> Spec {
        Spec { label, steps: vec![], outs: vec![] }
    }
    fn input(&mut self, t: &Type) -> usize {
        self.steps.push(Step::Input(t.clone()));
        self.steps.len() - 1
    }
    fn inputs(&mut self, sig: &[Type]) -> Vec<usize> {
        sig.iter().map(|t| self.input(t)).collect()
    }
    fn custom(&mut self, member: usize, args: Vec<usize>) -> usize {
        self.steps.push(Step::Custom(member, args));
        self.outs.push(self.steps.len() - 1);
        self.steps.len() - 1
    }
    fn push(&mut self, s: Step) -> usize {
        self.steps.push(s);
        self.steps.len() - 1
    }
}

fn es<T, E: std::fmt::Display>(r: std::result::Result<T, E>) -> Result<T, String> {
    r.map_err(|e| first_line(&e.to_string()))
}

/// Builds the context of a spec with the real builder. Err = the builder rejected a node
/// (then the context is outside the property's quantifier) or panicked.
fn build(spec: &Spec, members: &[Member]) -> Result<Context, String> {
    let r = catch(|| -> Result<Context, String> {
        let c = es(create_context())?;
        let g = es(c.create_graph())?;
        let mut nodes: Vec<Node> = vec![];
        for s in spec.steps.iter() {
            let n = match s {
                Step::Input(t) => es(g.input(t.clone()))?,
                Step::Custom(m, args) => es(g.custom_op(
                    members[*m].op.clone(),
                    args.iter().map(|a| nodes[*a].clone()).collect(),
                ))?,
                Step::TupleGet(a, i) => es(nodes[*a].tuple_get(*i))?,
                Step::A2B(a) => es(nodes[*a].a2b())?,
                Step::B2A(a, st) => es(nodes[*a].b2a(*st))?,
            };
            nodes.push(n);
        }
        let out = es(g.create_tuple(spec.outs.iter().map(|o| nodes[*o].clone()).collect()))?;
        es(out.set_as_output())?;
        es(g.finalize())?;
        es(g.set_as_main())?;
        es(c.finalize())?;
        Ok(c)
    });
    match r {
        Ok(x) => x,
        Err(p) => Err(format!("panic: {}", p)),
    }
}

/// An accepted (member, argument signature) combination with its output type.
#[derive(Clone)]
struct Use {
    member: usize,
    sig: Vec<Type>,
    out: Type,
    wide: bool,
}

// ---------------------------------------------------------------------------------------------
// input alphabet
// ---------------------------------------------------------------------------------------------

/// 8-bit rows (also read as 4-bit rows: low nibble); chosen so that sign bits, small positive values
/// (2 < x <= 8 < y <= 64, for Clip2K) and equal pairs all occur
const POOL8: [u128; 12] = [0x15, 0x8b, 0x7f, 0x00, 0x4a, 0xff, 0x03, 0xc9, 0x1c, 0x88, 0x02, 0xf1];
const POOL64: [i128; 12] = [3, 100, 1000, -5, 1 << 12, 6, -300, 1 << 40, 5, 7, 1 << 20, -(1 << 35)];
/// i64[4] is only used by AucScore: labels 0 / "1.0" in both fixed-point scalings of the alphabet
const POOL_AUC: [i128; 12] = [0, 8, 1024, 8, 0, 0, 1024, 8, 1024, 0, 8, 1024];
const POOL_SMALL: [i128; 8] = [3, -1, 2, 3, 0, 5, -1, 7];

/// j-th value of the input alphabet for input number i of type t (deterministic, no randomness).
fn input_value(t: &Type, i: usize, j: usize) -> Value {
    let mut leaf = 0usize;
    build_value(t, &mut |lt| {
        let st = lt.get_scalar_type();
        let n = num_elems(lt);
        leaf += 1;
        let base = j * 5 + i * 3 + leaf * 2;
        let elems: Vec<u128> = if st == BIT {
            // rows of the last dimension are numbers from POOL8 (64-bit rows: from POOL64), LSB first
            let w = match lt {
                Type::Array(s, _) => *s.last().unwrap() as usize,
                _ => 1,
            };
            (0..n)
                .map(|k| {
                    let row = k / w;
                    let bit = k % w;
                    let num: u128 = if w > 8 {
                        POOL64[(base + row * 7) % POOL64.len()] as u128
                    } else {
                        POOL8[(base + row * 7) % POOL8.len()]
                    };
                    (num >> bit) & 1
                })
                .collect()
        } else if st == INT64 || st == UINT64 {
            (0..n)
                .map(|k| {
                    let v = if n == 4 { POOL_AUC[(base + k * 7) % POOL_AUC.len()] } else { POOL64[(base + k * 7) % POOL64.len()] };
                    if st_signed(&st) {
                        v as u128
                    } else {
                        v.unsigned_abs()
                    }
                })
                .collect()
        } else {
            (0..n)
                .map(|k| {
                    let v = POOL_SMALL[(base + k * 3) % POOL_SMALL.len()];
                    if st_signed(&st) {
                        v as u128
                    } else {
                        v.unsigned_abs()
                    }
                })
                .collect()
        };
        arr_value(&elems, &st)
    })
}

fn input_types(c: &Context) -> Result<Vec<Type>, String> {
    let g = es(c.get_main_graph())?;
    let mut ts = vec![];
    for n in g.get_nodes() {
        if let Operation::Input(t) = n.get_operation() {
            ts.push(t);
        }
    }
    Ok(ts)
}

fn input_alphabet(c: &Context, k: usize) -> Result<Vec<Vec<Value>>, String> {
    let ts = input_types(c)?;
    Ok((0..k).map(|j| ts.iter().enumerate().map(|(i, t)| input_value(t, i, j)).collect()).collect())
}

// ---------------------------------------------------------------------------------------------
// the oracle: works on an arbitrary context + input vectors (shared by run and replay)
// ---------------------------------------------------------------------------------------------

fn op_json(op: &CustomOperation) -> String {
    serde_json::to_string(op).unwrap_or_else(|_| format!("{:?}", op))
}

/// serde type tag of the operation struct, e.g. "SortByIntegerKey"
fn op_tag(op: &CustomOperation) -> String {
    let j: J = serde_json::from_str(&op_json(op)).unwrap_or(J::Null);
    j.get("body")
        .and_then(|b| b.get("type"))
        .and_then(|t| t.as_str())
        .map(|s| s.to_string())
        .unwrap_or_else(|| op.get_name())
}

fn types_str(ts: &[Type]) -> String {
    ts.iter().map(|t| format!("{}", t)).collect::<Vec<_>>().join(", ")
}

/// identity of an instantiation as the library defines it: operation (with parameters) + argument types
fn inst_key(op: &CustomOperation, ts: &[Type]) -> String {
    format!("{}::<{}>", op_json(op), types_str(ts))
}

thread_local! {
    /// per-thread cache of single-operation reference contexts (already instantiated)
    static REF_CACHE: RefCell<HashMap<String, Result<Context, String>>> = RefCell::new(HashMap::new());
}

/// The reference configuration: the single operation alone in a fresh context, instantiated.
fn reference_context(op: &CustomOperation, ts: &[Type]) -> Result<Context, String> {
    let key = inst_key(op, ts);
    if let Some(r) = REF_CACHE.with(|c| c.borrow().get(&key).cloned()) {
        return r;
    }
    let r = match catch(|| -> Result<Context, String> {
        let c = es(create_context())?;
        let g = es(c.create_graph())?;
        let mut args = vec![];
        for t in ts {
            args.push(es(g.input(t.clone()))?);
        }
        let o = es(g.custom_op(op.clone(), args))?;
        es(o.set_as_output())?;
        es(g.finalize())?;
        es(g.set_as_main())?;
        es(c.finalize())?;
        let mc = es(run_instantiation_pass(c))?;
        Ok(mc.get_context())
    }) {
        Ok(x) => x,
        Err(p) => Err(format!("panic: {}", p)),
    };
    REF_CACHE.with(|c| c.borrow_mut().insert(key, r.clone()));
    r
}

fn eval_graph(g: &Graph, inputs: Vec<Value>, seed: u64) -> Result<Value, String> {
    let g = g.clone();
    match catch(move || evaluate_simple_evaluator(g, inputs, Some(seed_bytes(seed)))) {
        Ok(Ok(v)) => Ok(v),
        Ok(Err(e)) => Err(format!("error: {}", first_line(&e.to_string()))),
        Err(p) => Err(format!("panic: {}", p)),
    }
}

/// Per-node reference walk over the original (uninstantiated) main graph.
/// Returns the value (or failure) of every node.
fn reference_walk(c: &Context, inputs: &[Value], seed: u64) -> Result<Vec<Result<Value, String>>, String> {
    let g = es(c.get_main_graph())?;
    let mut ev = es(SimpleEvaluator::new(Some(seed_bytes(seed))))?;
    let mut vals: Vec<Result<Value, String>> = vec![];
    let mut next_input = 0;
    for n in g.get_nodes() {
        let deps_nodes = n.get_node_dependencies();
        let mut deps = vec![];
        let mut failed: Option<String> = None;
        for d in deps_nodes.iter() {
            match &vals[d.get_id() as usize] {
                Ok(v) => deps.push(v.clone()),
                Err(e) => {
                    failed = Some(e.clone());
                    break;
                }
            }
        }
        if let Some(e) = failed {
            vals.push(Err(e));
            continue;
        }
        let v = match n.get_operation() {
            Operation::Input(_) => {
                let v = inputs.get(next_input).cloned().ok_or("too few inputs")?;
                next_input += 1;
                Ok(v)
            }
            Operation::Custom(op) => {
                let mut ts = vec![];
                for d in deps_nodes.iter() {
                    ts.push(es(d.get_type())?);
                }
                match reference_context(&op, &ts) {
                    Ok(rc) => eval_graph(&es(rc.get_main_graph())?, deps, seed),
                    Err(e) => Err(format!("reference instantiation failed: {}", e)),
                }
            }
            Operation::Call | Operation::Iterate => {
                return Err("reference walk does not support Call/Iterate in the original graph".into())
            }
            _ => {
                let nn = n.clone();
                match catch(|| ev.evaluate_node(nn, deps)) {
                    Ok(Ok(v)) => Ok(v),
                    Ok(Err(e)) => Err(format!("error: {}", first_line(&e.to_string()))),
                    Err(p) => Err(format!("panic: {}", p)),
                }
            }
        };
        vals.push(v);
    }
    Ok(vals)
}

/// All instantiations (op, argument types) reachable from a context, nested ones included
/// (independent re-walk, used only to explain a name collision).
fn reachable_instantiations(c: &Context, out: &mut BTreeMap<String, (String, String, String)>, depth: usize) {
    if depth > 8 {
        return;
    }
    for g in c.get_graphs() {
        for n in g.get_nodes() {
            if let Operation::Custom(op) = n.get_operation() {
                let ts: Vec<Type> = n.get_node_dependencies().iter().filter_map(|d| d.get_type().ok()).collect();
                let key = inst_key(&op, &ts);
                if out.contains_key(&key) {
                    continue;
                }
                out.insert(key, (op_tag(&op), format!("__{}::<{}>", op.get_name(), types_str(&ts)), op_json(&op)));
                let fc = match create_context() {
                    Ok(fc) => fc,
                    Err(_) => continue,
                };
                let ok = catch(|| op.instantiate(fc.clone(), ts.clone()).is_ok()).unwrap_or(false);
                if ok {
                    reachable_instantiations(&fc, out, depth + 1);
                }
            }
        }
    }
}

/// If two different instantiations of the context report the same graph name, returns their type tags.
fn find_name_collision(c: &Context) -> Option<(String, String, String)> {
    let mut all = BTreeMap::new();
    reachable_instantiations(c, &mut all, 0);
    let mut by_name: BTreeMap<String, Vec<(String, String)>> = BTreeMap::new();
    for (_, (tag, name, opj)) in all.iter() {
        by_name.entry(name.clone()).or_default().push((tag.clone(), opj.clone()));
    }
    for (name, v) in by_name.iter() {
        if v.len() > 1 {
            let mut tags: Vec<String> = v.iter().map(|x| x.0.clone()).collect();
            tags.sort();
            return Some((tags[0].clone(), tags[1].clone(), format!("graph name '{}' is reported by {} and {}", name, v[0].1, v[1].1)));
        }
    }
    None
}

#[derive(Default)]
struct Checked {
    violations: Vec<(String, String, J)>,
    n_custom: u64,
    n_distinct_inst: u64,
    nested_instantiations: bool,
    instantiated_ok: bool,
    evaluations: u64,
    both_error: u64,
    /// (tag, parameterisation pair, distinguished by some input)
    param_pairs: Vec<(String, String, bool)>,
}

fn tags_of(c: &Context) -> Vec<String> {
    let mut s = BTreeSet::new();
    if let Ok(g) = c.get_main_graph() {
        for n in g.get_nodes() {
            if let Operation::Custom(op) = n.get_operation() {
                s.insert(op_tag(&op));
            }
        }
    }
    s.into_iter().collect()
}

/// The whole oracle for one context.
fn check_context(c: &Context, inputs: &[Vec<Value>], seed: u64) -> Result<Checked, String> {
    let mut res = Checked::default();
    let g = es(c.get_main_graph())?;
    let nodes = g.get_nodes();
    // custom nodes of the main graph: (node index, op, arg types, dependency ids)
    let mut customs: Vec<(usize, CustomOperation, Vec<Type>, Vec<u64>)> = vec![];
    for (i, n) in nodes.iter().enumerate() {
        if let Operation::Custom(op) = n.get_operation() {
            let mut ts = vec![];
            let mut ids = vec![];
            for d in n.get_node_dependencies() {
                ts.push(es(d.get_type())?);
                ids.push(d.get_id());
            }
            customs.push((i, op, ts, ids));
        }
    }
    res.n_custom = customs.len() as u64;
    let keys: Vec<String> = customs.iter().map(|x| inst_key(&x.1, &x.2)).collect();
    res.n_distinct_inst = keys.iter().collect::<BTreeSet<_>>().len() as u64;
    let all_tags = tags_of(c).join("+");

    // (1) totality
    let cc = c.clone();
    let mc = match catch(move || run_instantiation_pass(cc)) {
        Ok(Ok(mc)) => mc,
        Ok(Err(e)) => {
            let msg = first_line(&e.to_string());
            if msg.contains("names must be unique") {
                let (sig, why) = match find_name_collision(c) {
                    Some((a, b, why)) => {
                        if a == b {
                            (format!("C08:name-collision:{}", a), why)
                        } else {
                            (format!("C08:name-collision:{}/{}", a, b), why)
                        }
                    }
                    None => (format!("C08:name-collision:?:{}", all_tags), "colliding pair not identified".to_string()),
                };
                res.violations.push((
                    sig,
                    format!("run_instantiation_pass fails on a context whose nodes type-checked: {} ({})", msg, why),
                    json!({"error": msg, "collision": why}),
                ));
            } else {
                res.violations.push((
                    format!("C08:instantiation-error:{}:{}", all_tags, stable_msg(&msg)),
                    format!("run_instantiation_pass returns Err on a context whose nodes type-checked: {}", msg),
                    json!({"error": msg}),
                ));
            }
            return Ok(res);
        }
        Err(p) => {
            res.violations.push((
                format!("C08:instantiation-panic:{}:{}", all_tags, stable_msg(&p)),
                format!("run_instantiation_pass panics on a context whose nodes type-checked: {}", p),
                json!({"panic": p}),
            ));
            return Ok(res);
        }
    };
    res.instantiated_ok = true;
    let ic = mc.get_context();
    let ig = es(ic.get_main_graph())?;
    // no custom node may be left anywhere
    let mut n_graphs = 0u64;
    for gg in ic.get_graphs() {
        n_graphs += 1;
        for n in gg.get_nodes() {
            if let Operation::Custom(op) = n.get_operation() {
                res.violations.push((
                    format!("C08:custom-node-left:{}", op_tag(&op)),
                    "instantiated context still contains a Custom node".to_string(),
                    json!({"op": op_json(&op)}),
                ));
            }
        }
    }
    res.nested_instantiations = n_graphs > res.n_distinct_inst + 1;

    // (3a) distinct instantiations -> distinct graphs
    let mut graph_of_key: BTreeMap<String, u64> = BTreeMap::new();
    for (ci, (i, op, _, _)) in customs.iter().enumerate() {
        let n = &nodes[*i];
        if !mc.mappings.contains_node(n) {
            res.violations.push((
                format!("C08:node-unmapped:{}", op_tag(op)),
                "custom node has no image in the instantiated context".to_string(),
                json!({"node": i}),
            ));
            continue;
        }
        let m = mc.mappings.get_node(n);
        let gd = m.get_graph_dependencies();
        if !matches!(m.get_operation(), Operation::Call) || gd.len() != 1 {
            res.violations.push((
                format!("C08:not-a-call:{}", op_tag(op)),
                format!("custom node is mapped to {} instead of a Call", m.get_operation()),
                json!({"node": i}),
            ));
            continue;
        }
        graph_of_key.insert(keys[ci].clone(), gd[0].get_id());
    }
    {
        let mut owner: BTreeMap<u64, String> = BTreeMap::new();
        for (k, gid) in graph_of_key.iter() {
            if let Some(prev) = owner.get(gid) {
                let tag = customs.iter().zip(keys.iter()).find(|(_, kk)| *kk == k).map(|(x, _)| op_tag(&x.1)).unwrap_or_default();
                res.violations.push((
                    format!("C08:shared-instantiation:{}", tag),
                    "two different instantiations are mapped to the same instantiated graph".to_string(),
                    json!({"a": prev, "b": k, "graph": gid}),
                ));
            } else {
                owner.insert(*gid, k.clone());
            }
        }
    }

    // which output component is which custom node
    let out_node = es(g.get_output_node())?;
    let comp_of_node: BTreeMap<u64, usize> = if matches!(out_node.get_operation(), Operation::CreateTuple) {
        out_node.get_node_dependencies().iter().enumerate().map(|(k, d)| (d.get_id(), k)).collect()
    } else {
        BTreeMap::new()
    };
    let out_t = es(out_node.get_type())?;

    // parameterisation pairs on the same arguments
    let mut ppairs: Vec<(usize, usize)> = vec![];
    for a in 0..customs.len() {
        for b in a + 1..customs.len() {
            if op_tag(&customs[a].1) == op_tag(&customs[b].1) && keys[a] != keys[b] && customs[a].3 == customs[b].3 {
                ppairs.push((a, b));
            }
        }
    }
    let mut distinguished = vec![false; ppairs.len()];

    // (2) meaning
    for inp in inputs.iter() {
        res.evaluations += 1;
        let observed = eval_graph(&ig, inp.clone(), seed);
        let walk = reference_walk(c, inp, seed)?;
        let expected = walk[out_node.get_id() as usize].clone();
        match (&observed, &expected) {
            (Ok(o), Ok(e)) => {
                if o != e {
                    // find the first differing component
                    let mut tag = all_tags.clone();
                    let mut comp = J::Null;
                    if let (Ok(ov), Ok(evs)) = (o.to_vector(), e.to_vector()) {
                        if !comp_of_node.is_empty() && ov.len() == evs.len() {
                            for (ci, (i, op, _, _)) in customs.iter().enumerate() {
                                if let Some(k) = comp_of_node.get(&(*i as u64)) {
                                    if ov[*k] != evs[*k] {
                                        tag = op_tag(op);
                                        comp = json!({"component": k, "instantiation": keys[ci]});
                                        break;
                                    }
                                }
                            }
                        }
                    }
                    res.violations.push((
                        format!("C08:value-mismatch:{}", tag),
                        "instantiated context evaluates differently from the per-node single-operation reference".to_string(),
                        json!({"observed": show(o, &out_t), "expected": show(e, &out_t), "where": comp,
                               "input": inp.iter().zip(input_types(c)?.iter()).map(|(v, t)| show(v, t)).collect::<Vec<_>>()}),
                    ));
                }
            }
            (Err(o), Err(e)) => {
                res.both_error += 1;
                if stable_msg(o) != stable_msg(e) {
                    res.violations.push((
                        format!("C08:error-mismatch:{}", all_tags),
                        "instantiated context and reference both fail, but differently".to_string(),
                        json!({"observed": o, "expected": e}),
                    ));
                }
            }
            (o, e) => {
                res.violations.push((
                    format!("C08:outcome-mismatch:{}", all_tags),
                    "one of instantiated evaluation / reference fails, the other returns a value".to_string(),
                    json!({"observed": o.as_ref().map(|v| show(v, &out_t)).map_err(|x| x.clone()),
                           "expected": e.as_ref().map(|v| show(v, &out_t)).map_err(|x| x.clone())}),
                ));
            }
        }
        // (3b) different parameterisations on the same arguments
        for (pi, (a, b)) in ppairs.iter().enumerate() {
            let (ia, ib) = (customs[*a].0, customs[*b].0);
            let differ_ref = match (&walk[ia], &walk[ib]) {
                (Ok(x), Ok(y)) => x != y,
                (Err(_), Err(_)) => false,
                _ => true,
            };
            if !differ_ref {
                continue;
            }
            distinguished[pi] = true;
            if let (Ok(o), Some(ka), Some(kb)) = (&observed, comp_of_node.get(&(ia as u64)), comp_of_node.get(&(ib as u64))) {
                if let Ok(ov) = o.to_vector() {
                    if ov.len() > *ka.max(kb) && ov[*ka] == ov[*kb] {
                        res.violations.push((
                            format!("C08:parameter-ignored:{}", op_tag(&customs[*a].1)),
                            "two parameterisations whose single-op references differ give the same result in one context".to_string(),
                            json!({"a": keys[*a], "b": keys[*b]}),
                        ));
                    }
                }
            }
        }
    }
    for (pi, (a, b)) in ppairs.iter().enumerate() {
        res.param_pairs.push((
            op_tag(&customs[*a].1),
            format!("{} | {}", keys[*a], keys[*b]),
            distinguished[pi],
        ));
    }
    Ok(res)
}

// ---------------------------------------------------------------------------------------------
// enumeration
// ---------------------------------------------------------------------------------------------

fn accepted_uses(members: &[Member], r: &Report) -> Vec<Use> {
    let mut uses = vec![];
    for (mi, m) in members.iter().enumerate() {
        let mut cands: Vec<(Vec<Type>, bool)> = m.sigs.iter().map(|s| (s.clone(), false)).collect();
        cands.extend(m.wide_sigs.iter().map(|s| (s.clone(), true)));
        for (sig, wide) in cands {
            r.count("candidate_uses", 1);
            let mut sp = Spec::new(String::new());
            let a = sp.inputs(&sig);
            sp.custom(mi, a);
            match build(&sp, members) {
                Ok(c) => {
                    let out = c
                        .get_main_graph()
                        .and_then(|g| g.get_output_node())
                        .and_then(|o| o.get_node_dependencies()[0].get_type());
                    if let Ok(out) = out {
                        uses.push(Use { member: mi, sig, out, wide });
                    }
                }
                Err(_) => r.count("uses_rejected_by_builder", 1),
            }
        }
    }
    uses
}

fn use_label(u: &Use, members: &[Member]) -> String {
    format!("{}<{}>", members[u.member].label(), types_str(&u.sig))
}

/// values produced by a use that can feed another operation: (glue steps appended to spec, type)
fn produced(sp: &mut Spec, node: usize, t: &Type) -> Vec<(usize, Type)> {
    let mut out = vec![];
    match t {
        Type::Tuple(ts) => {
            for (i, tt) in ts.iter().enumerate() {
                let n = sp.push(Step::TupleGet(node, i as u64));
                out.push((n, (**tt).clone()));
            }
        }
        _ => out.push((node, t.clone())),
    }
    // bridges between the integer family and the bit-string family
    let mut extra = vec![];
    for (n, tt) in out.iter() {
        if let Type::Array(s, st) = tt {
            if *st == INT64 || *st == UINT64 {
                let mut bs = s.clone();
                bs.push(64);
                extra.push((Step::A2B(*n), array_type(bs, BIT)));
            } else if *st == BIT && s.len() >= 2 && *s.last().unwrap() == 64 {
                extra.push((Step::B2A(*n, INT64), array_type(s[..s.len() - 1].to_vec(), INT64)));
            }
        }
    }
    for (s, tt) in extra {
        let n = sp.push(s);
        out.push((n, tt));
    }
    out
}

/// spec "b applied to the output of a", if some signature of b has a position of a produced type
fn nest_spec(a: &Use, b: &Use, members: &[Member]) -> Option<Spec> {
    let mut sp = Spec::new(format!("nest {} -> {}", use_label(a, members), use_label(b, members)));
    let ia = sp.inputs(&a.sig);
    let na = sp.custom(a.member, ia);
    let prod = produced(&mut sp, na, &a.out);
    for (pn, pt) in prod.iter() {
        if let Some(pos) = b.sig.iter().position(|t| t == pt) {
            let mut args = vec![];
            for (k, t) in b.sig.iter().enumerate() {
                if k == pos {
                    args.push(*pn);
                } else {
                    args.push(sp.input(t));
                }
            }
            sp.custom(b.member, args);
            return Some(sp);
        }
    }
    None
}

fn enumerate_specs(members: &[Member], uses: &[Use], thorough: bool) -> Vec<Spec> {
    let mut specs = vec![];
    // uses taking part in pair enumeration: thorough = all accepted uses; quick = the first accepted
    // signature of every member
    let all: Vec<&Use> = uses.iter().filter(|u| (thorough || !u.wide) && !members[u.member].user).collect();
    let primary: Vec<&Use> = (0..members.len()).filter_map(|m| all.iter().find(|u| u.member == m).copied()).collect();
    let mut pairs: Vec<(&Use, &Use, bool)> = vec![];
    {
        let pu: &Vec<&Use> = if thorough { &all } else { &primary };
        for i in 0..pu.len() {
            for j in i..pu.len() {
                pairs.push((pu[i], pu[j], i == j));
            }
        }
        if !thorough {
            // quick: additionally all parameterisations of one op side by side on every further signature
            for i in 0..all.len() {
                for j in i + 1..all.len() {
                    let (a, b) = (all[i], all[j]);
                    let is_primary = |u: &Use| primary.iter().any(|p| p.member == u.member && p.sig == u.sig);
                    if members[a.member].base == members[b.member].base && a.sig == b.sig && !(is_primary(a) && is_primary(b)) {
                        pairs.push((a, b, false));
                    }
                }
            }
        }
    }
    // A. unordered pairs of uses (diagonal included): once, twice
    for (a, b, diag) in pairs.into_iter() {
        let same_base_same_sig = members[a.member].base == members[b.member].base && a.sig == b.sig;
        // once (two parameterisations of one op: on the SAME arguments)
        let mut sp = Spec::new(format!("once {} | {}", use_label(a, members), use_label(b, members)));
        let ia = sp.inputs(&a.sig);
        sp.custom(a.member, ia.clone());
        if !diag {
            let ib = if same_base_same_sig { ia.clone() } else { sp.inputs(&b.sig) };
            sp.custom(b.member, ib);
        }
        specs.push(sp);
        // twice: a, b, a on fresh inputs, b on the same inputs again
        let mut sp = Spec::new(format!("twice {} | {}", use_label(a, members), use_label(b, members)));
        let ia = sp.inputs(&a.sig);
        sp.custom(a.member, ia.clone());
        let ib = if !diag {
            let ib = sp.inputs(&b.sig);
            sp.custom(b.member, ib.clone());
            ib
        } else {
            ia.clone()
        };
        let ia2 = sp.inputs(&a.sig);
        sp.custom(a.member, ia2);
        if !diag {
            sp.custom(b.member, ib);
        }
        specs.push(sp);
    }
    // B. nesting: for every ordered pair (use a, member b) the first signature of b that fits (thorough: all)
    for a in all.iter() {
        for mb in (0..members.len()).filter(|m| !members[*m].user) {
            for b in uses.iter().filter(|u| u.member == mb) {
                // quick: 64-bit bit-string signatures are reachable as nesting targets (A2B bridge), the
                // expensive array signatures of FixedMultiply{debug=true} are not
                if !thorough && b.wide && members[mb].base == "FixedMultiply" {
                    continue;
                }
                if let Some(sp) = nest_spec(a, b, members) {
                    specs.push(sp);
                    if !thorough {
                        break;
                    }
                }
            }
        }
    }
    // C. thorough: unordered triples of members (first accepted signature of each), once
    if thorough {
        let first: Vec<&Use> =
            (0..members.len()).filter(|m| !members[*m].user).filter_map(|m| uses.iter().find(|u| u.member == m)).collect();
        for i in 0..first.len() {
            for j in i + 1..first.len() {
                for k in j + 1..first.len() {
                    let mut sp = Spec::new(format!(
                        "triple {} | {} | {}",
                        use_label(first[i], members),
                        use_label(first[j], members),
                        use_label(first[k], members)
                    ));
                    let mut by_sig: Vec<(Vec<Type>, Vec<usize>)> = vec![];
                    for u in [first[i], first[j], first[k]] {
                        // operations with the same signature share their arguments
                        let args = match by_sig.iter().find(|(s, _)| *s == u.sig) {
                            Some((_, a)) => a.clone(),
                            None => {
                                let a = sp.inputs(&u.sig);
                                by_sig.push((u.sig.clone(), a.clone()));
                                a
                            }
                        };
                        sp.custom(u.member, args);
                    }
                    specs.push(sp);
                }
            }
        }
    }
    // D. user-defined operations: every unordered pair of (operation, signature) uses among them (diagonal
    // included) once and twice - this contains two parameterisations on one type, one parameterisation on two
    // types, and uses sharing a nested instantiation - every ordered nesting among them, and each of them
    // next to / nested with the library operation Not on the same signature
    {
        let uu: Vec<&Use> = uses.iter().filter(|u| members[u.member].user).collect();
        let nots: Vec<&Use> = uses.iter().filter(|u| members[u.member].base == "Not" && !u.wide).collect();
        let mut pairs: Vec<(&Use, &Use, bool)> = vec![];
        for i in 0..uu.len() {
            for j in i..uu.len() {
                pairs.push((uu[i], uu[j], i == j));
            }
            for n in nots.iter() {
                pairs.push((uu[i], n, false));
            }
        }
        for (a, b, diag) in pairs.into_iter() {
            let same_sig = a.sig == b.sig;
            let mut sp = Spec::new(format!("user once {} | {}", use_label(a, members), use_label(b, members)));
            let ia = sp.inputs(&a.sig);
            sp.custom(a.member, ia.clone());
            if !diag {
                let ib = if same_sig { ia.clone() } else { sp.inputs(&b.sig) };
                sp.custom(b.member, ib);
            }
            specs.push(sp);
            let mut sp = Spec::new(format!("user twice {} | {}", use_label(a, members), use_label(b, members)));
            let ia = sp.inputs(&a.sig);
            sp.custom(a.member, ia.clone());
            let ib = if !diag {
                let ib = sp.inputs(&b.sig);
                sp.custom(b.member, ib.clone());
                ib
            } else {
                ia.clone()
            };
            let ia2 = sp.inputs(&a.sig);
            sp.custom(a.member, ia2);
            if !diag {
                sp.custom(b.member, ib);
            }
            specs.push(sp);
        }
        for a in uu.iter().chain(nots.iter()) {
            for b in uu.iter().chain(nots.iter()) {
                if members[a.member].user || members[b.member].user {
                    if let Some(sp) = nest_spec(a, b, members) {
                        specs.push(sp);
                    }
                }
            }
        }
    }
    specs
}

struct CaseOut {
    label: String,
    built: bool,
    checked: Option<Checked>,
    machinery: Option<String>,
    case: Option<J>,
    sample: Option<J>,
}

fn run_case(sp: &Spec, members: &[Member], k_inputs: usize, seed: u64, want_sample: bool) -> CaseOut {
    let mut out = CaseOut { label: sp.label.clone(), built: false, checked: None, machinery: None, case: None, sample: None };
    let c = match build(sp, members) {
        Ok(c) => c,
        Err(_) => return out,
    };
    out.built = true;
    let inputs = match input_alphabet(&c, k_inputs) {
        Ok(i) => i,
        Err(e) => {
            out.machinery = Some(e);
            return out;
        }
    };
    match check_context(&c, &inputs, seed) {
        Ok(ch) => {
            if !ch.violations.is_empty() {
                out.case = Some(json!({
                    "label": sp.label,
                    "context": serde_json::to_string(&c).unwrap_or_default(),
                    "inputs": serde_json::to_value(&inputs).unwrap_or(J::Null),
                }));
            }
            if want_sample {
                out.sample = Some(json!({"context": sp.label, "custom_nodes": ch.n_custom, "distinct_instantiations": ch.n_distinct_inst,
                    "instantiated": ch.instantiated_ok, "input_vectors": ch.evaluations}));
            }
            out.checked = Some(ch);
        }
        Err(e) => out.machinery = Some(e),
    }
    out
}

pub fn run(r: &Report) -> i32 {
    let thorough = r.tier.thorough();
    let members = alphabet();
    let uses = accepted_uses(&members, r);
    r.count("alphabet_members", members.len() as u64);
    r.count("accepted_uses", uses.len() as u64);
    let specs = enumerate_specs(&members, &uses, thorough);
    r.count("contexts_enumerated", specs.len() as u64);
    let k_inputs = if thorough { 5 } else { 4 };
    let seed = r.seed;

    let chunk = 256;
    let mut machinery: Option<String> = None;
    let mut undistinguished: BTreeMap<String, bool> = BTreeMap::new();
    let mut by_base: BTreeMap<String, (u64, u64)> = BTreeMap::new();
    let mut n_sampled = 0usize;
    // wall-clock guard for overloaded machines (the enumeration order is pairs, nesting, triples; a cut
    // is reported as a cap and makes the run non-exhaustive)
    let max_s: f64 = std::env::var("C08_MAX_S").ok().and_then(|s| s.parse().ok()).unwrap_or(if thorough { 570.0 } else { 3600.0 });
    for (ci, part) in specs.chunks(chunk).enumerate() {
        if r.elapsed() > max_s {
            r.cap_hit(&format!("wall-clock cap {} s: {} of {} contexts checked", max_s, ci * chunk, specs.len()));
            break;
        }
        let want = n_sampled < r.max_samples;
        let outs: Vec<CaseOut> = part
            .par_iter()
            .enumerate()
            .map(|(i, sp)| run_case(sp, &members, k_inputs, seed, want && ci == 0 && i % 37 == 0))
            .collect();
        for o in outs {
            if let Some(e) = o.machinery {
                if machinery.is_none() {
                    machinery = Some(format!("{}: {}", o.label, e));
                }
                continue;
            }
            if !o.built {
                r.count("contexts_rejected_by_builder", 1);
                continue;
            }
            let ch = o.checked.unwrap();
            r.count("contexts_checked", 1);
            r.count("evaluations", ch.evaluations);
            r.count("both_error_evaluations", ch.both_error);
            if ch.instantiated_ok {
                r.count("contexts_instantiated_ok", 1);
            }
            if ch.n_distinct_inst >= 2 {
                r.distinct_str(&o.label);
                r.count("contexts_with_2plus_instantiations", 1);
            }
            if ch.nested_instantiations {
                r.count("contexts_with_nested_instantiations", 1);
            }
            if o.label.starts_with("nest") {
                r.count("nesting_contexts", 1);
            }
            for (tag, pair, d) in ch.param_pairs.iter() {
                let e = by_base.entry(tag.clone()).or_insert((0, 0));
                e.0 += 1;
                if *d {
                    e.1 += 1;
                }
                r.count("parameter_pairs_side_by_side", 1);
                if *d {
                    r.count("parameter_pairs_distinguished_by_input", 1);
                }
                let e = undistinguished.entry(pair.clone()).or_insert(false);
                *e = *e || *d;
            }
            if let Some(s) = o.sample {
                if n_sampled < r.max_samples {
                    r.sample(s);
                    n_sampled += 1;
                }
            }
            for (sig, what, extra) in ch.violations.iter() {
                let mut case = o.case.clone().unwrap_or(J::Null);
                if let Some(m) = case.as_object_mut() {
                    m.insert("detail".into(), extra.clone());
                }
                r.violation(sig, &format!("{} [context: {}]", what, o.label), case);
            }
        }
    }
    if let Some(e) = machinery {
        println!("MACHINERY-ERROR property=C08 {}", e);
        return 2;
    }
    let never: Vec<String> = undistinguished.iter().filter(|(_, d)| !**d).map(|(k, _)| k.clone()).collect();
    r.extra("parameter_pairs_never_distinguished", json!(never));
    r.extra(
        "side_by_side_pairs_by_op",
        json!(by_base.iter().map(|(k, v)| (k.clone(), json!({"contexts": v.0, "distinguished": v.1}))).collect::<BTreeMap<_, _>>()),
    );
    // oracle (3) must not be vacuous for any operation that has parameters and instantiates side by side
    let vacuous: Vec<String> = by_base.iter().filter(|(_, v)| v.1 == 0).map(|(k, _)| k.clone()).collect();
    if !vacuous.is_empty() {
        println!(
            "MACHINERY-ERROR property=C08 vacuous: no input distinguishes any two parameterisations of {:?}",
            vacuous
        );
        return 2;
    }
    r.finish(
        "exploration",
        "contexts = unordered pairs (diagonal included) of accepted uses (op+parameters, argument signature) - thorough: all \
         uses, quick: first accepted signature of every member plus all parameterisations of one op on every further shared \
         signature - each once and twice (second copy on fresh inputs; two parameterisations of one op share their arguments); \
         nesting b(a(..)) for every ordered (use a, member b) whose signature has a position of a's output type (TupleGet/A2B/B2A \
         glue; quick: first fitting signature, thorough: all); thorough: all unordered triples of members; every context on 4 \
         (thorough 5) input vectors; non-trivial = context needing >= 2 distinct instantiations",
        true,
        &[
            "the single-operation context (one instantiation per context) is the trusted reference configuration",
            "plain evaluation of the enumerated operations is deterministic (no Random nodes)",
            "inputs outside an operation's documented range still evaluate deterministically, so they are valid differential inputs",
        ],
        &[
            "evaluations",
            "contexts_with_2plus_instantiations",
            "contexts_with_nested_instantiations",
            "nesting_contexts",
            "parameter_pairs_distinguished_by_input",
        ],
    )
}

pub fn replay(r: &Report, rec: &serde_json::Value) -> i32 {
    let case = &rec["case"];
    let ctx_s = match case["context"].as_str() {
        Some(s) => s,
        None => {
            println!("MACHINERY-ERROR property=C08 replay record has no context");
            return 2;
        }
    };
    let c: Context = match serde_json::from_str(ctx_s) {
        Ok(c) => c,
        Err(e) => {
            println!("MACHINERY-ERROR property=C08 cannot deserialize context: {}", e);
            return 2;
        }
    };
    let inputs: Vec<Vec<Value>> = match serde_json::from_value(case["inputs"].clone()) {
        Ok(i) => i,
        Err(e) => {
            println!("MACHINERY-ERROR property=C08 cannot deserialize inputs: {}", e);
            return 2;
        }
    };
    let want = rec["signature"].as_str().unwrap_or("");
    println!("replaying context: {}", case["label"].as_str().unwrap_or("?"));
    match check_context(&c, &inputs, r.seed) {
        Ok(ch) => {
            println!(
                "custom nodes: {}, distinct instantiations: {}, run_instantiation_pass ok: {}",
                ch.n_custom, ch.n_distinct_inst, ch.instantiated_ok
            );
            println!("expected: run_instantiation_pass Ok and evaluation equal to the per-node single-operation reference");
            let mut hit = false;
            for (sig, what, extra) in ch.violations.iter() {
                println!("observed: [{}] {} {}", sig, what, extra);
                if sig == want || want.is_empty() {
                    hit = true;
                }
            }
            if ch.violations.is_empty() {
                println!("observed: no violation");
            }
            if hit {
                println!("VIOLATION property=C08 reproduced signature={}", want);
                1
            } else {
                println!("NOT-REPRODUCED property=C08 signature={}", want);
                0
            }
        }
        Err(e) => {
            println!("MACHINERY-ERROR property=C08 {}", e);
            2
        }
    }
}
