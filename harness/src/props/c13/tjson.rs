//! Section json of C13: TypedValue -> human-readable JSON -> TypedValue.
use super::conv::{lib, Out};
use super::ctype::{vtree, vuntree};
use super::ints::*;
use super::{jerr, Acc};
use crate::common::{catch, hash_str, stable_msg, Report};
use crate::vals::{arr_elems, build_value, encode, key, num_elems, st_mask, st_signed, ALL_ST};
use ciphercore_base::data_types::{
    array_type, named_tuple_type, scalar_type, tuple_type, vector_type, ScalarType, Type, BIT, INT128, INT16, INT32, INT64, INT8,
    UINT128, UINT16, UINT64, UINT8,
};
use ciphercore_base::data_values::Value;
use ciphercore_base::typed_value::TypedValue;
use ciphercore_base::typed_value_operations::TypedValueOperations;
use rayon::prelude::*;
use serde_json::{json, Value as J};

#[derive(Default)]
struct NumStats {
    negative: u64,
    over64: u64,
}

fn nested(shape: &[u64], elems: &[String]) -> String {
    if shape.len() <= 1 {
        return format!("[{}]", elems.join(","));
    }
    let chunk = elems.len() / shape[0] as usize;
    let parts: Vec<String> = elems.chunks(chunk.max(1)).map(|c| nested(&shape[1..], c)).collect();
    format!("[{}]", parts.join(","))
}

/// the documented human-readable form, written from the reference examples (kind / type / value; nested lists
/// for arrays in row-major order; name/value pairs for named tuples); numbers are plain decimal integers
fn exp_text(t: &Type, v: &Value, ns: &mut NumStats) -> Option<String> {
    let mut note = |r: u128, st: &ScalarType| {
        if is_negative(r, st) {
            ns.negative += 1;
        }
        let w = widen(r, st);
        let mag = if st_signed(st) { (w as i128).unsigned_abs() } else { w };
        if mag >= (1u128 << 64) {
            ns.over64 += 1;
        }
    };
    match t {
        Type::Scalar(st) => {
            let e = arr_elems(v, t)?;
            note(e[0], st);
            Some(format!(r#"{{"kind":"scalar","type":"{}","value":{}}}"#, st_name(st), dec(e[0], st)))
        }
        Type::Array(shape, st) => {
            let e = arr_elems(v, t)?;
            for x in e.iter() {
                note(*x, st);
            }
            let el: Vec<String> = e.iter().map(|x| dec(*x, st)).collect();
            Some(format!(r#"{{"kind":"array","type":"{}","value":{}}}"#, st_name(st), nested(shape, &el)))
        }
        Type::Tuple(ts) => {
            let vs = v.to_vector().ok()?;
            if vs.len() != ts.len() {
                return None;
            }
            let mut parts = vec![];
            for (x, ct) in vs.iter().zip(ts.iter()) {
                parts.push(exp_text(ct, x, ns)?);
            }
            Some(format!(r#"{{"kind":"tuple","value":[{}]}}"#, parts.join(",")))
        }
        Type::Vector(n, et) => {
            let vs = v.to_vector().ok()?;
            if vs.len() as u64 != *n {
                return None;
            }
            let mut parts = vec![];
            for x in vs.iter() {
                parts.push(exp_text(et, x, ns)?);
            }
            Some(format!(r#"{{"kind":"vector","value":[{}]}}"#, parts.join(",")))
        }
        Type::NamedTuple(nts) => {
            let vs = v.to_vector().ok()?;
            if vs.len() != nts.len() {
                return None;
            }
            let mut parts = vec![];
            for (x, (name, ct)) in vs.iter().zip(nts.iter()) {
                parts.push(format!(r#"{{"name":{},"value":{}}}"#, serde_json::to_string(name).ok()?, exp_text(ct, x, ns)?));
            }
            Some(format!(r#"{{"kind":"named tuple","value":[{}]}}"#, parts.join(",")))
        }
    }
}

fn depth(t: &Type) -> usize {
    match t {
        Type::Scalar(_) | Type::Array(_, _) => 0,
        Type::Tuple(ts) => 1 + ts.iter().map(|x| depth(x)).max().unwrap_or(0),
        Type::Vector(_, et) => 1 + depth(et),
        Type::NamedTuple(nts) => 1 + nts.iter().map(|x| depth(&x.1)).max().unwrap_or(0),
    }
}

/// does the type contain a zero-length vector whose element type is not the empty tuple / an empty named tuple?
fn degenerate_feature(t: &Type) -> Option<&'static str> {
    match t {
        Type::Scalar(_) | Type::Array(_, _) => None,
        Type::Tuple(ts) => ts.iter().filter_map(|x| degenerate_feature(x)).next(),
        Type::Vector(n, et) => {
            if *n == 0 && **et != tuple_type(vec![]) {
                Some("zero-length-vector")
            } else {
                degenerate_feature(et)
            }
        }
        Type::NamedTuple(nts) => {
            if nts.is_empty() {
                Some("empty-named-tuple")
            } else {
                nts.iter().filter_map(|x| degenerate_feature(&x.1)).next()
            }
        }
    }
}

/// the type with the element type of every zero-length vector replaced by ()
fn erase_empty_vec(t: &Type) -> Type {
    match t {
        Type::Scalar(_) | Type::Array(_, _) => t.clone(),
        Type::Tuple(ts) => tuple_type(ts.iter().map(|x| erase_empty_vec(x)).collect()),
        Type::Vector(n, et) => {
            if *n == 0 {
                vector_type(0, tuple_type(vec![]))
            } else {
                vector_type(*n, erase_empty_vec(et))
            }
        }
        Type::NamedTuple(nts) => named_tuple_type(nts.iter().map(|x| (x.0.clone(), erase_empty_vec(&x.1))).collect()),
    }
}

fn feature(t: &Type) -> String {
    if let Some(f) = degenerate_feature(t) {
        return f.to_string();
    }
    match t {
        Type::Scalar(st) => format!("scalar-{}", st_name(st)),
        Type::Array(_, st) => format!("array-{}", st_name(st)),
        Type::Tuple(_) => "tuple".into(),
        Type::Vector(_, _) => "vector".into(),
        Type::NamedTuple(_) => "named-tuple".into(),
    }
}

fn vkey(v: &Value) -> Vec<u8> {
    let mut k = vec![];
    key(v, &mut k);
    k
}

pub fn check_json(t: &Type, v: &Value, acc: &mut Acc) {
    let case = || jerr("json", json!({"t": serde_json::to_value(t).unwrap_or(J::Null), "type": format!("{}", t), "v": vtree(v)}));
    acc.c("evaluations", 1);
    let feat = feature(t);
    let mut ns = NumStats::default();
    let want = match exp_text(t, v, &mut ns) {
        Some(w) => w,
        None => {
            acc.fail("C13:json:machinery:bad-case".into(), "value does not match type in the harness".into(), &case);
            return;
        }
    };
    let want_j: J = match serde_json::from_str(&want) {
        Ok(j) => j,
        Err(e) => {
            acc.fail("C13:json:machinery:bad-oracle-text".into(), format!("{}: {}", want, e), &case);
            return;
        }
    };
    let tv = match lib(|| TypedValue::new(t.clone(), v.clone())) {
        Out::Ok(tv) => tv,
        o => {
            acc.fail(format!("C13:json:new:{}", feat), format!("TypedValue::new({}): {}", t, o.msg()), &case);
            return;
        }
    };
    acc.c("json_roundtrips", 1);
    acc.c("json_negative_numbers", ns.negative);
    acc.c("json_numbers_over_64_bits", ns.over64);
    if depth(t) >= 2 {
        acc.c("json_nested_depth2", 1);
    }
    let judge_back = |src: &str, text: &str, acc: &mut Acc| match catch(|| serde_json::from_str::<TypedValue>(text)) {
        Err(p) => acc.fail(
            format!("C13:json:parse-panic:{}", feat),
            format!("from_str panics on {} text {}: {}", src, text, stable_msg(&p)),
            &case,
        ),
        Ok(Err(e)) => acc.fail(
            // the empty-named-tuple signature is reserved for the one message of that defect
            format!(
                "C13:json:parse-error:{}",
                if feat == "empty-named-tuple" && !e.to_string().contains("doesn't match to kind \"named tuple\"") {
                    "degenerate-other"
                } else {
                    feat.as_str()
                }
            ),
            format!("from_str rejects the {} text {} of type {}: {}", src, text, t, e),
            &case,
        ),
        Ok(Ok(back)) => {
            if back.t != *t {
                // the zero-length-vector signature is reserved for "only the element type of an empty vector is lost"
                let f2 = if feat == "zero-length-vector" && erase_empty_vec(&back.t) != erase_empty_vec(t) {
                    "degenerate-other"
                } else {
                    feat.as_str()
                };
                acc.fail(
                    format!("C13:json:type-changed:{}", f2),
                    format!("{} text {} parses back with type {} instead of {}", src, text, back.t, t),
                    &case,
                );
                return;
            }
            match lib(|| tv.is_equal(&back)) {
                Out::Ok(true) => {}
                o => acc.fail(
                    format!("C13:json:not-equal:{}", feat),
                    format!("is_equal(original, parsed {} text {}) = {}", src, text, match o { Out::Ok(b) => b.to_string(), o => o.msg() }),
                    &case,
                ),
            }
            if vkey(&back.value) != vkey(v) || back.name.is_some() {
                acc.fail(
                    format!("C13:json:value-changed:{}", feat),
                    format!("{} text {} parses back to value {} instead of {}", src, text, vtree(&back.value), vtree(v)),
                    &case,
                );
            }
        }
    };
    match catch(|| serde_json::to_string(&tv)) {
        Err(p) => acc.fail(format!("C13:json:print-panic:{}", feat), format!("to_string panics: {}", stable_msg(&p)), &case),
        Ok(Err(e)) => acc.fail(format!("C13:json:print-error:{}", feat), format!("to_string of {}: {}", t, e), &case),
        Ok(Ok(s)) => {
            match serde_json::from_str::<J>(&s) {
                Ok(j) if j == want_j => {}
                _ => acc.fail(
                    format!("C13:json:wrong-text:{}", feat),
                    format!("printed {} expected {}", s, want),
                    &case,
                ),
            }
            judge_back("printed", &s, acc);
        }
    }
    // the parser on the independently written text (so that a symmetric printer/parser error cannot hide)
    judge_back("reference", &want, acc);
}

// ---------------------------------------------------------------------------------------------
// alphabets
// ---------------------------------------------------------------------------------------------

fn leaves_full() -> Vec<Type> {
    let mut v: Vec<Type> = ALL_ST.iter().map(|st| scalar_type(*st)).collect();
    for st in ALL_ST.iter() {
        for shape in [vec![1u64], vec![3], vec![2, 2]] {
            v.push(array_type(shape, *st));
        }
    }
    v.push(array_type(vec![9], BIT));
    v.push(array_type(vec![3, 3], BIT));
    v.push(array_type(vec![17], BIT));
    v.push(array_type(vec![2, 1, 3], BIT));
    v.push(array_type(vec![2, 2, 2], INT32));
    v.push(array_type(vec![1, 1], UINT128));
    v.push(array_type(vec![2, 3], INT128));
    v.push(array_type(vec![3, 1, 2], INT64));
    v
}
fn leaves_reduced() -> Vec<Type> {
    let mut v: Vec<Type> = ALL_ST.iter().map(|st| scalar_type(*st)).collect();
    v.push(array_type(vec![9], BIT));
    v.push(array_type(vec![2, 2], INT16));
    v.push(array_type(vec![3], UINT128));
    v.push(array_type(vec![1], INT128));
    v.push(array_type(vec![3], UINT8));
    v
}
fn leaves_small(thorough: bool) -> Vec<Type> {
    let mut v = vec![
        scalar_type(BIT),
        scalar_type(INT8),
        scalar_type(UINT64),
        scalar_type(INT128),
        array_type(vec![9], BIT),
        array_type(vec![2, 2], INT16),
    ];
    if thorough {
        v.extend_from_slice(&[scalar_type(UINT16), scalar_type(INT64), scalar_type(UINT128), array_type(vec![3], INT128), array_type(vec![2], UINT8)]);
    }
    v
}
fn s(x: &str) -> String {
    x.to_string()
}

/// depth-1 containers over leaves (no degenerate members except the empty tuple and vector(0, ()))
fn depth1(single: &[Type], pair: &[Type]) -> Vec<Type> {
    let mut v = vec![tuple_type(vec![]), vector_type(0, tuple_type(vec![]))];
    for l in single {
        v.push(tuple_type(vec![l.clone()]));
        v.push(named_tuple_type(vec![(s("a"), l.clone())]));
        v.push(vector_type(1, l.clone()));
        v.push(vector_type(3, l.clone()));
    }
    for a in pair {
        for b in pair {
            v.push(tuple_type(vec![a.clone(), b.clone()]));
            v.push(named_tuple_type(vec![(s("x"), a.clone()), (s("a"), b.clone())]));
        }
    }
    v
}
fn depth2(d: &[Type], leaves: &[Type], cross: usize) -> Vec<Type> {
    let mut v = vec![];
    for x in d {
        v.push(tuple_type(vec![x.clone()]));
        v.push(named_tuple_type(vec![(s("f"), x.clone())]));
        v.push(vector_type(2, x.clone()));
        for l in leaves {
            v.push(tuple_type(vec![x.clone(), l.clone()]));
            v.push(tuple_type(vec![l.clone(), x.clone()]));
            v.push(named_tuple_type(vec![(s("p"), x.clone()), (s("q"), l.clone())]));
        }
    }
    // pairs of containers (every `step`-th member so that all kinds meet)
    let step = (d.len() / cross.max(1)).max(1);
    let picks: Vec<&Type> = d.iter().step_by(step).collect();
    for a in picks.iter() {
        for b in picks.iter() {
            v.push(tuple_type(vec![(*a).clone(), (*b).clone()]));
        }
    }
    v
}
/// zero-length vectors with a real element type, empty named tuples - alone and nested once
fn degenerate() -> Vec<Type> {
    let mut v = vec![];
    for l in [scalar_type(INT32), scalar_type(BIT), array_type(vec![2], UINT8), tuple_type(vec![scalar_type(UINT8)]), vector_type(2, scalar_type(INT8))] {
        v.push(vector_type(0, l.clone()));
        v.push(tuple_type(vec![vector_type(0, l.clone()), scalar_type(UINT8)]));
        v.push(vector_type(2, vector_type(0, l.clone())));
        v.push(named_tuple_type(vec![(s("a"), vector_type(0, l.clone()))]));
    }
    v.push(named_tuple_type(vec![]));
    v.push(tuple_type(vec![named_tuple_type(vec![])]));
    v.push(vector_type(2, named_tuple_type(vec![])));
    v.push(named_tuple_type(vec![(s("a"), named_tuple_type(vec![]))]));
    v
}

fn leaf_types(t: &Type, out: &mut Vec<Type>) {
    match t {
        Type::Scalar(_) | Type::Array(_, _) => out.push(t.clone()),
        Type::Tuple(ts) => ts.iter().for_each(|x| leaf_types(x, out)),
        Type::Vector(n, et) => (0..*n).for_each(|_| leaf_types(et, out)),
        Type::NamedTuple(nts) => nts.iter().for_each(|x| leaf_types(&x.1, out)),
    }
}

/// the k-th value of a type: leaf i, element j holds alphabet[(k + 3 i + j) mod len]
fn kth_value(t: &Type, k: usize) -> Value {
    let mut i = 0usize;
    build_value(t, &mut |lt| {
        let st = lt.get_scalar_type();
        let va = value_alphabet(&st);
        let n = num_elems(lt);
        let el: Vec<u128> = (0..n).map(|j| va[(k + 3 * i + j) % va.len()]).collect();
        i += 1;
        Value::from_bytes(encode(&el, &st))
    })
}
fn rounds(t: &Type) -> usize {
    let mut ls = vec![];
    leaf_types(t, &mut ls);
    ls.iter().map(|l| value_alphabet(&l.get_scalar_type()).len()).max().unwrap_or(1)
}

fn sweep(types: &[Type], tag: &str, r: &Report) {
    let parts: Vec<Acc> = types
        .par_chunks(64)
        .enumerate()
        .map(|(ci, chunk)| {
            let mut acc = Acc::default();
            for (ti, t) in chunk.iter().enumerate() {
                for k in 0..rounds(t) {
                    let v = kth_value(t, k);
                    check_json(t, &v, &mut acc);
                    acc.distinct.push(hash_str(&format!("json/{}/{}/{}", tag, ci * 64 + ti, k)));
                }
            }
            acc
        })
        .collect();
    for a in parts {
        a.merge_into(r);
    }
}

pub fn run(r: &Report, thorough: bool) {
    let full = leaves_full();
    let red = if thorough { full.clone() } else { leaves_reduced() };
    let small = leaves_small(thorough);
    // depth 0
    sweep(&full, "leaf", r);
    // every 8-/16-bit scalar and every 8-bit value inside one array
    for st in [UINT8, INT8, UINT16, INT16] {
        let m = st_mask(&st);
        let all: Vec<u128> = (0..=m).collect();
        let parts: Vec<Acc> = all
            .par_chunks(4096)
            .map(|chunk| {
                let mut acc = Acc::default();
                for x in chunk {
                    check_json(&scalar_type(st), &Value::from_bytes(encode(&[*x], &st)), &mut acc);
                    acc.c("json_small_scalars_exhaustive", 1);
                    if *x != 0 {
                        acc.distinct.push(hash_str(&format!("json/scalar/{}/{}", st_name(&st), x)));
                    }
                }
                acc
            })
            .collect();
        for a in parts {
            a.merge_into(r);
        }
        if m == 255 {
            let mut acc = Acc::default();
            check_json(&array_type(vec![256], st), &Value::from_bytes(encode(&all, &st)), &mut acc);
            check_json(&array_type(vec![16, 16], st), &Value::from_bytes(encode(&all, &st)), &mut acc);
            acc.merge_into(r);
        }
    }
    // wide types: the whole boundary alphabet as scalars and as one array
    {
        let alpha = boundary_alphabet();
        let mut acc = Acc::default();
        for st in [UINT64, INT64, UINT128, INT128] {
            let m = st_mask(&st);
            let mut res: Vec<u128> = vec![];
            for x in alpha.iter() {
                let b = x.bits() & m;
                if !res.contains(&b) {
                    res.push(b);
                }
            }
            for x in res.iter() {
                check_json(&scalar_type(st), &Value::from_bytes(encode(&[*x], &st)), &mut acc);
                acc.distinct.push(hash_str(&format!("json/scalar/{}/{}", st_name(&st), x)));
            }
            check_json(&array_type(vec![res.len() as u64], st), &Value::from_bytes(encode(&res, &st)), &mut acc);
        }
        acc.merge_into(r);
    }
    // depth 1 and 2
    let d1 = depth1(&full, &red);
    r.extra("json_types_depth1", json!(d1.len()));
    sweep(&d1, "d1", r);
    let small_pair: Vec<Type> = small.iter().take(if thorough { 6 } else { 3 }).cloned().collect();
    let d_for_2 = depth1(&small, &small_pair);
    let l2: Vec<Type> = vec![scalar_type(INT8), array_type(vec![9], BIT)];
    let d2 = depth2(&d_for_2, &l2, if thorough { 16 } else { 8 });
    r.extra("json_types_depth2", json!(d2.len()));
    sweep(&d2, "d2", r);
    // field names
    {
        let mut acc = Acc::default();
        for name in ["a", "", "kind", "value", "name", "type", "x y", "\u{fc}\"q\\", "$serde_json::private::Number", "0"] {
            let t = named_tuple_type(vec![(s(name), scalar_type(INT16)), (s("zz"), array_type(vec![2], UINT8))]);
            for k in 0..3 {
                check_json(&t, &kth_value(&t, k), &mut acc);
                acc.c("json_field_name_cases", 1);
            }
            acc.distinct.push(hash_str(&format!("json/name/{}", name)));
        }
        acc.merge_into(r);
    }
    // degenerate containers
    {
        let dg = degenerate();
        let mut acc = Acc::default();
        for (i, t) in dg.iter().enumerate() {
            for k in 0..rounds(t).min(2) {
                check_json(t, &kth_value(t, k), &mut acc);
                acc.c("json_degenerate_cases", 1);
            }
            acc.distinct.push(hash_str(&format!("json/degenerate/{}", i)));
        }
        acc.merge_into(r);
    }
    // one actual case as a sample
    {
        let t = tuple_type(vec![scalar_type(INT128), array_type(vec![9], BIT)]);
        let v = kth_value(&t, 3);
        let text = catch(|| TypedValue::new(t.clone(), v.clone()).ok().and_then(|tv| serde_json::to_string(&tv).ok()));
        r.sample(json!({"section":"json","type":format!("{}", t),"value":vtree(&v),"printed":text.ok().flatten()}));
    }
}

pub fn replay(case: &J, acc: &mut Acc) -> bool {
    let t: Type = match serde_json::from_value(case["t"].clone()) {
        Ok(t) => t,
        Err(_) => return false,
    };
    let v = match vuntree(&case["v"]) {
        Some(v) => v,
        None => return false,
    };
    check_json(&t, &v, acc);
    true
}
