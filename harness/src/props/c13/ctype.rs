//! Section ctype of C13: Value::check_type / TypedValue::new(_named) accept a value iff its layout matches the type.
use super::conv::{bytes_of, lib, Out};
use super::{jerr, Acc};
use crate::common::{hash_str, Report};
use crate::vals::{layout_ok, pattern_value, st_bits, ALL_ST};
use ciphercore_base::data_types::{
    array_type, named_tuple_type, scalar_type, tuple_type, vector_type, Type, BIT, INT16, INT32, UINT16, UINT64, UINT8,
};
use ciphercore_base::data_values::Value;
use ciphercore_base::typed_value::TypedValue;
use serde_json::{json, Value as J};

/// value tree <-> JSON (for replay records)
pub fn vtree(v: &Value) -> J {
    match v.to_vector() {
        Ok(vs) => json!({ "v": vs.iter().map(vtree).collect::<Vec<_>>() }),
        Err(_) => json!({ "b": bytes_of(v).unwrap_or_default() }),
    }
}
pub fn vuntree(j: &J) -> Option<Value> {
    if let Some(b) = j.get("b").and_then(|x| x.as_array()) {
        let bytes: Option<Vec<u8>> = b.iter().map(|x| x.as_u64().map(|y| y as u8)).collect();
        return bytes.map(Value::from_bytes);
    }
    if let Some(a) = j.get("v").and_then(|x| x.as_array()) {
        let vs: Option<Vec<Value>> = a.iter().map(vuntree).collect();
        return vs.map(Value::from_vector);
    }
    None
}

/// Size/arity oracle written from the doc comment of check_type ("valid value for a given type", examples by
/// byte length): bytes of exactly ceil(bits/8) for scalars and arrays, one child per component otherwise.
/// Returns None for an invalid type.
pub fn size_ok(v: &Value, t: &Type) -> Option<bool> {
    let children: Option<Vec<Value>> = v.to_vector().ok();
    match t {
        Type::Scalar(st) => Some(match (&children, bytes_of(v)) {
            (None, Some(b)) => b.len() == if *st == BIT { 1 } else { st_bits(st) as usize / 8 },
            _ => false,
        }),
        Type::Array(shape, st) => {
            if shape.is_empty() || shape.iter().any(|d| *d == 0) {
                return None;
            }
            let n: u64 = shape.iter().product();
            let bits = n * st_bits(st) as u64;
            Some(match (&children, bytes_of(v)) {
                (None, Some(b)) => b.len() as u64 == (bits + 7) / 8,
                _ => false,
            })
        }
        Type::Tuple(ts) => {
            let cts: Vec<Type> = ts.iter().map(|x| (**x).clone()).collect();
            kids_ok(&children, &cts)
        }
        Type::Vector(n, et) => {
            let cts: Vec<Type> = (0..*n).map(|_| (**et).clone()).collect();
            if *n == 0 && !type_valid(et) {
                return None;
            }
            kids_ok(&children, &cts)
        }
        Type::NamedTuple(nts) => {
            let mut names: Vec<&String> = nts.iter().map(|x| &x.0).collect();
            names.sort();
            names.dedup();
            if names.len() != nts.len() {
                return None;
            }
            let cts: Vec<Type> = nts.iter().map(|x| (*x.1).clone()).collect();
            kids_ok(&children, &cts)
        }
    }
}
fn type_valid(t: &Type) -> bool {
    size_ok(&Value::from_bytes(vec![]), t).is_some()
}
fn kids_ok(children: &Option<Vec<Value>>, cts: &[Type]) -> Option<bool> {
    // validity of the type first (independent of the value)
    for ct in cts {
        if !type_valid(ct) {
            return None;
        }
    }
    match children {
        None => Some(false),
        Some(vs) => {
            if vs.len() != cts.len() {
                return Some(false);
            }
            let mut all = true;
            for (x, ct) in vs.iter().zip(cts.iter()) {
                match size_ok(x, ct) {
                    None => return None,
                    Some(b) => all &= b,
                }
            }
            Some(all)
        }
    }
}

fn arity_of(t: &Type) -> Option<usize> {
    match t {
        Type::Tuple(ts) => Some(ts.len()),
        Type::Vector(n, _) => Some(*n as usize),
        Type::NamedTuple(ts) => Some(ts.len()),
        _ => None,
    }
}

pub fn check_ctype(v: &Value, t: &Type, from_container: bool, acc: &mut Acc) {
    let case = || jerr("ctype", json!({"t": serde_json::to_value(t).unwrap_or(J::Null), "type": format!("{}", t), "v": vtree(v)}));
    acc.c("evaluations", 1);
    let exp = size_ok(v, t);
    let strict = crate::common::catch(|| layout_ok(v, t)).unwrap_or(false);
    let out = lib(|| v.check_type(t.clone()));
    let tkind = match t {
        Type::Scalar(_) => "scalar",
        Type::Array(_, _) => "array",
        Type::Tuple(_) => "tuple",
        Type::Vector(_, _) => "vector",
        Type::NamedTuple(_) => "named-tuple",
    };
    match (&out, exp) {
        (Out::Panic(p), _) => acc.fail(format!("C13:check_type:{}:panic", tkind), format!("check_type panics: {}", p), &case),
        (Out::Ok(true), None) => acc.fail(
            format!("C13:check_type:{}:accepts-invalid-type", tkind),
            format!("check_type accepts a value for the invalid type {:?}", t),
            &case,
        ),
        (_, None) => acc.c("ctype_invalid_type_refused", 1),
        (Out::Ok(b), Some(e)) => {
            if *b != e {
                let kind = if e { "rejects-matching-layout" } else { "accepts-wrong-layout" };
                acc.fail(
                    format!("C13:check_type:{}:{}", tkind, kind),
                    format!("check_type({}) on {}: expected {} observed {}", t, vtree(v), e, b),
                    &case,
                );
            }
            if e {
                acc.c("ctype_accept", 1);
                if !strict {
                    acc.c("ctype_stray_bits_accepted", 1);
                }
            } else {
                acc.c("ctype_reject", 1);
                if let (true, Ok(vs), Some(a)) = (from_container, v.to_vector(), arity_of(t)) {
                    if vs.len() != a {
                        acc.c("ctype_wrong_arity_rejects", 1);
                    }
                }
            }
            if strict && !e {
                acc.fail(
                    "C13:oracle-disagreement".into(),
                    format!("vals::layout_ok accepts but the size oracle rejects {} for {}", vtree(v), t),
                    &case,
                );
            }
        }
        (Out::Err(m), Some(e)) => acc.fail(
            format!("C13:check_type:{}:unexpected-error", tkind),
            format!("check_type({}) expected {} observed Err({})", t, e, m),
            &case,
        ),
    }
    // typed value construction follows the same rule
    if let Some(e) = exp {
        for named in [false, true] {
            let o = if named {
                lib(|| TypedValue::new_named(t.clone(), v.clone(), "n".to_string()))
            } else {
                lib(|| TypedValue::new(t.clone(), v.clone()))
            };
            let op = if named { "TypedValue::new_named" } else { "TypedValue::new" };
            match &o {
                Out::Panic(p) => acc.fail(format!("C13:{}:{}:panic", op, tkind), format!("{} panics: {}", op, p), &case),
                Out::Ok(tv) => {
                    if !e {
                        acc.fail(
                            format!("C13:{}:{}:accepts-wrong-layout", op, tkind),
                            format!("{}({}) accepts {}", op, t, vtree(v)),
                            &case,
                        )
                    } else if tv.t != *t || tv.value != *v || tv.name != if named { Some("n".to_string()) } else { None } {
                        acc.fail(format!("C13:{}:{}:alters-content", op, tkind), format!("{} alters type/value/name", op), &case)
                    }
                }
                Out::Err(m) => {
                    if e {
                        acc.fail(
                            format!("C13:{}:{}:rejects-matching-layout", op, tkind),
                            format!("{}({}) rejects {}: {}", op, t, vtree(v), m),
                            &case,
                        )
                    }
                }
            }
        }
    }
}

/// all single-point mutants of a value tree
fn mutants(v: &Value) -> Vec<Value> {
    let mut out = vec![];
    match v.to_vector() {
        Ok(vs) => {
            // arity changes at this node
            if !vs.is_empty() {
                out.push(Value::from_vector(vs[..vs.len() - 1].to_vec()));
                let mut d = vs.clone();
                d.push(vs[vs.len() - 1].clone());
                out.push(Value::from_vector(d));
            }
            let mut e = vs.clone();
            e.push(Value::from_bytes(vec![0]));
            out.push(Value::from_vector(e));
            let mut e = vs.clone();
            e.push(Value::from_vector(vec![]));
            out.push(Value::from_vector(e));
            // node kind change
            out.push(Value::from_bytes(vec![0]));
            out.push(Value::from_bytes(vec![]));
            out.push(Value::from_vector(vec![v.clone()]));
            // mutants of each child
            for i in 0..vs.len() {
                for m in mutants(&vs[i]) {
                    let mut c = vs.clone();
                    c[i] = m;
                    out.push(Value::from_vector(c));
                }
            }
        }
        Err(_) => {
            let b = bytes_of(v).unwrap_or_default();
            let mut longer = b.clone();
            longer.push(0);
            out.push(Value::from_bytes(longer));
            if !b.is_empty() {
                out.push(Value::from_bytes(b[..b.len() - 1].to_vec()));
            }
            out.push(Value::from_vector(vec![]));
            out.push(Value::from_vector(vec![v.clone()]));
        }
    }
    out
}

pub fn type_alphabet() -> (Vec<Type>, Vec<Type>) {
    let mut leaf: Vec<Type> = vec![];
    for st in ALL_ST.iter() {
        leaf.push(scalar_type(*st));
    }
    for st in ALL_ST.iter() {
        for shape in [vec![1u64], vec![3], vec![2, 3]] {
            leaf.push(array_type(shape, *st));
        }
    }
    for shape in [vec![7u64], vec![8], vec![9], vec![3, 5], vec![4, 8], vec![17], vec![2, 2, 2], vec![313], vec![320]] {
        leaf.push(array_type(shape, BIT));
    }
    leaf.push(array_type(vec![40], UINT8));
    leaf.push(array_type(vec![5], UINT64));
    leaf.push(array_type(vec![4, 5], INT16));
    let s = |x: &str| x.to_string();
    let cont: Vec<Type> = vec![
        tuple_type(vec![]),
        tuple_type(vec![scalar_type(UINT8)]),
        tuple_type(vec![scalar_type(UINT8), scalar_type(INT32)]),
        tuple_type(vec![array_type(vec![9], BIT), array_type(vec![3], UINT16)]),
        tuple_type(vec![tuple_type(vec![]), scalar_type(UINT8)]),
        tuple_type(vec![tuple_type(vec![scalar_type(BIT), scalar_type(BIT)]), tuple_type(vec![scalar_type(BIT)])]),
        vector_type(0, scalar_type(UINT8)),
        vector_type(1, scalar_type(UINT8)),
        vector_type(2, scalar_type(INT16)),
        vector_type(3, tuple_type(vec![scalar_type(BIT), scalar_type(UINT64)])),
        vector_type(2, vector_type(2, array_type(vec![9], BIT))),
        vector_type(2, tuple_type(vec![])),
        named_tuple_type(vec![]),
        named_tuple_type(vec![(s("a"), scalar_type(UINT8))]),
        named_tuple_type(vec![(s("a"), scalar_type(INT32)), (s("b"), array_type(vec![3], BIT))]),
        named_tuple_type(vec![(s("a"), tuple_type(vec![scalar_type(UINT8)])), (s("b"), vector_type(2, scalar_type(UINT8)))]),
    ];
    (leaf, cont)
}

fn invalid_types() -> Vec<Type> {
    let s = |x: &str| x.to_string();
    vec![
        array_type(vec![2, 0], UINT8),
        array_type(vec![], UINT8),
        array_type(vec![0], BIT),
        named_tuple_type(vec![(s("a"), scalar_type(UINT8)), (s("a"), scalar_type(UINT8))]),
        tuple_type(vec![array_type(vec![0], UINT8)]),
        vector_type(0, array_type(vec![0], UINT8)),
    ]
}

pub fn run(r: &Report, _thorough: bool) {
    let (leaf, cont) = type_alphabet();
    let mut types: Vec<Type> = leaf.clone();
    types.extend(cont.iter().cloned());
    let inval = invalid_types();
    r.extra("ctype_types", json!(types.len() + inval.len()));
    // values: byte buffers of every length 0..=40 in three fills
    let mut values: Vec<(Value, bool)> = vec![];
    for len in 0..=40usize {
        values.push((Value::from_bytes(vec![0u8; len]), false));
        values.push((Value::from_bytes(vec![0xFFu8; len]), false));
        values.push((Value::from_bytes((0..len).map(|i| (i * 37 + 11) as u8).collect()), false));
    }
    // well-formed trees of every container type and all their single-point mutants
    for (k, t) in cont.iter().enumerate() {
        let mut c = k as u8;
        let good = pattern_value(t, &mut || {
            c = c.wrapping_mul(29).wrapping_add(17);
            c
        });
        for m in mutants(&good) {
            values.push((m, true));
        }
        values.push((good, true));
    }
    values.push((Value::from_vector(vec![]), true));
    r.extra("ctype_values", json!(values.len()));
    let mut acc = Acc::default();
    for (v, fc) in values.iter() {
        for t in types.iter().chain(inval.iter()) {
            check_ctype(v, t, *fc, &mut acc);
        }
        acc.distinct.push(hash_str(&format!("ctype/{}", vtree(v))));
    }
    let two = Value::from_bytes(vec![0, 0]);
    let accepted: Vec<String> = types
        .iter()
        .filter(|t| matches!(lib(|| two.check_type((*t).clone())), Out::Ok(true)))
        .map(|t| format!("{}", t))
        .collect();
    acc.samples.push(json!({"section":"ctype","value":vtree(&two),"types_tried":types.len()+inval.len(),"accepted_by":accepted}));
    acc.merge_into(r);
}

pub fn replay(case: &J, acc: &mut Acc) -> bool {
    let t: Type = match serde_json::from_value(case["t"].clone()) {
        Ok(t) => t,
        Err(_) => return false,
    };
    let v = match vuntree(&case["v"]) {
        Some(v) => v,
        None => return false,
    };
    check_ctype(&v, &t, true, acc);
    true
}
