//! Integer model of C13: input integers, Rust input types, native-cast oracles, alphabets.
use crate::vals::{st_bits, st_mask, st_signed, ALL_ST};
use ciphercore_base::data_types::ScalarType;

/// Rust integer type an input is handed to the library in.
#[derive(Clone, Copy, PartialEq, Eq, Debug)]
pub enum XT {
    U8,
    I8,
    U16,
    I16,
    U32,
    I32,
    U64,
    I64,
    U128,
    I128,
}
pub const ALL_XT: [XT; 10] = [XT::U8, XT::I8, XT::U16, XT::I16, XT::U32, XT::I32, XT::U64, XT::I64, XT::U128, XT::I128];

impl XT {
    pub fn name(&self) -> &'static str {
        match self {
            XT::U8 => "u8",
            XT::I8 => "i8",
            XT::U16 => "u16",
            XT::I16 => "i16",
            XT::U32 => "u32",
            XT::I32 => "i32",
            XT::U64 => "u64",
            XT::I64 => "i64",
            XT::U128 => "u128",
            XT::I128 => "i128",
        }
    }
    pub fn from_name(s: &str) -> Option<XT> {
        ALL_XT.iter().copied().find(|x| x.name() == s)
    }
    pub fn signed(&self) -> bool {
        matches!(self, XT::I8 | XT::I16 | XT::I32 | XT::I64 | XT::I128)
    }
    pub fn bits(&self) -> u32 {
        match self {
            XT::U8 | XT::I8 => 8,
            XT::U16 | XT::I16 => 16,
            XT::U32 | XT::I32 => 32,
            XT::U64 | XT::I64 => 64,
            XT::U128 | XT::I128 => 128,
        }
    }
}

/// A mathematical integer in [-2^127, 2^128): `I` for everything below 2^127, `U` for the rest.
#[derive(Clone, Copy, PartialEq, Eq, Debug, PartialOrd, Ord)]
pub enum M {
    I(i128),
    U(u128),
}

impl M {
    pub fn norm(self) -> M {
        match self {
            M::U(u) if u <= i128::MAX as u128 => M::I(u as i128),
            m => m,
        }
    }
    /// two's complement image mod 2^128 (native cast)
    pub fn bits(&self) -> u128 {
        match self {
            M::I(i) => *i as u128,
            M::U(u) => *u,
        }
    }
    pub fn is_neg(&self) -> bool {
        matches!(self, M::I(i) if *i < 0)
    }
    pub fn dec(&self) -> String {
        match self {
            M::I(i) => i.to_string(),
            M::U(u) => u.to_string(),
        }
    }
    pub fn fits(&self, xt: XT) -> bool {
        match (self, xt) {
            (M::U(_), XT::U128) => true,
            (M::U(_), _) => false,
            (M::I(_), XT::I128) => true,
            (M::I(i), XT::U128) => *i >= 0,
            (M::I(i), xt) => {
                let b = xt.bits();
                if xt.signed() {
                    *i >= -(1i128 << (b - 1)) && *i < (1i128 << (b - 1))
                } else {
                    *i >= 0 && *i < (1i128 << b)
                }
            }
        }
    }
    /// does the integer lie in [-2^63, 2^64)?
    pub fn in_64(&self) -> bool {
        match self {
            M::U(_) => false,
            M::I(i) => *i >= i64::MIN as i128 && *i <= u64::MAX as i128,
        }
    }
    /// the integer denoted by `bits` read in Rust type `xt`
    pub fn of_bits(bits: u128, xt: XT) -> M {
        if xt.signed() {
            M::I(bits as i128)
        } else {
            M::U(bits).norm()
        }
    }
}

/// expands `$body` with `$x` bound to the input in its Rust type
macro_rules! c13_with_xt {
    ($xt:expr, $bits:expr, |$x:ident| $body:expr) => {
        match $xt {
            $crate::props::c13::ints::XT::U8 => {
                let $x = $bits as u8;
                $body
            }
            $crate::props::c13::ints::XT::I8 => {
                let $x = $bits as i8;
                $body
            }
            $crate::props::c13::ints::XT::U16 => {
                let $x = $bits as u16;
                $body
            }
            $crate::props::c13::ints::XT::I16 => {
                let $x = $bits as i16;
                $body
            }
            $crate::props::c13::ints::XT::U32 => {
                let $x = $bits as u32;
                $body
            }
            $crate::props::c13::ints::XT::I32 => {
                let $x = $bits as i32;
                $body
            }
            $crate::props::c13::ints::XT::U64 => {
                let $x = $bits as u64;
                $body
            }
            $crate::props::c13::ints::XT::I64 => {
                let $x = $bits as i64;
                $body
            }
            $crate::props::c13::ints::XT::U128 => {
                let $x = $bits as u128;
                $body
            }
            $crate::props::c13::ints::XT::I128 => {
                let $x = $bits as i128;
                $body
            }
        }
    };
}

/// expands `$body` with `$v: Vec<T>` holding the inputs in their Rust type
macro_rules! c13_with_xt_vec {
    ($xt:expr, $bits:expr, |$v:ident| $body:expr) => {
        match $xt {
            $crate::props::c13::ints::XT::U8 => {
                let $v: Vec<u8> = $bits.iter().map(|b| *b as u8).collect();
                $body
            }
            $crate::props::c13::ints::XT::I8 => {
                let $v: Vec<i8> = $bits.iter().map(|b| *b as i8).collect();
                $body
            }
            $crate::props::c13::ints::XT::U16 => {
                let $v: Vec<u16> = $bits.iter().map(|b| *b as u16).collect();
                $body
            }
            $crate::props::c13::ints::XT::I16 => {
                let $v: Vec<i16> = $bits.iter().map(|b| *b as i16).collect();
                $body
            }
            $crate::props::c13::ints::XT::U32 => {
                let $v: Vec<u32> = $bits.iter().map(|b| *b as u32).collect();
                $body
            }
            $crate::props::c13::ints::XT::I32 => {
                let $v: Vec<i32> = $bits.iter().map(|b| *b as i32).collect();
                $body
            }
            $crate::props::c13::ints::XT::U64 => {
                let $v: Vec<u64> = $bits.iter().map(|b| *b as u64).collect();
                $body
            }
            $crate::props::c13::ints::XT::I64 => {
                let $v: Vec<i64> = $bits.iter().map(|b| *b as i64).collect();
                $body
            }
            $crate::props::c13::ints::XT::U128 => {
                let $v: Vec<u128> = $bits.iter().map(|b| *b as u128).collect();
                $body
            }
            $crate::props::c13::ints::XT::I128 => {
                let $v: Vec<i128> = $bits.iter().map(|b| *b as i128).collect();
                $body
            }
        }
    };
}

pub fn st_name(st: &ScalarType) -> &'static str {
    match st {
        ScalarType::Bit => "bit",
        ScalarType::U8 => "u8",
        ScalarType::I8 => "i8",
        ScalarType::U16 => "u16",
        ScalarType::I16 => "i16",
        ScalarType::U32 => "u32",
        ScalarType::I32 => "i32",
        ScalarType::U64 => "u64",
        ScalarType::I64 => "i64",
        ScalarType::U128 => "u128",
        ScalarType::I128 => "i128",
    }
}
pub fn st_from_name(s: &str) -> Option<ScalarType> {
    ALL_ST.iter().copied().find(|x| st_name(x) == s)
}
/// number of bytes a scalar of this type occupies
pub fn st_bytes(st: &ScalarType) -> usize {
    if *st == ScalarType::Bit {
        1
    } else {
        (st_bits(st) / 8) as usize
    }
}

/// The element of type `st` with residue `r` (low w bits), widened to 128 bits the way Rust's `as`
/// widens the native type: sign extension for signed types, zero extension otherwise.
pub fn widen(r: u128, st: &ScalarType) -> u128 {
    match st {
        ScalarType::Bit => r & 1,
        ScalarType::U8 => r as u8 as u128,
        ScalarType::I8 => r as u8 as i8 as u128,
        ScalarType::U16 => r as u16 as u128,
        ScalarType::I16 => r as u16 as i16 as u128,
        ScalarType::U32 => r as u32 as u128,
        ScalarType::I32 => r as u32 as i32 as u128,
        ScalarType::U64 => r as u64 as u128,
        ScalarType::I64 => r as u64 as i64 as u128,
        ScalarType::U128 => r,
        ScalarType::I128 => r as i128 as u128,
    }
}
/// decimal rendering of the element of type `st` with residue `r`
pub fn dec(r: u128, st: &ScalarType) -> String {
    let w = widen(r, st);
    if st_signed(st) {
        (w as i128).to_string()
    } else {
        w.to_string()
    }
}
pub fn is_negative(r: u128, st: &ScalarType) -> bool {
    st_signed(st) && (widen(r, st) as i128) < 0
}

/// {0, +-1, +-2^k, +-2^k+-1 : k <= 128} + min/max of every width, restricted to [-2^127, 2^128), sorted by
/// magnitude (simplest first), negatives after their positive twin.
pub fn boundary_alphabet() -> Vec<M> {
    let mut out: Vec<M> = vec![];
    let mut push = |neg: bool, mag: Option<u128>| {
        if let Some(mag) = mag {
            let m = if neg {
                if mag > (1u128 << 127) {
                    return;
                }
                if mag == 0 {
                    return;
                }
                M::I((mag as i128).wrapping_neg())
            } else {
                M::U(mag).norm()
            };
            if !out.contains(&m) {
                out.push(m);
            }
        }
    };
    push(false, Some(0));
    for k in 0..=128u32 {
        let p: Option<u128> = if k == 128 { None } else { Some(1u128 << k) };
        // 2^k - 1, 2^k, 2^k + 1 (2^128 - 1 is the only representable member for k = 128)
        let cands: [Option<u128>; 3] = match p {
            Some(p) => [Some(p - 1), Some(p), p.checked_add(1)],
            None => [Some(u128::MAX), None, None],
        };
        for c in cands.iter() {
            push(false, *c);
            push(true, *c);
        }
    }
    // min/max of every width are of the form +-2^k, 2^k - 1: already present. Assert it.
    for (lo, hi) in [
        (M::I(i8::MIN as i128), M::I(i8::MAX as i128)),
        (M::I(i16::MIN as i128), M::I(i16::MAX as i128)),
        (M::I(i32::MIN as i128), M::I(i32::MAX as i128)),
        (M::I(i64::MIN as i128), M::I(i64::MAX as i128)),
        (M::I(i128::MIN), M::I(i128::MAX)),
        (M::I(0), M::I(u8::MAX as i128)),
        (M::I(0), M::I(u16::MAX as i128)),
        (M::I(0), M::I(u32::MAX as i128)),
        (M::I(0), M::I(u64::MAX as i128)),
        (M::I(0), M::U(u128::MAX)),
    ] {
        assert!(out.contains(&lo) && out.contains(&hi), "boundary alphabet misses a min/max");
    }
    out
}

/// residues (mod 2^w) used as element values in the JSON / array sweeps
pub fn value_alphabet(st: &ScalarType) -> Vec<u128> {
    if *st == ScalarType::Bit {
        return vec![0, 1];
    }
    let w = st_bits(st);
    let m = st_mask(st);
    let half = 1u128 << (w - 1);
    let mut v: Vec<u128> = vec![
        0,
        1,
        m,        // -1 / max unsigned
        half,     // min signed / 2^(w-1)
        half - 1, // max signed
        2,
        m - 1,    // -2
        half + 1, // min signed + 1
        1u128 << (w / 2),
        (1u128 << (w / 2)) - 1,
        100 & m,
        m - 99, // -100
    ];
    if w == 128 {
        v.extend_from_slice(&[
            1u128 << 64,
            (1u128 << 64) - 1,
            (1u128 << 64) + 1,
            1u128 << 63,
            m - (1u128 << 63) + 1, // -2^63
            m - (1u128 << 64) + 1, // -2^64
            m - (1u128 << 64),     // -2^64 - 1
            (1u128 << 127) - (1u128 << 64),
            123456789012345678901234567890123456789u128,
            m - 123456789012345678901234567890123456789u128 + 1,
        ]);
    }
    if w == 64 {
        v.extend_from_slice(&[1u128 << 53, (1u128 << 53) + 1, m - (1u128 << 53), 1u128 << 32, (1u128 << 31) - 1]);
    }
    let mut out = vec![];
    for x in v {
        let x = x & m;
        if !out.contains(&x) {
            out.push(x);
        }
    }
    out
}

pub fn parse_u128(j: &serde_json::Value) -> Option<u128> {
    match j {
        serde_json::Value::String(s) => s.parse::<u128>().ok(),
        serde_json::Value::Number(n) => n.to_string().parse::<u128>().ok(),
        _ => None,
    }
}
