//! Sections scalar / flat (incl. ndarray) / bits of C13.
use super::ints::*;
use super::{jerr, Acc};
use crate::common::{catch, hash_str, stable_msg, Report};
use crate::vals::{decode, encode, st_bits, st_mask, ALL_ST};
use ciphercore_base::data_types::{
    array_type, scalar_type, ScalarType, Type, BIT, INT128, INT16, INT32, INT64, INT8, UINT128, UINT16, UINT32, UINT64, UINT8,
};
use ciphercore_base::data_values::{ToNdarray, Value};
use ciphercore_base::typed_value::TypedValue;
use ciphercore_base::typed_value_operations::{
    ToNdarray as TvToNdarray, TypedValueArrayOperations, TypedValueOperations,
};
use rayon::prelude::*;
use serde_json::{json, Value as J};

/// outcome of one library call
pub enum Out<T> {
    Ok(T),
    Err(String),
    Panic(String),
}
pub fn lib<T, E: std::fmt::Display>(f: impl FnOnce() -> std::result::Result<T, E>) -> Out<T> {
    match catch(f) {
        Ok(Ok(v)) => Out::Ok(v),
        Ok(Err(e)) => Out::Err(stable_msg(&e.to_string())),
        Err(p) => Out::Panic(stable_msg(&p)),
    }
}
impl<T> Out<T> {
    pub fn kind(&self) -> &'static str {
        match self {
            Out::Ok(_) => "ok",
            Out::Err(_) => "error",
            Out::Panic(_) => "panic",
        }
    }
    pub fn msg(&self) -> String {
        match self {
            Out::Ok(_) => "Ok".into(),
            Out::Err(e) => format!("Err({})", e),
            Out::Panic(e) => format!("PANIC({})", e),
        }
    }
}

pub fn bytes_of(v: &Value) -> Option<Vec<u8>> {
    v.access(|b| Ok(Some(b.to_vec())), |_| Ok(None)).ok().flatten()
}

fn hex(b: &[u8]) -> String {
    if b.len() > 48 {
        format!("{}..({} bytes)", b[..48].iter().map(|x| format!("{:02x}", x)).collect::<String>(), b.len())
    } else {
        b.iter().map(|x| format!("{:02x}", x)).collect::<String>()
    }
}

fn scalar_bytes(r: u128, st: &ScalarType) -> Vec<u8> {
    if *st == BIT {
        vec![(r & 1) as u8]
    } else {
        r.to_le_bytes()[..st_bytes(st)].to_vec()
    }
}

/// compares a constructor outcome with the expected bytes (None = must be rejected)
fn judge_ctor(
    op: &str,
    stn: &str,
    out: &Out<Value>,
    exp: &Option<Vec<u8>>,
    may_reject: bool,
    acc: &mut Acc,
    case: &dyn Fn() -> J,
) {
    match (out, exp) {
        (Out::Panic(p), _) => acc.fail(format!("C13:{}:{}:panic", op, stn), format!("{} panics: {}", op, p), case),
        (Out::Ok(v), Some(e)) => match bytes_of(v) {
            Some(b) if &b == e => {}
            Some(b) => {
                let kind = if b.len() != e.len() { "wrong-length" } else { "wrong-bytes" };
                // one defect, one signature: the u64 constructor emits 8 bytes per element for both 128-bit types
                let stn = if op == "from_flattened_array_u64" && (stn == "u128" || stn == "i128") && kind == "wrong-length" {
                    "128-bit-types"
                } else {
                    stn
                };
                acc.fail(
                    format!("C13:{}:{}:{}", op, stn, kind),
                    format!("{} for {}: expected bytes {} observed {}", op, stn, hex(e), hex(&b)),
                    case,
                )
            }
            None => acc.fail(format!("C13:{}:{}:not-bytes", op, stn), format!("{} returned a vector value", op), case),
        },
        (Out::Ok(v), None) => acc.fail(
            format!("C13:{}:{}:accepts-invalid-input", op, stn),
            format!("{} for {}: expected an error, observed Ok with bytes {:?}", op, stn, bytes_of(v).map(|b| hex(&b))),
            case,
        ),
        (Out::Err(_), None) => {}
        (Out::Err(e), Some(x)) => {
            if !may_reject {
                acc.fail(
                    format!("C13:{}:{}:unexpected-error", op, stn),
                    format!("{} for {}: expected bytes {} observed Err({})", op, stn, hex(x), e),
                    case,
                )
            }
        }
    }
}

// ------------------------------------------------------------------------------------------------
// scalar section
// ------------------------------------------------------------------------------------------------

/// one constructor case: integer `bits` (two's complement image) handed over in Rust type `xt`
pub fn check_scalar(st: ScalarType, bits: u128, xt: XT, typed: bool, acc: &mut Acc) {
    let m = M::of_bits(bits, xt);
    let stn = st_name(&st);
    let case = || jerr("scalar", json!({"st": stn, "bits": bits.to_string(), "xt": xt.name(), "integer": m.dec()}));
    acc.c("evaluations", 1);
    acc.c("scalar_cases", 1);
    let r = bits & st_mask(&st);
    let exp: Option<Vec<u8>> = if st == BIT {
        if bits <= 1 {
            Some(vec![bits as u8])
        } else {
            acc.c("scalar_bit_rejects", 1);
            None
        }
    } else {
        if widen(r, &st) != bits {
            acc.c("scalar_reduced_mod_2w", 1);
        }
        Some(scalar_bytes(r, &st))
    };
    let out = lib(|| c13_with_xt!(xt, bits, |x| Value::from_scalar(x, st)));
    judge_ctor("from_scalar", stn, &out, &exp, false, acc, &case);
    if typed {
        let out = lib(|| c13_with_xt!(xt, bits, |x| TypedValue::from_scalar(x, st)));
        let out2 = match out {
            Out::Ok(tv) => {
                if tv.t != scalar_type(st) || tv.name.is_some() {
                    acc.fail(
                        format!("C13:TypedValue::from_scalar:{}:wrong-type", stn),
                        format!("TypedValue::from_scalar type {:?} name {:?}", tv.t, tv.name),
                        &case,
                    );
                }
                Out::Ok(tv.value)
            }
            Out::Err(e) => Out::Err(e),
            Out::Panic(e) => Out::Panic(e),
        };
        judge_ctor("TypedValue::from_scalar", stn, &out2, &exp, false, acc, &case);
    }
}

/// the ten scalar getters (+ to_bit, TypedValue::to_u64/to_u128) on the oracle-built value of residue r
pub fn check_getters(st: ScalarType, r: u128, wide: bool, acc: &mut Acc) {
    let stn = st_name(&st);
    let r = r & st_mask(&st);
    let case = || jerr("scalar", json!({"st": stn, "bits": r.to_string(), "xt": "u128", "integer": r.to_string(), "getters": true, "wide": wide}));
    acc.c("evaluations", 1);
    let bytes = scalar_bytes(r, &st);
    let nb = bytes.len();
    let v = Value::from_bytes(bytes);
    for st_read in ALL_ST.iter() {
        let same = st_bytes(st_read) == nb;
        if !same && !wide {
            continue;
        }
        let rn = st_name(st_read);
        let e = widen(r, st_read);
        if same && is_negative(r, st_read) {
            acc.c("scalar_sign_extended_reads", 1);
        }
        macro_rules! g {
            ($f:ident, $X:ty) => {{
                acc.c("scalar_getter_checks", 1);
                let out = lib(|| v.$f(*st_read));
                match &out {
                    Out::Panic(p) => acc.fail(
                        format!("C13:{}:{}:panic", stringify!($f), rn),
                        format!("{}({}) panics: {}", stringify!($f), rn, p),
                        &case,
                    ),
                    Out::Ok(x) => {
                        if !same {
                            acc.fail(
                                format!("C13:{}:{}:accepts-wrong-size", stringify!($f), rn),
                                format!("{}({}) on a {}-byte value returned {} instead of an error", stringify!($f), rn, nb, x),
                                &case,
                            )
                        } else if *x != (e as $X) {
                            acc.fail(
                                format!("C13:{}:{}:wrong-value", stringify!($f), rn),
                                format!("{}({}) on bytes of residue {}: expected {} observed {}", stringify!($f), rn, r, e as $X, x),
                                &case,
                            )
                        }
                    }
                    Out::Err(m) => {
                        if same {
                            acc.fail(
                                format!("C13:{}:{}:unexpected-error", stringify!($f), rn),
                                format!("{}({}) expected {} observed Err({})", stringify!($f), rn, e as $X, m),
                                &case,
                            )
                        } else {
                            acc.c("scalar_wrong_size_rejects", 1);
                        }
                    }
                }
            }};
        }
        g!(to_u8, u8);
        g!(to_i8, i8);
        g!(to_u16, u16);
        g!(to_i16, i16);
        g!(to_u32, u32);
        g!(to_i32, i32);
        g!(to_u64, u64);
        g!(to_i64, i64);
        g!(to_u128, u128);
        g!(to_i128, i128);
    }
    // to_bit: lowest bit of a one-byte value
    let out = lib(|| v.to_bit());
    match &out {
        Out::Panic(p) => acc.fail("C13:to_bit:panic".into(), format!("to_bit panics: {}", p), &case),
        Out::Ok(b) => {
            if nb == 1 && *b != (r & 1 == 1) {
                acc.fail("C13:to_bit:wrong-value".into(), format!("to_bit expected {} observed {}", r & 1 == 1, b), &case)
            } else if nb != 1 {
                acc.fail(
                    "C13:to_bit:accepts-wrong-size".into(),
                    format!("to_bit on a {}-byte value returned {} instead of an error", nb, b),
                    &case,
                )
            }
        }
        Out::Err(m) => {
            if nb == 1 {
                acc.fail("C13:to_bit:unexpected-error".into(), format!("to_bit on one byte: Err({})", m), &case)
            }
        }
    }
    // TypedValue level
    match lib(|| TypedValue::new(scalar_type(st), v.clone())) {
        Out::Ok(tv) => {
            let e = widen(r, &st);
            let o = lib(|| tv.to_u64());
            if !matches!(o, Out::Ok(x) if x == e as u64) {
                acc.fail(
                    format!("C13:TypedValue::to_u64:{}:wrong-value", stn),
                    format!("TypedValue::to_u64 expected {} observed {}", e as u64, o.msg()),
                    &case,
                );
            }
            let o = lib(|| tv.to_u128());
            if !matches!(o, Out::Ok(x) if x == e) {
                acc.fail(
                    format!("C13:TypedValue::to_u128:{}:wrong-value", stn),
                    format!("TypedValue::to_u128 expected {} observed {}", e, o.msg()),
                    &case,
                );
            }
        }
        o => acc.fail(
            format!("C13:TypedValue::new:{}:rejects-valid-scalar", stn),
            format!("TypedValue::new(scalar) {}", o.msg()),
            &case,
        ),
    }
}

pub fn run_scalar(r: &Report, _thorough: bool) {
    // (a) 8- and 16-bit types: every integer of [-2^w, 2^(w+1)] through every Rust type it fits in
    for st in [UINT8, INT8, UINT16, INT16] {
        let w = st_bits(&st) as i128;
        let lo = -(1i128 << w);
        let hi = 1i128 << (w + 1);
        let all: Vec<i128> = (lo..=hi).collect();
        let parts: Vec<Acc> = all
            .par_chunks(4096)
            .map(|chunk| {
                let mut acc = Acc::default();
                for x in chunk {
                    let m = M::I(*x);
                    let bits = m.bits();
                    for xt in ALL_XT.iter() {
                        if m.fits(*xt) {
                            check_scalar(st, bits, *xt, *xt == XT::I128, &mut acc);
                        }
                    }
                    if *x != 0 {
                        acc.distinct.push(hash_str(&format!("scalar/{}/{}", st_name(&st), x)));
                    }
                    // getters once per residue (the residues of [0, 2^w) cover all of them)
                    if *x >= 0 && *x < (1i128 << w) {
                        check_getters(st, bits, false, &mut acc);
                    }
                }
                acc
            })
            .collect();
        for a in parts {
            a.merge_into(r);
        }
    }
    // (b) all types on the boundary alphabet
    let alpha = boundary_alphabet();
    r.extra("boundary_alphabet_size", json!(alpha.len()));
    let mut acc = Acc::default();
    for st in ALL_ST.iter() {
        for m in alpha.iter() {
            for xt in ALL_XT.iter() {
                if m.fits(*xt) {
                    check_scalar(*st, m.bits(), *xt, true, &mut acc);
                }
            }
            if m.bits() != 0 {
                acc.distinct.push(hash_str(&format!("scalar/{}/{}", st_name(st), m.dec())));
            }
            check_getters(*st, m.bits(), true, &mut acc);
            if acc.samples.len() < 2 && m.is_neg() && *st == INT16 {
                acc.samples.push(json!({"section":"scalar","st":st_name(st),"integer":m.dec(),"bytes":hex(&scalar_bytes(m.bits() & st_mask(st), st))}));
            }
        }
    }
    acc.merge_into(r);
}

pub fn replay_scalar(case: &J, acc: &mut Acc) -> bool {
    let st = match case["st"].as_str().and_then(st_from_name) {
        Some(s) => s,
        None => return false,
    };
    let bits = match parse_u128(&case["bits"]) {
        Some(b) => b,
        None => return false,
    };
    let xt = match case["xt"].as_str().and_then(XT::from_name) {
        Some(x) => x,
        None => return false,
    };
    if case["getters"].as_bool() == Some(true) {
        check_getters(st, bits, true, acc);
    } else {
        check_scalar(st, bits, xt, true, acc);
    }
    true
}

// ------------------------------------------------------------------------------------------------
// flat arrays and ndarrays
// ------------------------------------------------------------------------------------------------

#[derive(Clone, Copy, PartialEq, Eq, Debug)]
pub enum Ctor {
    Arr,
    ArrU64,
    Nd,
}
impl Ctor {
    fn name(&self) -> &'static str {
        match self {
            Ctor::Arr => "from_flattened_array",
            Ctor::ArrU64 => "from_flattened_array_u64",
            Ctor::Nd => "from_ndarray",
        }
    }
    fn from_name(s: &str) -> Option<Ctor> {
        [Ctor::Arr, Ctor::ArrU64, Ctor::Nd].into_iter().find(|c| c.name() == s)
    }
}

fn zero_st_of(xt: XT) -> ScalarType {
    match xt {
        XT::U8 => UINT8,
        XT::I8 => INT8,
        XT::U16 => UINT16,
        XT::I16 => INT16,
        XT::U32 => UINT32,
        XT::I32 => INT32,
        XT::U64 => UINT64,
        XT::I64 => INT64,
        XT::U128 => UINT128,
        XT::I128 => INT128,
    }
}

fn prod(shape: &[u64]) -> usize {
    shape.iter().product::<u64>() as usize
}

/// Builds an `ndarray::ArrayD<$T>` of the given shape holding `$xs` in logical (row-major) order, without naming
/// the ndarray crate: a zero value is converted by the library and every element is overwritten.
/// Evaluates to Result<ArrayD<$T>, String>.
macro_rules! mk_nd {
    ($T:ty, $zst:expr, $shape:expr, $xs:expr) => {{
        let tz = array_type($shape.to_vec(), $zst);
        match catch(|| ToNdarray::<$T>::to_ndarray(&Value::zero_of_type(tz.clone()), tz.clone())) {
            Ok(Ok(mut a)) => {
                let want: Vec<usize> = $shape.iter().map(|d| *d as usize).collect();
                if a.shape().to_vec() != want {
                    Err(format!("to_ndarray of a zero value has shape {:?}, expected {:?}", a.shape(), want))
                } else {
                    let mut k = 0usize;
                    for slot in a.iter_mut() {
                        *slot = $xs[k];
                        k += 1;
                    }
                    if k != $xs.len() || !a.iter().zip($xs.iter()).all(|(p, q)| p == q) {
                        Err(format!("to_ndarray of a zero value has {} elements, expected {}", k, $xs.len()))
                    } else {
                        Ok(a)
                    }
                }
            }
            Ok(Err(e)) => Err(format!("to_ndarray of a zero value fails: {}", e)),
            Err(p) => Err(format!("to_ndarray of a zero value panics: {}", p)),
        }
    }};
}

/// one constructor case on an array
pub fn check_flat(ctor: Ctor, st: ScalarType, shape: &[u64], bits: &[u128], xt: XT, acc: &mut Acc) {
    let stn = st_name(&st);
    let n = prod(shape);
    assert_eq!(n, bits.len());
    let case = || {
        jerr(
            "flat",
            json!({"ctor": ctor.name(), "st": stn, "shape": shape, "xt": xt.name(),
                   "bits": bits.iter().map(|b| b.to_string()).collect::<Vec<_>>(),
                   "integers": bits.iter().map(|b| M::of_bits(*b, xt).dec()).collect::<Vec<_>>()}),
        )
    };
    acc.c("evaluations", 1);
    acc.c("flat_cases", 1);
    let mask = st_mask(&st);
    let res: Vec<u128> = bits.iter().map(|b| b & mask).collect();
    let exp: Option<Vec<u8>> = if st == BIT {
        if bits.iter().all(|b| *b <= 1) {
            Some(encode(&res, &st))
        } else {
            acc.c("flat_bit_rejects", 1);
            None
        }
    } else {
        Some(encode(&res, &st))
    };
    match ctor {
        Ctor::Arr => {
            let out = lib(|| c13_with_xt_vec!(xt, bits, |v| Value::from_flattened_array(&v, st)));
            judge_ctor(ctor.name(), stn, &out, &exp, false, acc, &case);
        }
        Ctor::ArrU64 => {
            let may_reject = !bits.iter().all(|b| M::of_bits(*b, xt).in_64());
            let out = lib(|| c13_with_xt_vec!(xt, bits, |v| Value::from_flattened_array_u64(&v, st)));
            if may_reject && matches!(out, Out::Err(_)) {
                acc.c("flat_u64_out_of_range_rejects", 1);
            }
            judge_ctor(ctor.name(), stn, &out, &exp, may_reject, acc, &case);
        }
        Ctor::Nd => {
            macro_rules! nd_case {
                ($T:ty) => {{
                    let xs: Vec<$T> = bits.iter().map(|b| *b as $T).collect();
                    match mk_nd!($T, zero_st_of(xt), shape, xs) {
                        Err(e) => acc.fail("C13:to_ndarray:zero-value:failed".into(), e, &case),
                        Ok(a) => {
                            let a2 = a.clone();
                            let a3 = a.clone();
                            let out = lib(|| Value::from_ndarray(a, st));
                            judge_ctor(ctor.name(), stn, &out, &exp, false, acc, &case);
                            acc.c("ndarray_roundtrips", 1);
                            // TypedValue level: the type is derived from the ndarray's shape
                            let out = lib(|| <TypedValue as TypedValueArrayOperations<TypedValue>>::from_ndarray(a2, st));
                            let out2 = match out {
                                Out::Ok(tv) => {
                                    if tv.t != array_type(shape.to_vec(), st) {
                                        acc.fail(
                                            format!("C13:TypedValue::from_ndarray:{}:wrong-type", stn),
                                            format!("TypedValue::from_ndarray type {:?}, expected {:?}", tv.t, array_type(shape.to_vec(), st)),
                                            &case,
                                        );
                                    }
                                    Out::Ok(tv.value)
                                }
                                Out::Err(e) => Out::Err(e),
                                Out::Panic(e) => Out::Panic(e),
                            };
                            judge_ctor("TypedValue::from_ndarray", stn, &out2, &exp, false, acc, &case);
                            // a non-contiguous view of the same data: either rejected or read in logical order
                            if shape.iter().filter(|d| **d > 1).count() >= 2 {
                                let ra = a3.reversed_axes();
                                let logical: Vec<u128> = ra.iter().map(|x| (*x as u128) & mask).collect();
                                let exp_rev = if exp.is_some() { Some(encode(&logical, &st)) } else { None };
                                let out = lib(|| Value::from_ndarray(ra, st));
                                acc.c("ndarray_noncontiguous", 1);
                                if matches!(out, Out::Err(_)) {
                                    acc.c("ndarray_noncontiguous_rejected", 1);
                                }
                                judge_ctor("from_ndarray(non-contiguous)", stn, &out, &exp_rev, true, acc, &case);
                            }
                        }
                    }
                }};
            }
            match xt {
                XT::U8 => nd_case!(u8),
                XT::I8 => nd_case!(i8),
                XT::U16 => nd_case!(u16),
                XT::I16 => nd_case!(i16),
                XT::U32 => nd_case!(u32),
                XT::I32 => nd_case!(i32),
                XT::U64 => nd_case!(u64),
                XT::I64 => nd_case!(i64),
                XT::U128 => nd_case!(u128),
                XT::I128 => nd_case!(i128),
            }
        }
    }
}

/// bool ndarrays (documented input form for BIT arrays): every scalar type must store 0/1
pub fn check_nd_bool(st: ScalarType, shape: &[u64], pattern: &[u8], acc: &mut Acc) {
    let stn = st_name(&st);
    let case = || jerr("flat", json!({"ctor": "from_ndarray", "st": stn, "shape": shape, "xt": "bool", "bits": pattern.iter().map(|b| b.to_string()).collect::<Vec<_>>()}));
    acc.c("evaluations", 1);
    acc.c("flat_cases", 1);
    let xs: Vec<bool> = pattern.iter().map(|b| *b != 0).collect();
    let res: Vec<u128> = pattern.iter().map(|b| (*b != 0) as u128).collect();
    let exp = Some(encode(&res, &st));
    match mk_nd!(bool, BIT, shape, xs) {
        Err(e) => acc.fail("C13:to_ndarray:zero-value:failed".into(), e, &case),
        Ok(a) => {
            let out = lib(|| Value::from_ndarray(a, st));
            judge_ctor("from_ndarray(bool)", stn, &out, &exp, false, acc, &case);
            acc.c("ndarray_roundtrips", 1);
        }
    }
}

/// all readers on the oracle-built array value
pub fn check_flat_getters(st: ScalarType, shape: &[u64], residues: &[u128], wide: bool, acc: &mut Acc) {
    let stn = st_name(&st);
    let n = prod(shape);
    assert_eq!(n, residues.len());
    let case = || {
        jerr(
            "flat",
            json!({"getters": true, "wide": wide, "st": stn, "shape": shape, "xt": "u128",
                   "bits": residues.iter().map(|b| b.to_string()).collect::<Vec<_>>()}),
        )
    };
    acc.c("evaluations", 1);
    let mask = st_mask(&st);
    let res: Vec<u128> = residues.iter().map(|b| b & mask).collect();
    let bytes = encode(&res, &st);
    let v = Value::from_bytes(bytes.clone());
    let t = array_type(shape.to_vec(), st);
    let wid: Vec<u128> = res.iter().map(|x| widen(*x, &st)).collect();
    let ushape: Vec<usize> = shape.iter().map(|d| *d as usize).collect();
    let tv = match lib(|| TypedValue::new(t.clone(), v.clone())) {
        Out::Ok(tv) => Some(tv),
        o => {
            acc.fail(
                format!("C13:TypedValue::new:{}:rejects-valid-array", stn),
                format!("TypedValue::new({:?}) on a {}-byte value: {}", t, bytes.len(), o.msg()),
                &case,
            );
            None
        }
    };
    macro_rules! g {
        ($f:ident, $X:ty) => {{
            acc.c("flat_getter_checks", 1);
            let expv: Vec<$X> = wid.iter().map(|x| *x as $X).collect();
            match lib(|| v.$f(t.clone())) {
                Out::Ok(o) if o == expv => {}
                Out::Ok(o) => {
                    let kind = if o.len() != expv.len() { "wrong-length" } else { "wrong-value" };
                    let i = o.iter().zip(expv.iter()).position(|(a, b)| a != b).unwrap_or(0);
                    acc.fail(
                        format!("C13:{}:{}:{}", stringify!($f), stn, kind),
                        format!(
                            "{} on {}{:?}: {} elements (expected {}); first difference at {}: expected {:?} observed {:?}",
                            stringify!($f), stn, shape, o.len(), expv.len(), i, expv.get(i), o.get(i)
                        ),
                        &case,
                    )
                }
                o => acc.fail(
                    format!("C13:{}:{}:{}", stringify!($f), stn, o.kind()),
                    format!("{} on {}{:?}: {}", stringify!($f), stn, shape, o.msg()),
                    &case,
                ),
            }
            // ndarray form: same elements in logical order, the type's shape
            acc.c("flat_getter_checks", 1);
            match lib(|| ToNdarray::<$X>::to_ndarray(&v, t.clone())) {
                Out::Ok(a) => {
                    let got: Vec<$X> = a.iter().cloned().collect();
                    if a.shape().to_vec() != ushape || got != expv {
                        acc.fail(
                            format!("C13:to_ndarray<{}>:{}:wrong-value", stringify!($X), stn),
                            format!(
                                "to_ndarray::<{}> on {}{:?}: shape {:?}, elements {:?}; expected {:?}",
                                stringify!($X), stn, shape, a.shape(), &got[..got.len().min(8)], &expv[..expv.len().min(8)]
                            ),
                            &case,
                        )
                    }
                }
                o => acc.fail(
                    format!("C13:to_ndarray<{}>:{}:{}", stringify!($X), stn, o.kind()),
                    format!("to_ndarray::<{}> on {}{:?}: {}", stringify!($X), stn, shape, o.msg()),
                    &case,
                ),
            }
            if let Some(tv) = &tv {
                match lib(|| TvToNdarray::<$X>::to_ndarray(tv)) {
                    Out::Ok(a) => {
                        let got: Vec<$X> = a.iter().cloned().collect();
                        if a.shape().to_vec() != ushape || got != expv {
                            acc.fail(
                                format!("C13:TypedValue::to_ndarray<{}>:{}:wrong-value", stringify!($X), stn),
                                format!("TypedValue::to_ndarray::<{}> on {}{:?}: shape {:?}", stringify!($X), stn, shape, a.shape()),
                                &case,
                            )
                        }
                    }
                    o => acc.fail(
                        format!("C13:TypedValue::to_ndarray<{}>:{}:{}", stringify!($X), stn, o.kind()),
                        format!("TypedValue::to_ndarray::<{}> on {}{:?}: {}", stringify!($X), stn, shape, o.msg()),
                        &case,
                    ),
                }
            }
        }};
    }
    g!(to_flattened_array_u8, u8);
    g!(to_flattened_array_i8, i8);
    g!(to_flattened_array_u16, u16);
    g!(to_flattened_array_i16, i16);
    g!(to_flattened_array_u32, u32);
    g!(to_flattened_array_i32, i32);
    g!(to_flattened_array_u64, u64);
    g!(to_flattened_array_i64, i64);
    g!(to_flattened_array_u128, u128);
    g!(to_flattened_array_i128, i128);
    if st == BIT {
        let expv: Vec<bool> = res.iter().map(|x| *x == 1).collect();
        match lib(|| ToNdarray::<bool>::to_ndarray(&v, t.clone())) {
            Out::Ok(a) => {
                let got: Vec<bool> = a.iter().cloned().collect();
                if a.shape().to_vec() != ushape || got != expv {
                    acc.fail(
                        "C13:to_ndarray<bool>:bit:wrong-value".into(),
                        format!("to_ndarray::<bool> on bit{:?}: shape {:?} elements {:?}, expected {:?}", shape, a.shape(), got, expv),
                        &case,
                    )
                }
            }
            o => acc.fail(
                format!("C13:to_ndarray<bool>:bit:{}", o.kind()),
                format!("to_ndarray::<bool> on bit{:?}: {}", shape, o.msg()),
                &case,
            ),
        }
    }
    if !wide {
        return;
    }
    // same bytes read under every other array type of the same byte length: little-endian reinterpretation
    let l = bytes.len();
    for st2 in ALL_ST.iter() {
        if *st2 == st {
            continue;
        }
        let (n2, ok) = if *st2 == BIT { (l * 8, true) } else { (l / st_bytes(st2), l % st_bytes(st2) == 0 && l > 0) };
        if !ok {
            continue;
        }
        let t2 = array_type(vec![n2 as u64], *st2);
        let e2: Vec<u128> = decode(&bytes, st2, n2).unwrap().iter().map(|x| widen(*x, st2)).collect();
        acc.c("flat_reinterpretations", 1);
        match lib(|| v.to_flattened_array_u128(t2.clone())) {
            Out::Ok(o) if o == e2 => {}
            o => acc.fail(
                format!("C13:to_flattened_array_u128:{}:reinterpretation", st_name(st2)),
                format!(
                    "bytes {} read as {}[{}]: expected {:?} observed {}",
                    hex(&bytes), st_name(st2), n2, &e2[..e2.len().min(6)],
                    match &o { Out::Ok(x) => format!("{:?}", &x[..x.len().min(6)]), o => o.msg() }
                ),
                &case,
            ),
        }
        let e2i: Vec<i64> = e2.iter().map(|x| *x as i64).collect();
        match lib(|| v.to_flattened_array_i64(t2.clone())) {
            Out::Ok(o) if o == e2i => {}
            o => acc.fail(
                format!("C13:to_flattened_array_i64:{}:reinterpretation", st_name(st2)),
                format!("bytes {} read as {}[{}] through i64: {}", hex(&bytes), st_name(st2), n2, o.msg()),
                &case,
            ),
        }
    }
    // wrong types must be refused: one element more, one element fewer, a scalar type for a multi-element value
    let mut wrong: Vec<Type> = vec![array_type(vec![n as u64 + if st == BIT { 8 } else { 1 }], st)];
    if n > 1 && st != BIT {
        wrong.push(array_type(vec![n as u64 - 1], st));
    }
    if st == BIT && n > 8 {
        wrong.push(array_type(vec![n as u64 - 8], st));
    }
    if bytes.len() != st_bytes(&st) {
        wrong.push(scalar_type(st));
    }
    for t2 in wrong {
        acc.c("flat_wrong_type_checks", 1);
        match lib(|| v.to_flattened_array_u128(t2.clone())) {
            Out::Err(_) => {}
            o => acc.fail(
                format!("C13:to_flattened_array_u128:{}:accepts-wrong-type", stn),
                format!("{}-byte value read as {:?}: {} (expected an error)", bytes.len(), t2, o.msg()),
                &case,
            ),
        }
    }
}

fn shapes_for(n: usize) -> Vec<Vec<u64>> {
    let mut v = vec![vec![n as u64]];
    if n % 2 == 0 && n >= 4 {
        v.push(vec![2, (n / 2) as u64]);
    }
    if n % 4 == 0 && n >= 8 {
        v.push(vec![(n / 4) as u64, 2, 2]);
    }
    v
}

pub fn run_flat(r: &Report, thorough: bool) {
    let alpha = boundary_alphabet();
    let mut acc = Acc::default();
    // (a) constructors: every (ctor, st, Rust input type) on all alphabet members the input type can hold
    for ctor in [Ctor::Arr, Ctor::ArrU64] {
        for st in ALL_ST.iter() {
            for xt in ALL_XT.iter() {
                let mut bits: Vec<u128> = alpha.iter().filter(|m| m.fits(*xt)).map(|m| m.bits()).collect();
                // simplest case first
                check_flat(ctor, *st, &[1], &[1], *xt, &mut acc);
                if *st == BIT {
                    // a list of non-bits must be rejected ...
                    for bad in bits.iter().filter(|b| **b > 1).take(if thorough { usize::MAX } else { 12 }) {
                        check_flat(ctor, *st, &[3], &[0, *bad, 1], *xt, &mut acc);
                    }
                    // ... and the bit-valued members accepted
                    bits = vec![0, 1, 1, 0, 1, 1, 1, 0, 0, 1, 0];
                }
                if ctor == Ctor::ArrU64 {
                    // one out-of-range member at a time (each may be rejected on its own), then all in-range members together
                    let (inr, outr): (Vec<u128>, Vec<u128>) = bits.iter().partition(|b| M::of_bits(**b, *xt).in_64());
                    for b in outr.iter() {
                        check_flat(ctor, *st, &[2], &[1, *b], *xt, &mut acc);
                    }
                    bits = inr;
                }
                if bits.len() % 2 == 1 {
                    bits.push(bits[0]);
                }
                for shape in shapes_for(bits.len()) {
                    check_flat(ctor, *st, &shape, &bits, *xt, &mut acc);
                    acc.distinct.push(hash_str(&format!("flat/{}/{}/{}/{:?}", ctor.name(), st_name(st), xt.name(), shape)));
                }
            }
        }
    }
    // (b) readers: every scalar type on all distinct residues of the alphabet, three shapes, reinterpretations
    for st in ALL_ST.iter() {
        let mask = st_mask(st);
        let mut res: Vec<u128> = vec![];
        for m in alpha.iter() {
            let x = m.bits() & mask;
            if !res.contains(&x) {
                res.push(x);
            }
        }
        while res.len() % 4 != 0 {
            res.push(res[res.len() / 2]);
        }
        for shape in shapes_for(res.len()) {
            check_flat_getters(*st, &shape, &res, true, &mut acc);
            acc.distinct.push(hash_str(&format!("flatget/{}/{:?}", st_name(st), shape)));
        }
        // short arrays: every length 1..=9 (window sliding over the residues)
        for n in 1..=9usize {
            let win: Vec<u128> = (0..n).map(|i| res[(n * 7 + i * 3) % res.len()]).collect();
            check_flat_getters(*st, &[n as u64], &win, true, &mut acc);
            acc.distinct.push(hash_str(&format!("flatget/{}/short{}", st_name(st), n)));
        }
        if acc.samples.len() < 1 && *st == INT32 {
            acc.samples.push(json!({"section":"flat","st":"i32","shape":[res.len()],"first_elements": res.iter().take(6).map(|x| dec(*x,st)).collect::<Vec<_>>() }));
        }
    }
    // (c) ndarrays: shapes x scalar types x Rust element types
    let shapes: Vec<Vec<u64>> = vec![vec![1], vec![5], vec![2, 3], vec![3, 2, 2], vec![1, 1], vec![4, 1], vec![3, 3], vec![1, 7]];
    for (si, shape) in shapes.iter().enumerate() {
        let n = prod(shape);
        for st in ALL_ST.iter() {
            for xt in ALL_XT.iter() {
                let fit: Vec<u128> = if *st == BIT {
                    vec![0, 1, 1, 0, 1]
                } else {
                    alpha.iter().filter(|m| m.fits(*xt)).map(|m| m.bits()).collect()
                };
                // rotate through the whole fit-list in windows of n so that every member is used at least once in thorough
                let rounds = if thorough { (fit.len() + n - 1) / n } else { 2 };
                for k in 0..rounds {
                    let off = if thorough { k * n } else { si * 5 + k * (fit.len() / 2) + 1 };
                    let bits: Vec<u128> = (0..n).map(|i| fit[(off + i) % fit.len()]).collect();
                    check_flat(Ctor::Nd, *st, shape, &bits, *xt, &mut acc);
                    acc.distinct.push(hash_str(&format!("nd/{}/{}/{:?}/{}", st_name(st), xt.name(), shape, off)));
                }
            }
            let pat: Vec<u8> = (0..n).map(|i| ((i * 5 + si) % 3 == 0) as u8).collect();
            check_nd_bool(*st, shape, &pat, &mut acc);
            // readers for this shape
            let va = value_alphabet(st);
            let res: Vec<u128> = (0..n).map(|i| va[(i + si) % va.len()]).collect();
            check_flat_getters(*st, shape, &res, false, &mut acc);
        }
    }
    acc.merge_into(r);
}

pub fn replay_flat(case: &J, acc: &mut Acc) -> bool {
    let st = match case["st"].as_str().and_then(st_from_name) {
        Some(s) => s,
        None => return false,
    };
    let shape: Vec<u64> = match case["shape"].as_array() {
        Some(a) => a.iter().filter_map(|x| x.as_u64()).collect(),
        None => return false,
    };
    let bits: Vec<u128> = match case["bits"].as_array() {
        Some(a) => a.iter().filter_map(parse_u128).collect(),
        None => return false,
    };
    if prod(&shape) != bits.len() {
        return false;
    }
    if case["getters"].as_bool() == Some(true) {
        check_flat_getters(st, &shape, &bits, case["wide"].as_bool().unwrap_or(true), acc);
        return true;
    }
    let ctor = match case["ctor"].as_str().and_then(Ctor::from_name) {
        Some(c) => c,
        None => return false,
    };
    if case["xt"].as_str() == Some("bool") {
        let pat: Vec<u8> = bits.iter().map(|b| *b as u8).collect();
        check_nd_bool(st, &shape, &pat, acc);
        return true;
    }
    let xt = match case["xt"].as_str().and_then(XT::from_name) {
        Some(x) => x,
        None => return false,
    };
    check_flat(ctor, st, &shape, &bits, xt, acc);
    true
}

// ------------------------------------------------------------------------------------------------
// bit arrays
// ------------------------------------------------------------------------------------------------

/// one bit pattern of length n; `stray` = garbage to put into the unused high bits of the last byte when reading
pub fn check_bits(pattern: &[u8], stray: u8, deep: bool, acc: &mut Acc) {
    let n = pattern.len();
    let case = || jerr("bits", json!({"n": n, "pattern": pattern, "stray": stray, "deep": deep}));
    acc.c("evaluations", 1);
    acc.c("bits_patterns", 1);
    if n % 8 != 0 {
        acc.c("bits_ragged_patterns", 1);
    }
    let res: Vec<u128> = pattern.iter().map(|b| *b as u128).collect();
    let exp = encode(&res, &BIT);
    debug_assert_eq!(exp.len(), (n + 7) / 8);
    let t = array_type(vec![n as u64], BIT);
    // writers
    let judge = |op: &str, out: Out<Value>, acc: &mut Acc| match &out {
        Out::Ok(v) => match bytes_of(v) {
            Some(b) if b == exp => {}
            Some(b) => {
                let kind = if b.len() != exp.len() {
                    "wrong-length"
                } else if n % 8 != 0 && (b[b.len() - 1] >> (n % 8)) != 0 {
                    "stray-bits"
                } else {
                    "wrong-packing"
                };
                acc.fail(
                    format!("C13:bits:{}:{}", op, kind),
                    format!("{} of {} bits {:?}: expected bytes {} observed {}", op, n, pattern, hex(&exp), hex(&b)),
                    &case,
                )
            }
            None => acc.fail(format!("C13:bits:{}:not-bytes", op), format!("{} returned a vector value", op), &case),
        },
        o => acc.fail(format!("C13:bits:{}:{}", op, o.kind()), format!("{} of {} bits: {}", op, n, o.msg()), &case),
    };
    judge("from_flattened_array", lib(|| Value::from_flattened_array(pattern, BIT)), acc);
    let p64: Vec<u64> = pattern.iter().map(|b| *b as u64).collect();
    judge("from_flattened_array_u64", lib(|| Value::from_flattened_array_u64(&p64, BIT)), acc);
    if deep {
        let pi: Vec<i128> = pattern.iter().map(|b| *b as i128).collect();
        judge("from_flattened_array", lib(|| Value::from_flattened_array(&pi, BIT)), acc);
        let mut shapes: Vec<Vec<u64>> = vec![vec![n as u64]];
        for a in 2..n {
            if n % a == 0 {
                shapes.push(vec![a as u64, (n / a) as u64]);
                break;
            }
        }
        for shape in shapes.iter() {
            let xb: Vec<bool> = pattern.iter().map(|b| *b == 1).collect();
            match mk_nd!(bool, BIT, shape, xb) {
                Ok(a) => judge("from_ndarray", lib(|| Value::from_ndarray(a, BIT)), acc),
                Err(e) => acc.fail("C13:to_ndarray:zero-value:failed".into(), e, &case),
            }
            let xu: Vec<u8> = pattern.to_vec();
            match mk_nd!(u8, UINT8, shape, xu) {
                Ok(a) => judge("from_ndarray", lib(|| Value::from_ndarray(a, BIT)), acc),
                Err(e) => acc.fail("C13:to_ndarray:zero-value:failed".into(), e, &case),
            }
        }
    }
    // readers, on the clean encoding and on the encoding with stray high bits
    let mut variants: Vec<(Vec<u8>, bool)> = vec![(exp.clone(), false)];
    if n % 8 != 0 && stray != 0 {
        let mut b = exp.clone();
        let l = b.len() - 1;
        b[l] |= ((stray as u16) << (n % 8)) as u8;
        if b != exp {
            variants.push((b, true));
        }
    }
    for (bytes, is_stray) in variants {
        let v = Value::from_bytes(bytes.clone());
        let tag = if is_stray { "stray" } else { "clean" };
        if is_stray {
            acc.c("bits_stray_reads", 1);
        }
        macro_rules! g {
            ($f:ident, $X:ty) => {{
                let expv: Vec<$X> = pattern.iter().map(|b| *b as $X).collect();
                match lib(|| v.$f(t.clone())) {
                    Out::Ok(o) if o == expv => {}
                    Out::Ok(o) => {
                        let kind = if o.len() != expv.len() { "wrong-length" } else { "wrong-value" };
                        acc.fail(
                            format!("C13:bits:{}:{}:{}", stringify!($f), tag, kind),
                            format!("{} on bytes {} as bit[{}]: expected {:?} observed {:?}", stringify!($f), hex(&bytes), n, expv, o),
                            &case,
                        )
                    }
                    o => acc.fail(
                        format!("C13:bits:{}:{}:{}", stringify!($f), tag, o.kind()),
                        format!("{} on bytes {} as bit[{}]: {}", stringify!($f), hex(&bytes), n, o.msg()),
                        &case,
                    ),
                }
            }};
        }
        g!(to_flattened_array_u8, u8);
        g!(to_flattened_array_u64, u64);
        g!(to_flattened_array_i128, i128);
        if deep {
            g!(to_flattened_array_i8, i8);
            g!(to_flattened_array_u16, u16);
            g!(to_flattened_array_i16, i16);
            g!(to_flattened_array_u32, u32);
            g!(to_flattened_array_i32, i32);
            g!(to_flattened_array_i64, i64);
            g!(to_flattened_array_u128, u128);
            let expb: Vec<bool> = pattern.iter().map(|b| *b == 1).collect();
            match lib(|| ToNdarray::<bool>::to_ndarray(&v, t.clone())) {
                Out::Ok(a) if a.iter().cloned().collect::<Vec<bool>>() == expb && a.shape().to_vec() == vec![n] => {}
                o => acc.fail(
                    format!("C13:bits:to_ndarray<bool>:{}:{}", tag, o.kind()),
                    format!("to_ndarray::<bool> on bytes {} as bit[{}] differs from the pattern ({})", hex(&bytes), n, o.kind()),
                    &case,
                ),
            }
            // typed value: equality ignores the unused bits; JSON shows exactly the n bits and parses back clean
            match lib(|| TypedValue::new(t.clone(), v.clone())) {
                Out::Ok(tv) => {
                    let clean = TypedValue::new(t.clone(), Value::from_bytes(exp.clone()));
                    if let Ok(clean) = clean {
                        if !matches!(lib(|| tv.is_equal(&clean)), Out::Ok(true)) {
                            acc.fail(
                                format!("C13:bits:is_equal:{}", tag),
                                format!("is_equal(bytes {}, bytes {}) as bit[{}] is not true", hex(&bytes), hex(&exp), n),
                                &case,
                            );
                        }
                    }
                    match catch(|| serde_json::to_string(&tv)) {
                        Ok(Ok(s)) => {
                            let want = format!(
                                r#"{{"kind":"array","type":"bit","value":[{}]}}"#,
                                pattern.iter().map(|b| b.to_string()).collect::<Vec<_>>().join(",")
                            );
                            let pj: Option<J> = serde_json::from_str(&s).ok();
                            let wj: Option<J> = serde_json::from_str(&want).ok();
                            if pj.is_none() || pj != wj {
                                acc.fail(
                                    format!("C13:bits:json:{}:wrong-text", tag),
                                    format!("JSON of bit[{}] {:?}: expected {} observed {}", n, pattern, want, s),
                                    &case,
                                );
                            }
                            match catch(|| serde_json::from_str::<TypedValue>(&s)) {
                                Ok(Ok(back)) => {
                                    if back.t != t || bytes_of(&back.value) != Some(exp.clone()) {
                                        acc.fail(
                                            format!("C13:bits:json:{}:roundtrip", tag),
                                            format!("bit[{}] {:?} parses back as {:?} bytes {:?}", n, pattern, back.t, bytes_of(&back.value).map(|b| hex(&b))),
                                            &case,
                                        );
                                    }
                                }
                                Ok(Err(e)) => acc.fail(
                                    format!("C13:bits:json:{}:parse-error", tag),
                                    format!("{} does not parse: {}", s, e),
                                    &case,
                                ),
                                Err(p) => acc.fail(format!("C13:bits:json:{}:parse-panic", tag), format!("{} : {}", s, p), &case),
                            }
                        }
                        Ok(Err(e)) => acc.fail(format!("C13:bits:json:{}:print-error", tag), format!("to_string: {}", e), &case),
                        Err(p) => acc.fail(format!("C13:bits:json:{}:print-panic", tag), format!("to_string: {}", p), &case),
                    }
                }
                o => acc.fail(
                    format!("C13:bits:TypedValue::new:{}", tag),
                    format!("TypedValue::new(bit[{}], {} bytes): {}", n, bytes.len(), o.msg()),
                    &case,
                ),
            }
        }
    }
}

/// striped family for long bit arrays
fn striped(n: usize) -> Vec<Vec<u8>> {
    let mut out: Vec<Vec<u8>> = vec![];
    let mut push = |p: Vec<u8>| {
        if !out.contains(&p) {
            out.push(p);
        }
    };
    push(vec![0; n]);
    push(vec![1; n]);
    for period in [2usize, 3, 7, 8] {
        for phase in 0..period {
            push((0..n).map(|i| ((i + phase) % period == 0) as u8).collect());
            push((0..n).map(|i| ((i + phase) % period != 0) as u8).collect());
        }
    }
    for i in 0..n {
        push((0..n).map(|j| (j == i) as u8).collect());
        push((0..n).map(|j| (j != i) as u8).collect());
        push((0..n).map(|j| (j < i) as u8).collect());
    }
    out
}

pub fn run_bits(r: &Report, thorough: bool) {
    let deep_upto = if thorough { 17 } else { 12 };
    for n in 1..=17usize {
        let total: u64 = 1u64 << n;
        let chunks: Vec<(u64, u64)> = (0..total).step_by(1024).map(|s| (s, (s + 1024).min(total))).collect();
        let parts: Vec<Acc> = chunks
            .par_iter()
            .map(|(lo, hi)| {
                let mut acc = Acc::default();
                for p in *lo..*hi {
                    let pattern: Vec<u8> = (0..n).map(|i| ((p >> i) & 1) as u8).collect();
                    // garbage for the unused bits: all ones, and a pattern-dependent one
                    let stray = if p % 2 == 0 { 0xFF } else { (p as u8).wrapping_mul(37) | 1 };
                    check_bits(&pattern, stray, n <= deep_upto, &mut acc);
                    if p != 0 {
                        acc.distinct.push(((n as u64) << 32) | p | (1u64 << 62));
                    }
                }
                acc
            })
            .collect();
        for a in parts {
            a.merge_into(r);
        }
    }
    let mut acc = Acc::default();
    let mut longs: Vec<usize> = (18..=40).collect();
    longs.extend_from_slice(&[63, 64, 65, 127, 128, 129]);
    for n in longs {
        for (k, p) in striped(n).iter().enumerate() {
            check_bits(p, if k % 2 == 0 { 0xFF } else { 0x55 }, true, &mut acc);
            acc.distinct.push(hash_str(&format!("bits/long/{}/{}", n, k)));
            acc.c("bits_striped_patterns", 1);
        }
    }
    acc.samples.push(json!({"section":"bits","n":11,"pattern":[1,0,1,1,0,0,0,1,0,1,1],"expected_bytes": hex(&encode(&[1,0,1,1,0,0,0,1,0,1,1], &BIT))}));
    acc.merge_into(r);
}

pub fn replay_bits(case: &J, acc: &mut Acc) -> bool {
    let pattern: Vec<u8> = match case["pattern"].as_array() {
        Some(a) => a.iter().filter_map(|x| x.as_u64()).map(|x| x as u8).collect(),
        None => return false,
    };
    if pattern.is_empty() || pattern.iter().any(|b| *b > 1) {
        return false;
    }
    let stray = case["stray"].as_u64().unwrap_or(0xFF) as u8;
    check_bits(&pattern, stray, true, acc);
    true
}
