//! C14 - secret sharing reconstructs, with the documented per-party layout.
//!
//! Four parts, all on the real sharing code:
//!  * recon: nested type alphabet x value alphabet x 4 seeds through every sharing entry point
//!    (sum of shares == value with the harness's own adder, per-party slot layout, junk slot independent of
//!    the secret, reveal functions, JSON round trip of the per-party files, get_evaluator_result);
//!  * dist:  for one-byte types ALL 2^16 two-byte tapes x ALL secrets through PRNG::verif_from_tape:
//!    exact uniformity of the pair of shares every party holds, view distribution independent of the
//!    secret, any two parties reconstruct;
//!  * law:   wider types on a boundary alphabet of raw generator outputs fed through the tape:
//!    share0 == raw0, share1 == raw1, share2 == s - raw0 - raw1, junk independent of secret and share draws;
//!  * evalres: get_evaluator_result's automatic sharing of a plain input + reveal of the output.
use crate::common::{catch, hash_bytes, Report, SplitMix};
use crate::vals;
use ciphercore_base::data_types::{
    array_type, get_size_in_bits, get_types_vector, named_tuple_type, scalar_type, tuple_type,
    vector_type, ScalarType, Type, BIT, INT128, INT16, INT32, INT64, INT8, UINT128, UINT16, UINT32,
    UINT64, UINT8,
};
use ciphercore_base::data_values::Value;
use ciphercore_base::evaluators::get_result_util::get_evaluator_result;
use ciphercore_base::evaluators::simple_evaluator::SimpleEvaluator;
use ciphercore_base::graphs::create_context;
use ciphercore_base::mpc::utils::share_vector;
use ciphercore_base::random::PRNG;
use ciphercore_base::typed_value::TypedValue;
use ciphercore_base::typed_value_secret_shared::replicated_shares::ReplicatedShares;
use ciphercore_base::typed_value_secret_shared::TypedValueSecretShared;
use rayon::prelude::*;
use serde_json::{json, Value as J};

#[derive(Clone, Debug)]
struct Viol {
    sig: String,
    what: String,
    case: J,
}

#[derive(Clone, Copy, PartialEq, Eq, Debug)]
enum Func {
    /// TypedValue::secret_share (+ secret_share_reveal)
    SecretShare,
    /// TypedValue::get_local_shares_for_each_party
    LocalShares,
    /// ReplicatedShares::secret_share_for_parties (+ to_tuple)
    ReplParties,
    /// ReplicatedShares::secret_share_for_local_evaluation (+ reveal, to_tuple, from_tuple)
    ReplLocal,
    /// mpc::utils::share_vector (one-dimensional arrays only)
    ShareVector,
}

impl Func {
    fn name(&self) -> &'static str {
        match self {
            Func::SecretShare => "secret_share",
            Func::LocalShares => "get_local_shares_for_each_party",
            Func::ReplParties => "replicated_secret_share_for_parties",
            Func::ReplLocal => "replicated_secret_share_for_local_evaluation",
            Func::ShareVector => "share_vector",
        }
    }
    fn from_name(s: &str) -> Option<Func> {
        ALL_FUNCS.iter().copied().find(|f| f.name() == s)
    }
}
const ALL_FUNCS: [Func; 5] =
    [Func::SecretShare, Func::LocalShares, Func::ReplParties, Func::ReplLocal, Func::ShareVector];

/// What a sharing entry point returned.
enum Shared {
    /// one 3-tuple with all shares, and what the matching reveal function(s) returned
    Complete(Value, Vec<(String, Value)>),
    /// one 3-tuple per party
    Parties([Value; 3]),
}

fn tclass(t: &Type) -> String {
    match t {
        Type::Scalar(st) => format!("scalar-{}", st),
        Type::Array(_, st) => format!("array-{}", st),
        Type::Tuple(_) => "tuple".to_string(),
        Type::Vector(_, _) => "vector".to_string(),
        Type::NamedTuple(_) => "named-tuple".to_string(),
    }
}

fn first_line(s: &str) -> String {
    s.lines().next().unwrap_or("").chars().take(200).collect()
}

fn three(t: &Type) -> Type {
    tuple_type(vec![t.clone(), t.clone(), t.clone()])
}

/// Runs one sharing entry point of the library. Err = (failure kind, message).
fn run_sharing(func: Func, t: &Type, v: &Value, prng: &mut PRNG) -> Result<Shared, (String, String)> {
    let err = |e: String| ("error".to_string(), first_line(&e));
    let pan = |e: String| ("panic".to_string(), first_line(&e));
    let tt = three(t);
    match func {
        Func::SecretShare => {
            let tv = TypedValue { value: v.clone(), t: t.clone(), name: None };
            let sh = catch(|| tv.secret_share(prng)).map_err(pan)?.map_err(|e| err(e.to_string()))?;
            if sh.t != tt {
                return Err(("shared-type".into(), format!("secret_share returned type {} instead of {}", sh.t, tt)));
            }
            let rv = catch(|| sh.secret_share_reveal()).map_err(pan)?.map_err(|e| err(e.to_string()))?;
            if rv.t != *t {
                return Err(("reveal-type".into(), format!("secret_share_reveal returned type {} instead of {}", rv.t, t)));
            }
            Ok(Shared::Complete(sh.value.clone(), vec![("secret_share_reveal".to_string(), rv.value)]))
        }
        Func::LocalShares => {
            let tv = TypedValue { value: v.clone(), t: t.clone(), name: None };
            let ps = catch(|| tv.get_local_shares_for_each_party(prng))
                .map_err(pan)?
                .map_err(|e| err(e.to_string()))?;
            if ps.len() != 3 {
                return Err(("party-count".into(), format!("{} per-party values instead of 3", ps.len())));
            }
            for p in ps.iter() {
                if p.t != tt {
                    return Err(("shared-type".into(), format!("per-party value has type {} instead of {}", p.t, tt)));
                }
            }
            Ok(Shared::Parties([ps[0].value.clone(), ps[1].value.clone(), ps[2].value.clone()]))
        }
        Func::ReplParties => {
            let tv = TypedValue { value: v.clone(), t: t.clone(), name: None };
            let ps = catch(|| ReplicatedShares::secret_share_for_parties(tv, prng))
                .map_err(pan)?
                .map_err(|e| err(e.to_string()))?;
            if ps.len() != 3 {
                return Err(("party-count".into(), format!("{} per-party values instead of 3", ps.len())));
            }
            let mut out = vec![];
            for p in ps.iter() {
                let tp = catch(|| p.to_tuple()).map_err(pan)?.map_err(|e| err(e.to_string()))?;
                if tp.t != tt {
                    return Err(("shared-type".into(), format!("to_tuple has type {} instead of {}", tp.t, tt)));
                }
                out.push(tp.value);
            }
            Ok(Shared::Parties([out[0].clone(), out[1].clone(), out[2].clone()]))
        }
        Func::ReplLocal => {
            let tv = TypedValue { value: v.clone(), t: t.clone(), name: None };
            let sh = catch(|| ReplicatedShares::secret_share_for_local_evaluation(tv, prng))
                .map_err(pan)?
                .map_err(|e| err(e.to_string()))?;
            let tp = catch(|| sh.to_tuple()).map_err(pan)?.map_err(|e| err(e.to_string()))?;
            if tp.t != tt {
                return Err(("shared-type".into(), format!("to_tuple has type {} instead of {}", tp.t, tt)));
            }
            let rv = catch(|| sh.reveal()).map_err(pan)?.map_err(|e| err(e.to_string()))?;
            if rv.t != *t {
                return Err(("reveal-type".into(), format!("reveal returned type {} instead of {}", rv.t, t)));
            }
            let back = catch(|| ReplicatedShares::from_tuple(tp.clone()))
                .map_err(pan)?
                .map_err(|e| err(e.to_string()))?;
            let rv2 = catch(|| back.reveal()).map_err(pan)?.map_err(|e| err(e.to_string()))?;
            if rv2.t != *t {
                return Err(("reveal-type".into(), format!("from_tuple().reveal() returned type {} instead of {}", rv2.t, t)));
            }
            Ok(Shared::Complete(
                tp.value,
                vec![("reveal".to_string(), rv.value), ("from_tuple.reveal".to_string(), rv2.value)],
            ))
        }
        Func::ShareVector => {
            let st = t.get_scalar_type();
            let elems = vals::arr_elems(v, t).ok_or(("harness".to_string(), "bad input value".to_string()))?;
            let res = if vals::st_signed(&st) {
                let data: Vec<i128> = elems.iter().map(|e| vals::to_signed(*e, &st)).collect();
                catch(|| share_vector(prng, &data, st))
            } else {
                catch(|| share_vector(prng, &elems, st))
            };
            let ps = res.map_err(pan)?.map_err(|e| err(e.to_string()))?;
            if ps.len() != 3 {
                return Err(("party-count".into(), format!("{} per-party values instead of 3", ps.len())));
            }
            Ok(Shared::Parties([ps[0].clone(), ps[1].clone(), ps[2].clone()]))
        }
    }
}

/// type-recursive a - b (own arithmetic)
fn sub_values(a: &Value, b: &Value, t: &Type) -> Option<Value> {
    match t {
        Type::Scalar(st) | Type::Array(_, st) => {
            let x = vals::arr_elems(a, t)?;
            let y = vals::arr_elems(b, t)?;
            let m = vals::st_mask(st);
            let z: Vec<u128> = x.iter().zip(y.iter()).map(|(p, q)| p.wrapping_sub(*q) & m).collect();
            Some(Value::from_bytes(vals::encode(&z, st)))
        }
        _ => {
            let ts = get_types_vector(t.clone()).ok()?;
            let xs = a.to_vector().ok()?;
            let ys = b.to_vector().ok()?;
            if xs.len() != ts.len() || ys.len() != ts.len() {
                return None;
            }
            let mut out = vec![];
            for i in 0..ts.len() {
                out.push(sub_values(&xs[i], &ys[i], &ts[i])?);
            }
            Some(Value::from_vector(out))
        }
    }
}

fn sum3(s: &[Value], t: &Type) -> Option<Value> {
    vals::add_values(&vals::add_values(&s[0], &s[1], t)?, &s[2], t)
}

/// Checks a complete 3-tuple of shares: layout of every share, sum == secret. Returns the shares.
fn check_complete(t: &Type, secret: &Value, tuple: &Value) -> Result<Vec<Value>, (String, String)> {
    let s = match tuple.to_vector() {
        Ok(s) if s.len() == 3 => s,
        _ => return Err(("tuple-layout".into(), "shared value is not a 3-tuple".into())),
    };
    for k in 0..3 {
        if !vals::layout_ok(&s[k], t) {
            return Err((
                "share-layout".into(),
                format!("share {} is not a valid encoding of {} (length / unused bits)", k, t),
            ));
        }
    }
    let sum = sum3(&s, t).ok_or(("share-layout".to_string(), "shares cannot be added".to_string()))?;
    if &sum != secret {
        return Err((
            "reconstruct".into(),
            format!("shares add up to {} instead of {}", vals::show(&sum, t), vals::show(secret, t)),
        ));
    }
    Ok(s)
}

/// Checks the three per-party tuples: party p holds share p in slot p and share p+1 in slot p+1, the two
/// holders of a share agree, every pair of parties reconstructs, the remaining slot has the type's layout.
/// Returns (true shares, junk slots indexed by party).
fn check_parties(t: &Type, secret: &Value, tuples: &[Value; 3]) -> Result<(Vec<Value>, Vec<Value>), (String, String)> {
    let mut slots: Vec<Vec<Value>> = vec![];
    for p in 0..3 {
        match tuples[p].to_vector() {
            Ok(s) if s.len() == 3 => slots.push(s),
            _ => return Err(("tuple-layout".into(), format!("value of party {} is not a 3-tuple", p))),
        }
    }
    for p in 0..3 {
        for k in [p, (p + 1) % 3] {
            if !vals::layout_ok(&slots[p][k], t) {
                return Err((
                    "share-layout".into(),
                    format!("party {} slot {} is not a valid encoding of {} (length / unused bits)", p, k, t),
                ));
            }
        }
        let jk = (p + 2) % 3;
        let ok = catch(|| slots[p][jk].check_type(t.clone())).ok().and_then(|x| x.ok()).unwrap_or(false);
        if !ok {
            return Err((
                "junk-layout".into(),
                format!("party {} slot {} (the slot it must not know) is not a value of type {}", p, jk, t),
            ));
        }
    }
    // share k is held by party k (slot k) and by party k-1 (slot k)
    let mut shares = vec![];
    for k in 0..3 {
        let a = &slots[k][k];
        let b = &slots[(k + 2) % 3][k];
        if a != b {
            return Err((
                "replicas-disagree".into(),
                format!(
                    "share {} differs between party {} ({}) and party {} ({})",
                    k,
                    k,
                    vals::show(a, t),
                    (k + 2) % 3,
                    vals::show(b, t)
                ),
            ));
        }
        shares.push(a.clone());
    }
    // any two parties together: p and q=p+1 hold slots p,p+1 and p+1,p+2
    for p in 0..3 {
        let q = (p + 1) % 3;
        let u = vec![slots[p][p].clone(), slots[p][q].clone(), slots[q][(q + 1) % 3].clone()];
        // u = shares p, p+1, p+2 (cyclic order; addition is commutative)
        let sum = sum3(&u, t).ok_or(("share-layout".to_string(), "shares cannot be added".to_string()))?;
        if &sum != secret {
            return Err((
                "reconstruct".into(),
                format!(
                    "parties {} and {} reconstruct {} instead of {}",
                    p,
                    q,
                    vals::show(&sum, t),
                    vals::show(secret, t)
                ),
            ));
        }
    }
    // the two shares a party holds are made of fresh generator output (and, for one of them, the secret minus such
    // output): in a large value no 16-byte block may occur twice among them (a repeat has probability ~2^-128 per pair;
    // it means the generator handed out the same key stream twice, and the held shares are then not uniform)
    for p in 0..3 {
        let mut bytes = vec![];
        flat_bytes(&slots[p][p], &mut bytes);
        let first_len = bytes.len();
        flat_bytes(&slots[p][(p + 1) % 3], &mut bytes);
        if first_len >= 64 {
            let mut seen: std::collections::HashSet<&[u8]> = std::collections::HashSet::new();
            for half in [&bytes[..first_len], &bytes[first_len..]] {
                for blk in half.chunks_exact(16) {
                    if !seen.insert(blk) {
                        return Err((
                            "held-shares-repeat-a-block".into(),
                            format!("the two shares party {} holds contain the 16-byte block {:02x?} twice", p, blk),
                        ));
                    }
                }
            }
        }
    }
    let junk = (0..3).map(|p| slots[p][(p + 2) % 3].clone()).collect();
    Ok((shares, junk))
}

// ---------------------------------------------------------------------------------------------
// alphabets

fn type_alphabet() -> Vec<(String, Type)> {
    let mut ts: Vec<Type> = vec![];
    for st in vals::ALL_ST.iter() {
        ts.push(scalar_type(*st));
    }
    for shape in [vec![1u64], vec![3], vec![2, 2]] {
        for st in vals::ALL_ST.iter() {
            ts.push(array_type(shape.clone(), *st));
        }
    }
    for shape in [vec![7u64], vec![8], vec![9], vec![2, 5], vec![3, 3], vec![64], vec![65]] {
        ts.push(array_type(shape, BIT));
    }
    ts.push(array_type(vec![70], UINT64));
    // containers
    ts.push(tuple_type(vec![]));
    ts.push(tuple_type(vec![scalar_type(BIT), scalar_type(INT32)]));
    ts.push(tuple_type(vec![scalar_type(UINT8), scalar_type(UINT8), scalar_type(UINT8)]));
    ts.push(tuple_type(vec![
        tuple_type(vec![scalar_type(UINT8), array_type(vec![3], BIT)]),
        array_type(vec![2], INT64),
    ]));
    ts.push(vector_type(0, scalar_type(UINT8)));
    ts.push(vector_type(3, array_type(vec![5], BIT)));
    ts.push(vector_type(2, tuple_type(vec![scalar_type(UINT16), scalar_type(INT128)])));
    ts.push(vector_type(2, vector_type(2, scalar_type(BIT))));
    ts.push(named_tuple_type(vec![
        ("a".to_string(), scalar_type(BIT)),
        ("b".to_string(), array_type(vec![2], UINT128)),
    ]));
    ts.push(named_tuple_type(vec![
        ("x".to_string(), vector_type(2, scalar_type(INT8))),
        ("y".to_string(), named_tuple_type(vec![("z".to_string(), scalar_type(UINT64))])),
        ("w".to_string(), tuple_type(vec![array_type(vec![11], BIT), scalar_type(INT16)])),
    ]));
    ts.into_iter().map(|t| (format!("{}", t), t)).collect()
}

fn share_vector_types() -> Vec<(String, Type)> {
    let mut ts = vec![];
    for n in [1u64, 3, 8, 9] {
        for st in vals::ALL_ST.iter() {
            ts.push(array_type(vec![n], *st));
        }
    }
    ts.into_iter().map(|t| (format!("{}", t), t)).collect()
}

fn find_type(label: &str) -> Option<Type> {
    type_alphabet()
        .into_iter()
        .chain(share_vector_types())
        .chain(dist_specs(true).into_iter().map(|d| (d.label.clone(), d.t)))
        .chain(law_types())
        .find(|(l, _)| l == label)
        .map(|x| x.1)
}

const N_FIXED_KINDS: usize = 6;
const N_KINDS: usize = 8;

/// value alphabet per leaf: 0 zero, 1 all ones, 2 sign bit, 3 one, 4 counting, 5 alternating, 6.. seed-derived
fn make_value(t: &Type, kind: usize, seed: u64, label: &str) -> Value {
    let mut leaf = 0u64;
    let mut rng = SplitMix(seed ^ crate::common::hash_str(label) ^ ((kind as u64) << 56) ^ 0xC14);
    vals::build_value(t, &mut |lt| {
        let st = lt.get_scalar_type();
        let n = vals::num_elems(lt);
        let w = vals::st_bits(&st);
        let m = vals::st_mask(&st);
        leaf += 1;
        let elems: Vec<u128> = (0..n)
            .map(|i| match kind {
                0 => 0,
                1 => m,
                2 => 1u128 << (w - 1),
                3 => 1,
                4 => (i as u128 + leaf as u128) & m,
                5 => (0x5555_5555_5555_5555_5555_5555_5555_5555u128 >> (i % 2)) & m,
                _ => (((rng.next() as u128) << 64) | rng.next() as u128) & m,
            })
            .collect();
        vals::arr_value(&elems, &st)
    })
}

fn seeds(rseed: u64) -> Vec<[u8; 16]> {
    let mut a = [0u8; 16];
    for (i, x) in a.iter_mut().enumerate() {
        *x = i as u8 + 1;
    }
    let mut d = [0u8; 16];
    d.copy_from_slice(&SplitMix(rseed ^ 0x00C1_4C14).bytes(16));
    vec![[0u8; 16], a, [0xffu8; 16], d]
}

fn has_padding_bits(t: &Type) -> bool {
    match t {
        Type::Scalar(st) => *st == BIT,
        Type::Array(_, st) => *st == BIT && vals::num_elems(t) % 8 != 0,
        _ => get_types_vector(t.clone()).map(|ts| ts.iter().any(|x| has_padding_bits(x))).unwrap_or(false),
    }
}

// ---------------------------------------------------------------------------------------------
// part 1: reconstruction and layout

#[derive(Default)]
struct ReconStats {
    calls: u64,
    junk_slots: u64,
    junk_coincides_small: u64,
    padding_cases: u64,
    unions: u64,
    json_roundtrips: u64,
    reveals: u64,
}

/// One (function, type, value kind, seed) case. `junk_ref`: junk slots seen for value kind 0 under the
/// same seed (None for kind 0 itself; then the junk is returned for later comparison).
fn recon_case(
    rseed: u64,
    func: Func,
    label: &str,
    t: &Type,
    kind: usize,
    seed_idx: usize,
    junk_ref: Option<&Vec<Value>>,
    st: &mut ReconStats,
    verbose: bool,
) -> (Vec<Viol>, Option<Vec<Value>>) {
    let mut viols = vec![];
    let secret = make_value(t, kind, rseed, label);
    let seed = seeds(rseed)[seed_idx];
    let case = json!({"part": "recon", "func": func.name(), "type": label, "kind": kind, "seed_idx": seed_idx,
                      "secret": vals::show(&secret, t)});
    let mk = |kindstr: &str, msg: String| Viol {
        sig: format!("C14:{}:{}:{}", func.name(), kindstr, tclass(t)),
        what: format!("{} on {} (value kind {}, seed {}): {}", func.name(), label, kind, seed_idx, msg),
        case: case.clone(),
    };
    let mut prng = PRNG::new(Some(seed)).unwrap();
    st.calls += 1;
    if has_padding_bits(t) {
        st.padding_cases += 1;
    }
    let shared = match run_sharing(func, t, &secret, &mut prng) {
        Ok(s) => s,
        Err((k, m)) => {
            if verbose {
                println!("  observed: {} - {}", k, m);
            }
            viols.push(mk(&k, m));
            return (viols, None);
        }
    };
    match shared {
        Shared::Complete(tuple, reveals) => {
            match check_complete(t, &secret, &tuple) {
                Ok(_) => {}
                Err((k, m)) => viols.push(mk(&k, m)),
            }
            for (name, rv) in reveals.iter() {
                st.reveals += 1;
                if verbose {
                    println!("  {}: expected {} observed {}", name, vals::show(&secret, t), vals::show(rv, t));
                }
                if rv != &secret {
                    viols.push(mk(
                        &format!("{}-wrong", name),
                        format!("{} returned {} instead of {}", name, vals::show(rv, t), vals::show(&secret, t)),
                    ));
                }
            }
            (viols, None)
        }
        Shared::Parties(tuples) => {
            if verbose {
                for p in 0..3 {
                    println!("  party {} holds {}", p, vals::show(&tuples[p], &three(t)));
                }
            }
            let (shares, junk) = match check_parties(t, &secret, &tuples) {
                Ok(x) => x,
                Err((k, m)) => {
                    viols.push(mk(&k, m));
                    return (viols, None);
                }
            };
            st.unions += 3;
            st.junk_slots += 3;
            let bits = get_size_in_bits(t.clone()).unwrap_or(0);
            for p in 0..3 {
                let k = (p + 2) % 3;
                if junk[p] == shares[k] {
                    if bits >= 64 {
                        viols.push(mk(
                            "junk-equals-share",
                            format!("party {} slot {} contains the true share {} it must not know", p, k, k),
                        ));
                    } else {
                        st.junk_coincides_small += 1;
                    }
                }
            }
            if let Some(jr) = junk_ref {
                for p in 0..3 {
                    if junk[p] != jr[p] {
                        viols.push(mk(
                            "junk-depends-on-secret",
                            format!(
                                "party {} junk slot is {} for this secret but {} for the zero secret under the same seed",
                                p,
                                vals::show(&junk[p], t),
                                vals::show(&jr[p], t)
                            ),
                        ));
                    }
                }
            }
            // what ciphercore_split_parties writes and the parties read back: JSON of the typed tuples
            // (types without any data, e.g. a zero-length vector, are left out: the human-readable format does not
            // keep the element type of an empty vector - a serialization matter, nothing is shared there)
            if func == Func::LocalShares && seed_idx == 0 && bits > 0 {
                let tt = three(t);
                let tvs: Vec<TypedValue> =
                    tuples.iter().map(|v| TypedValue { value: v.clone(), t: tt.clone(), name: None }).collect();
                st.json_roundtrips += 1;
                let rt = catch(|| -> Result<Vec<TypedValue>, String> {
                    let s = serde_json::to_string(&tvs).map_err(|e| format!("serialize: {}", e))?;
                    serde_json::from_str::<Vec<TypedValue>>(&s).map_err(|e| format!("deserialize: {}", e))
                });
                match rt {
                    Ok(Ok(back)) => {
                        if back.len() != 3 || (0..3).any(|p| back[p].t != tt || back[p].value != tuples[p]) {
                            viols.push(mk(
                                "party-file-json-roundtrip",
                                "per-party typed values change in a JSON round trip (what the split tool writes)".into(),
                            ));
                        }
                    }
                    Ok(Err(e)) => viols.push(mk("party-file-json-roundtrip", first_line(&e))),
                    Err(e) => viols.push(mk("party-file-json-roundtrip", format!("panic: {}", first_line(&e)))),
                }
            }
            (viols, Some(junk))
        }
    }
}

fn recon_part(r: &Report) {
    let mut st = ReconStats::default();
    let rseed = r.seed;
    let n_seeds = 4;
    for func in ALL_FUNCS.iter().copied() {
        let types = if func == Func::ShareVector { share_vector_types() } else { type_alphabet() };
        for (label, t) in types.iter() {
            for seed_idx in 0..n_seeds {
                let mut junk_ref: Option<Vec<Value>> = None;
                for kind in 0..N_KINDS {
                    let (viols, junk) =
                        recon_case(rseed, func, label, t, kind, seed_idx, junk_ref.as_ref(), &mut st, false);
                    if kind >= N_FIXED_KINDS {
                        r.count("extra_seeded_cases", 1);
                    }
                    if kind == 0 {
                        junk_ref = junk;
                    }
                    if kind > 0 && get_size_in_bits(t.clone()).unwrap_or(0) > 0 {
                        r.distinct_str(&format!("recon|{}|{}|{}|{}", func.name(), label, kind, seed_idx));
                    }
                    if r.want_sample() && kind == 4 && seed_idx == 1 {
                        r.sample(json!({"part": "recon", "func": func.name(), "type": label, "kind": kind,
                                        "seed_idx": seed_idx, "violations": viols.len()}));
                    }
                    for v in viols {
                        r.violation(&v.sig, &v.what, v.case);
                    }
                }
            }
        }
    }
    r.count("evaluations", st.calls);
    r.count("recon_cases", st.calls);
    r.count("recon_junk_slots_checked", st.junk_slots);
    r.count("recon_junk_coincides_with_share_small_types", st.junk_coincides_small);
    r.count("recon_cases_with_padding_bits", st.padding_cases);
    r.count("two_party_unions_checked", st.unions);
    r.count("party_file_json_roundtrips", st.json_roundtrips);
    r.count("reveals_checked", st.reveals);
}

// ---------------------------------------------------------------------------------------------
// part 2: exact distribution over all two-byte tapes

#[derive(Clone)]
struct DistSpec {
    label: String,
    t: Type,
    bits: u32,
    secrets: Vec<u8>,
    funcs: Vec<Func>,
}

const QUICK_U8_SECRETS: [u8; 16] =
    [0, 1, 2, 3, 0x7f, 0x80, 0x81, 0xfe, 0xff, 0x55, 0xaa, 0x10, 0x0f, 0xf0, 0x40, 0xc3];

fn dist_specs(thorough: bool) -> Vec<DistSpec> {
    let typed = vec![Func::SecretShare, Func::LocalShares, Func::ReplParties];
    let all8: Vec<u8> = if thorough { (0..=255u8).collect() } else { QUICK_U8_SECRETS.to_vec() };
    let mk = |t: Type, bits: u32, secrets: Vec<u8>, funcs: Vec<Func>| DistSpec {
        label: format!("{}", t),
        t,
        bits,
        secrets,
        funcs,
    };
    vec![
        mk(scalar_type(BIT), 1, vec![0, 1], typed.clone()),
        mk(array_type(vec![3], BIT), 3, (0..8u8).collect(), typed.clone()),
        mk(scalar_type(UINT8), 8, all8.clone(), typed.clone()),
        mk(scalar_type(INT8), 8, QUICK_U8_SECRETS.to_vec(), typed.clone()),
        mk(array_type(vec![1], BIT), 1, vec![0, 1], vec![Func::ShareVector]),
        mk(array_type(vec![1], UINT8), 8, all8, vec![Func::ShareVector]),
    ]
}

struct DistOut {
    viols: Vec<Viol>,
    /// per party: hash of the sorted multiset of complete views (three slots) over all tapes
    view_hash: [u64; 3],
    tapes: u64,
    unions: u64,
}

fn one_byte(v: &Value) -> Option<u8> {
    v.access_bytes(|b| Ok(if b.len() == 1 { Some(b[0]) } else { None })).ok().flatten()
}

fn slots_bytes(tuple: &Value) -> Option<[u8; 3]> {
    let s = tuple.to_vector().ok()?;
    if s.len() != 3 {
        return None;
    }
    Some([one_byte(&s[0])?, one_byte(&s[1])?, one_byte(&s[2])?])
}

/// All 65536 two-byte tapes for one (function, type, secret).
fn dist_one(func: Func, spec: &DistSpec, secret: u8, verbose: bool) -> DistOut {
    let t = &spec.t;
    let mask: u8 = if spec.bits == 8 { 0xff } else { (1u8 << spec.bits) - 1 };
    let secret_v = Value::from_bytes(vec![secret]);
    let case = json!({"part": "dist", "func": func.name(), "type": spec.label, "secret": secret});
    let mk = |kindstr: &str, msg: String, extra: J| {
        let mut c = case.clone();
        c["detail"] = extra;
        Viol {
            sig: format!("C14:{}:dist-{}:{}", func.name(), kindstr, tclass(t)),
            what: format!("{} on {} secret {}: {}", func.name(), spec.label, secret, msg),
            case: c,
        }
    };
    let mut viols: Vec<Viol> = vec![];
    let push = |v: Viol, viols: &mut Vec<Viol>| {
        if !viols.iter().any(|x| x.sig == v.sig) {
            viols.push(v);
        }
    };
    let mut pair_counts: Vec<Vec<u32>> = vec![vec![0u32; 65536]; 3];
    let mut views: Vec<Vec<u32>> = vec![Vec::with_capacity(65536); 3];
    let mut unions = 0u64;
    let mut tapes = 0u64;
    for tape_id in 0..65536u32 {
        let b0 = (tape_id & 0xff) as u8;
        let b1 = (tape_id >> 8) as u8;
        let mut prng = match PRNG::verif_from_tape(vec![b0, b1]) {
            Ok(p) => p,
            Err(e) => {
                push(mk("harness", format!("verif_from_tape failed: {}", e), json!({})), &mut viols);
                break;
            }
        };
        tapes += 1;
        let shared = match run_sharing(func, t, &secret_v, &mut prng) {
            Ok(s) => s,
            Err((k, m)) => {
                push(mk(&k, m, json!({"tape": [b0, b1]})), &mut viols);
                continue;
            }
        };
        // a[p] = the three slots party p holds (for a complete sharing: the shares, junk slot := 0)
        let a: [[u8; 3]; 3] = match shared {
            Shared::Complete(tuple, reveals) => {
                let s = match slots_bytes(&tuple) {
                    Some(s) => s,
                    None => {
                        push(mk("share-layout", "shares are not one byte each".into(), json!({"tape": [b0, b1]})), &mut viols);
                        continue;
                    }
                };
                for (name, rv) in reveals.iter() {
                    if one_byte(rv) != Some(secret) {
                        push(
                            mk("reveal-wrong", format!("{} does not return the secret", name), json!({"tape": [b0, b1]})),
                            &mut viols,
                        );
                    }
                }
                [[s[0], s[1], 0], [0, s[1], s[2]], [s[0], 0, s[2]]]
            }
            Shared::Parties(tuples) => {
                let mut a = [[0u8; 3]; 3];
                let mut bad = false;
                for p in 0..3 {
                    match slots_bytes(&tuples[p]) {
                        Some(s) => a[p] = s,
                        None => bad = true,
                    }
                }
                if bad {
                    push(mk("share-layout", "per-party slots are not one byte each".into(), json!({"tape": [b0, b1]})), &mut viols);
                    continue;
                }
                a
            }
        };
        let show = || json!({"tape": [b0, b1], "party0": a[0].to_vec(), "party1": a[1].to_vec(), "party2": a[2].to_vec()});
        if verbose && tape_id < 4 {
            println!("  tape {:?}: {}", [b0, b1], show());
        }
        for p in 0..3 {
            let q = (p + 1) % 3;
            // held shares are valid encodings (unused bits zero)
            if a[p][p] & !mask != 0 || a[p][q] & !mask != 0 {
                push(mk("share-layout", format!("party {} holds a share with unused bits set", p), show()), &mut viols);
            }
            // replicas agree: share q is held by p (slot q) and q (slot q)
            if a[p][q] != a[q][q] {
                push(mk("replicas-disagree", format!("share {} differs between parties {} and {}", q, p, q), show()), &mut viols);
            }
            // p and q together: shares p, q from p, share q+1 from q
            // bit types: element-wise addition mod 2 (xor); integers: addition mod 2^8
            let sum = if t.get_scalar_type() == BIT {
                (a[p][p] ^ a[p][q] ^ a[q][(q + 1) % 3]) & mask
            } else {
                a[p][p].wrapping_add(a[p][q]).wrapping_add(a[q][(q + 1) % 3]) & mask
            };
            unions += 1;
            if sum != secret {
                push(
                    mk("reconstruct", format!("parties {} and {} reconstruct {} instead of {}", p, q, sum, secret), show()),
                    &mut viols,
                );
            }
            pair_counts[p][((a[p][p] as usize) << 8) | a[p][q] as usize] += 1;
            views[p].push(a[p][0] as u32 | (a[p][1] as u32) << 8 | (a[p][2] as u32) << 16);
        }
    }
    // exact uniformity of the pair of shares a party holds
    let dom = 1usize << spec.bits;
    let expect = (65536usize / (dom * dom)) as u32;
    if tapes == 65536 {
        for p in 0..3 {
            let mut worst: Option<(usize, usize, u32)> = None;
            for x in 0..256usize {
                for y in 0..256usize {
                    let c = pair_counts[p][(x << 8) | y];
                    let e = if x < dom && y < dom { expect } else { 0 };
                    if c != e && worst.is_none() {
                        worst = Some((x, y, c));
                    }
                }
            }
            if verbose {
                println!(
                    "  party {}: {} distinct held pairs, each expected {} times; first deviation: {:?}",
                    p,
                    pair_counts[p].iter().filter(|c| **c > 0).count(),
                    expect,
                    worst
                );
            }
            if let Some((x, y, c)) = worst {
                push(
                    mk(
                        "held-pair-not-uniform",
                        format!(
                            "party {}: the pair of held shares ({},{}) occurs {} times over all 65536 tapes, expected {}",
                            p, x, y, c, expect
                        ),
                        json!({"party": p, "pair": [x, y], "count": c, "expected": expect}),
                    ),
                    &mut viols,
                );
            }
        }
    }
    let mut view_hash = [0u64; 3];
    for p in 0..3 {
        views[p].sort_unstable();
        let mut bytes = Vec::with_capacity(views[p].len() * 4);
        for v in views[p].iter() {
            bytes.extend_from_slice(&v.to_le_bytes());
        }
        view_hash[p] = hash_bytes(&bytes);
    }
    DistOut { viols, view_hash, tapes, unions }
}

fn dist_part(r: &Report) {
    for spec in dist_specs(r.tier.thorough()).iter() {
        for func in spec.funcs.iter().copied() {
            // reference: the first secret, then all others in parallel; merged in enumeration order
            let outs: Vec<DistOut> =
                spec.secrets.par_iter().map(|s| dist_one(func, spec, *s, false)).collect();
            for (i, o) in outs.iter().enumerate() {
                r.count("evaluations", o.tapes);
                r.count("dist_tapes", o.tapes);
                r.count("two_party_unions_checked", o.unions);
                r.count("dist_secret_runs", 1);
                r.distinct_str(&format!("dist|{}|{}|{}", func.name(), spec.label, spec.secrets[i]));
                for v in o.viols.iter() {
                    r.violation(&v.sig, &v.what, v.case.clone());
                }
                for p in 0..3 {
                    if o.view_hash[p] != outs[0].view_hash[p] {
                        r.violation(
                            &format!("C14:{}:dist-view-depends-on-secret:{}", func.name(), tclass(&spec.t)),
                            &format!(
                                "{} on {}: the distribution of party {}'s complete view over all 65536 tapes differs between secret {} and secret {}",
                                func.name(), spec.label, p, spec.secrets[0], spec.secrets[i]
                            ),
                            json!({"part": "dist", "func": func.name(), "type": spec.label, "secret": spec.secrets[i],
                                   "reference_secret": spec.secrets[0], "party": p}),
                        );
                    }
                }
                r.count("dist_view_distributions_compared", 3);
            }
            if r.want_sample() {
                r.sample(json!({"part": "dist", "func": func.name(), "type": spec.label, "secrets": spec.secrets.len(),
                                "tapes_per_secret": 65536}));
            }
        }
    }
}

// ---------------------------------------------------------------------------------------------
// part 3: exact law on wider types (raw generator outputs fed through the tape)

fn law_types() -> Vec<(String, Type)> {
    let mut ts = vec![];
    for st in [UINT8, INT8, UINT16, INT16, UINT32, INT32, UINT64, INT64, UINT128, INT128] {
        ts.push(scalar_type(st));
    }
    for st in [UINT8, INT8, UINT16, INT16, UINT32, INT32, UINT64, INT64, UINT128, INT128] {
        ts.push(array_type(vec![2], st));
    }
    ts.push(tuple_type(vec![scalar_type(UINT8), array_type(vec![2], INT64)]));
    ts.push(vector_type(2, scalar_type(UINT16)));
    ts.push(named_tuple_type(vec![("k".to_string(), scalar_type(INT128)), ("v".to_string(), array_type(vec![3], UINT32))]));
    ts.into_iter().map(|t| (format!("{}", t), t)).collect()
}

/// boundary alphabet per leaf element; index -> value
fn boundary(st: &ScalarType, i: usize, pos: usize) -> u128 {
    let w = vals::st_bits(st);
    let m = vals::st_mask(st);
    match i {
        0 => 0,
        1 => 1,
        2 => m,
        3 => 1u128 << (w - 1),
        4 => (1u128 << (w - 1)) - 1,
        _ => (0x0123_4567_89ab_cdef_1357_9bdf_0246_8aceu128.rotate_left(pos as u32 * 8)) & m,
    }
}
const N_BOUNDARY: usize = 6;

fn boundary_value(t: &Type, i: usize) -> Value {
    let mut pos = 0usize;
    vals::build_value(t, &mut |lt| {
        let st = lt.get_scalar_type();
        let n = vals::num_elems(lt);
        let e: Vec<u128> = (0..n)
            .map(|_| {
                pos += 1;
                boundary(&st, i, pos)
            })
            .collect();
        vals::arr_value(&e, &st)
    })
}

fn flat_bytes(v: &Value, out: &mut Vec<u8>) {
    match v.to_vector() {
        Ok(vs) => {
            for x in vs {
                flat_bytes(&x, out);
            }
        }
        Err(_) => {
            let _ = v.access_bytes(|b| {
                out.extend_from_slice(b);
                Ok(())
            });
        }
    }
}

const LAW_FUNCS: [Func; 4] = [Func::SecretShare, Func::LocalShares, Func::ReplParties, Func::ReplLocal];

/// junk draws on the tape: fixed, recognisable bytes
fn junk_tape(nbytes: usize) -> Vec<u8> {
    (0..3 * nbytes).map(|i| 0xA0u8.wrapping_add((i * 7) as u8)).collect()
}

fn law_case(
    func: Func,
    label: &str,
    t: &Type,
    si: usize,
    i0: usize,
    i1: usize,
    junk_ref: Option<&Vec<Value>>,
    verbose: bool,
) -> (Vec<Viol>, Option<Vec<Value>>) {
    let secret = boundary_value(t, si);
    let raw0 = boundary_value(t, i0);
    let raw1 = boundary_value(t, i1);
    let mut tape = vec![];
    flat_bytes(&raw0, &mut tape);
    flat_bytes(&raw1, &mut tape);
    let nbytes = tape.len() / 2;
    tape.extend_from_slice(&junk_tape(nbytes));
    let case = json!({"part": "law", "func": func.name(), "type": label, "secret_idx": si, "raw0_idx": i0, "raw1_idx": i1});
    let mk = |kindstr: &str, msg: String| Viol {
        sig: format!("C14:{}:law-{}:{}", func.name(), kindstr, tclass(t)),
        what: format!(
            "{} on {} (secret {}, raw draws {} and {}): {}",
            func.name(),
            label,
            vals::show(&secret, t),
            vals::show(&raw0, t),
            vals::show(&raw1, t),
            msg
        ),
        case: case.clone(),
    };
    let mut viols = vec![];
    let mut prng = match PRNG::verif_from_tape(tape) {
        Ok(p) => p,
        Err(e) => return (vec![mk("harness", format!("verif_from_tape: {}", e))], None),
    };
    let shared = match run_sharing(func, t, &secret, &mut prng) {
        Ok(s) => s,
        Err((k, m)) => return (vec![mk(&k, m)], None),
    };
    let consumed = prng.verif_tape_consumed();
    let expected2 = sub_values(&sub_values(&secret, &raw0, t).unwrap(), &raw1, t).unwrap();
    let (shares, junk, want_consumed) = match shared {
        Shared::Complete(tuple, reveals) => {
            for (name, rv) in reveals.iter() {
                if rv != &secret {
                    viols.push(mk("reveal-wrong", format!("{} returned {}", name, vals::show(rv, t))));
                }
            }
            match check_complete(t, &secret, &tuple) {
                Ok(s) => (s, None, 2 * nbytes),
                Err((k, m)) => return (vec![mk(&k, m)], None),
            }
        }
        Shared::Parties(tuples) => match check_parties(t, &secret, &tuples) {
            Ok((s, j)) => (s, Some(j), 5 * nbytes),
            Err((k, m)) => return (vec![mk(&k, m)], None),
        },
    };
    if verbose {
        println!("  expected shares: {} {} {}", vals::show(&raw0, t), vals::show(&raw1, t), vals::show(&expected2, t));
        println!("  observed shares: {} {} {}", vals::show(&shares[0], t), vals::show(&shares[1], t), vals::show(&shares[2], t));
        println!("  tape bytes consumed: {} (expected {})", consumed, want_consumed);
    }
    if shares[0] != raw0 {
        viols.push(mk("share0-not-raw-draw", format!("share 0 is {} instead of the first raw draw", vals::show(&shares[0], t))));
    }
    if shares[1] != raw1 {
        viols.push(mk("share1-not-raw-draw", format!("share 1 is {} instead of the second raw draw", vals::show(&shares[1], t))));
    }
    if shares[2] != expected2 {
        viols.push(mk(
            "share2-not-difference",
            format!("share 2 is {} instead of s - v0 - v1 = {}", vals::show(&shares[2], t), vals::show(&expected2, t)),
        ));
    }
    if consumed != want_consumed {
        viols.push(mk(
            "draw-size",
            format!("{} bytes of randomness consumed instead of {} ({} draws of {} bytes)", consumed, want_consumed, want_consumed / nbytes.max(1), nbytes),
        ));
    }
    if let (Some(j), Some(jr)) = (junk.as_ref(), junk_ref) {
        for p in 0..3 {
            if j[p] != jr[p] {
                viols.push(mk(
                    "junk-depends-on-secret-or-shares",
                    format!(
                        "party {} junk slot is {} here but {} for secret 0 / zero share draws with the same junk randomness",
                        p,
                        vals::show(&j[p], t),
                        vals::show(&jr[p], t)
                    ),
                ));
            }
        }
    }
    (viols, junk)
}

fn law_part(r: &Report) {
    let types = law_types();
    let results: Vec<(u64, u64, Vec<Viol>)> = types
        .par_iter()
        .map(|(label, t)| {
            let mut viols = vec![];
            let mut n = 0u64;
            let mut nj = 0u64;
            for func in LAW_FUNCS.iter().copied() {
                let (v0, junk_ref) = law_case(func, label, t, 0, 0, 0, None, false);
                n += 1;
                viols.extend(v0);
                for si in 0..N_BOUNDARY {
                    for i0 in 0..N_BOUNDARY {
                        for i1 in 0..N_BOUNDARY {
                            if si == 0 && i0 == 0 && i1 == 0 {
                                continue;
                            }
                            let (v, _) = law_case(func, label, t, si, i0, i1, junk_ref.as_ref(), false);
                            n += 1;
                            if junk_ref.is_some() {
                                nj += 3;
                            }
                            viols.extend(v);
                        }
                    }
                }
            }
            (n, nj, viols)
        })
        .collect();
    for (i, (n, nj, viols)) in results.into_iter().enumerate() {
        r.count("evaluations", n);
        r.count("law_cases", n);
        r.count("law_junk_slots_compared", nj);
        r.distinct_str(&format!("law|{}", types[i].0));
        for v in viols {
            r.violation(&v.sig, &v.what, v.case);
        }
    }
}

// ---------------------------------------------------------------------------------------------
// part 4: get_evaluator_result shares a plain input for a graph that expects shares, and reveals the output

fn evalres_case(rseed: u64, label: &str, t: &Type, kind: usize, verbose: bool) -> Vec<Viol> {
    let secret = make_value(t, kind, rseed, label);
    let case = json!({"part": "evalres", "type": label, "kind": kind});
    let mk = |kindstr: &str, msg: String| Viol {
        sig: format!("C14:get_evaluator_result:{}:{}", kindstr, tclass(t)),
        what: format!("get_evaluator_result (auto-share + reveal) on {} value kind {}: {}", label, kind, msg),
        case: case.clone(),
    };
    let res = catch(|| -> Result<TypedValue, String> {
        let c = create_context().map_err(|e| e.to_string())?;
        let g = c.create_graph().map_err(|e| e.to_string())?;
        let i = g.input(three(t)).map_err(|e| e.to_string())?;
        g.set_output_node(i).map_err(|e| e.to_string())?;
        g.finalize().map_err(|e| e.to_string())?;
        c.set_main_graph(g).map_err(|e| e.to_string())?;
        c.finalize().map_err(|e| e.to_string())?;
        let ev = SimpleEvaluator::new(Some([7u8; 16])).map_err(|e| e.to_string())?;
        let tv = TypedValue { value: secret.clone(), t: t.clone(), name: None };
        get_evaluator_result(c, vec![tv], true, ev).map_err(|e| e.to_string())
    });
    match res {
        Ok(Ok(tv)) => {
            if verbose {
                println!("  expected {} observed {} (type {})", vals::show(&secret, t), vals::show(&tv.value, t), tv.t);
            }
            if tv.t != *t {
                return vec![mk("reveal-type", format!("revealed type {} instead of {}", tv.t, t))];
            }
            if tv.value != secret {
                return vec![mk(
                    "reconstruct",
                    format!("revealed {} instead of {}", vals::show(&tv.value, t), vals::show(&secret, t)),
                )];
            }
            vec![]
        }
        Ok(Err(e)) => vec![mk("error", first_line(&e))],
        Err(e) => vec![mk("panic", first_line(&e))],
    }
}

fn evalres_part(r: &Report) {
    let types = type_alphabet();
    // types whose plain value also matches the 3-tuple input type are passed "as is" by design: skip them
    for (label, t) in types.iter() {
        if get_size_in_bits(t.clone()).unwrap_or(0) == 0 {
            continue;
        }
        for kind in [1usize, 4, 6] {
            let viols = evalres_case(r.seed, label, t, kind, false);
            r.count("evaluations", 1);
            r.count("evalres_cases", 1);
            if kind >= N_FIXED_KINDS {
                r.count("extra_seeded_cases", 1);
            }
            for v in viols {
                r.violation(&v.sig, &v.what, v.case);
            }
        }
    }
}

// ---------------------------------------------------------------------------------------------

pub fn run(r: &Report) -> i32 {
    let mut times = serde_json::Map::new();
    let mut timed = |name: &str, f: &dyn Fn(&Report)| {
        let t0 = r.elapsed();
        f(r);
        times.insert(name.to_string(), json!(((r.elapsed() - t0) * 10.0).round() / 10.0));
    };
    timed("recon", &recon_part);
    timed("law", &law_part);
    timed("evalres", &evalres_part);
    timed("dist", &dist_part);
    r.extra("part_wall_s", J::Object(times));
    r.finish(
        "exploration",
        "recon: 5 sharing entry points x nested type alphabet (11 scalar types, arrays of all of them, bit arrays with \
         padding, tuples/vectors/named tuples, nested) x 8 value kinds (6 fixed + 2 seed-derived) x 4 generator seeds; \
         dist: all 65536 two-byte tapes x all secrets (u8: all 256 in thorough, 16 in quick) for bit, bit[3], u8, i8 \
         (typed API) and bit[1], u8[1] (share_vector); law: 6^3 (secret, raw0, raw1) boundary triples per wider type fed \
         through the tape; evalres: get_evaluator_result auto-share + reveal per type x 3 values. Non-trivial: non-zero \
         secret / distinct (function,type,secret).",
        true,
        &[
            "dist: the two share draws are the first two bytes of the tape; junk draws come from the fixed continuation (AES-CTR under the zero key)",
            "uniformity for types wider than 8 bits rests on the law v2 = s - v0 - v1 with v0, v1 raw generator outputs (checked) and on the generator being unbiased (C15)",
            "get_evaluator_result draws its sharing randomness from the OS generator; the revealed value must not depend on it",
        ],
        &[
            "recon_cases",
            "recon_junk_slots_checked",
            "recon_cases_with_padding_bits",
            "two_party_unions_checked",
            "dist_tapes",
            "dist_view_distributions_compared",
            "law_cases",
            "law_junk_slots_compared",
            "evalres_cases",
            "reveals_checked",
            "party_file_json_roundtrips",
        ],
    )
}

pub fn replay(r: &Report, rec: &serde_json::Value) -> i32 {
    let case = &rec["case"];
    let part = case["part"].as_str().unwrap_or("");
    let label = case["type"].as_str().unwrap_or("");
    let t = match find_type(label) {
        Some(t) => t,
        None => {
            println!("MACHINERY-ERROR property=C14 unknown type label '{}' in replay record", label);
            return 2;
        }
    };
    let func = Func::from_name(case["func"].as_str().unwrap_or(""));
    let want_sig = rec["signature"].as_str().unwrap_or("");
    println!("replaying C14 case: {}", case);
    let viols: Vec<Viol> = match (part, func) {
        ("recon", Some(f)) => {
            let kind = case["kind"].as_u64().unwrap_or(0) as usize;
            let seed_idx = case["seed_idx"].as_u64().unwrap_or(0) as usize;
            let mut st = ReconStats::default();
            let mut junk_ref = None;
            if kind != 0 {
                println!(" reference run (zero secret, same seed):");
                let (_, j) = recon_case(r.seed, f, label, &t, 0, seed_idx, None, &mut st, true);
                junk_ref = j;
            }
            println!(" case run:");
            recon_case(r.seed, f, label, &t, kind, seed_idx, junk_ref.as_ref(), &mut st, true).0
        }
        ("dist", Some(f)) => {
            let spec = match dist_specs(true).into_iter().find(|d| d.label == label && d.funcs.contains(&f)) {
                Some(s) => s,
                None => {
                    println!("MACHINERY-ERROR property=C14 no distribution spec for {}", label);
                    return 2;
                }
            };
            let secret = case["secret"].as_u64().unwrap_or(0) as u8;
            let o = dist_one(f, &spec, secret, true);
            let mut v = o.viols;
            if let Some(rs) = case.get("reference_secret").and_then(|x| x.as_u64()) {
                let o0 = dist_one(f, &spec, rs as u8, true);
                for p in 0..3 {
                    println!(
                        "  party {} view-multiset hash: secret {} -> {:016x}, secret {} -> {:016x}",
                        p, rs, o0.view_hash[p], secret, o.view_hash[p]
                    );
                    if o0.view_hash[p] != o.view_hash[p] {
                        v.push(Viol {
                            sig: format!("C14:{}:dist-view-depends-on-secret:{}", f.name(), tclass(&t)),
                            what: format!("party {} view distribution differs between secrets {} and {}", p, rs, secret),
                            case: case.clone(),
                        });
                    }
                }
            }
            v
        }
        ("law", Some(f)) => {
            let si = case["secret_idx"].as_u64().unwrap_or(0) as usize;
            let i0 = case["raw0_idx"].as_u64().unwrap_or(0) as usize;
            let i1 = case["raw1_idx"].as_u64().unwrap_or(0) as usize;
            let (_, jr) = law_case(f, label, &t, 0, 0, 0, None, false);
            law_case(f, label, &t, si, i0, i1, jr.as_ref(), true).0
        }
        ("evalres", _) => {
            let kind = case["kind"].as_u64().unwrap_or(0) as usize;
            let mut v = vec![];
            for _ in 0..3 {
                v.extend(evalres_case(r.seed, label, &t, kind, true));
            }
            v
        }
        _ => {
            println!("MACHINERY-ERROR property=C14 unknown replay part '{}'", part);
            return 2;
        }
    };
    for v in viols.iter() {
        println!("observed violation [{}]: {}", v.sig, v.what);
    }
    if viols.iter().any(|v| v.sig == want_sig) || (want_sig.is_empty() && !viols.is_empty()) {
        println!("REPRODUCED property=C14 signature={}", want_sig);
        1
    } else {
        println!("NOT-REPRODUCED property=C14 signature={}", want_sig);
        0
    }
}
