//! C04 - every pseudo-random mask is fresh: no PRF counter reused in compiler output (part A),
//! no randomising/PRF node turned into a constant, merged or duplicated by the optimiser (part B).
use super::c01::{self, Prog};
use crate::common::{catch, hash_str, Report};
use crate::exec::first_line;
use crate::mpcx::{self, Owner};
use crate::vals;
use ciphercore_base::data_types::{array_type, scalar_type, vector_type, Type, BIT, INT32, INT64, UINT64};
use ciphercore_base::evaluators::simple_evaluator::SimpleEvaluator;
use ciphercore_base::graphs::{create_context, Context, Graph, Node, NodeAnnotation, Operation};
use ciphercore_base::inline::inline_ops::InlineMode;
use ciphercore_base::mpc::mpc_compiler::{prepare_context, prepare_for_mpc_evaluation, uniquify_prf_id, IOStatus};
use ciphercore_base::optimizer::optimize::optimize_context;
use rayon::prelude::*;
use serde_json::{json, Value as J};
use std::collections::{HashMap, HashSet};
use std::sync::Arc;

fn is_rand_op(op: &Operation) -> bool {
    op.is_prf_operation() || op.is_randomizing().unwrap_or(false)
}

/// (counter, description) of every PRF-type node of every graph of the context
fn prf_counters(c: &Context) -> Vec<(u64, String)> {
    let mut v = vec![];
    for g in c.get_graphs() {
        for n in g.get_nodes() {
            match n.get_operation() {
                Operation::PRF(iv, t) => v.push((iv, format!("PRF({},{}) g{} n{}", iv, t, g.get_id(), n.get_id()))),
                Operation::PermutationFromPRF(iv, k) => {
                    v.push((iv, format!("PermutationFromPRF({},{}) g{} n{}", iv, k, g.get_id(), n.get_id())))
                }
                _ => {}
            }
        }
    }
    v
}

fn check_counters(c: &Context) -> Result<usize, String> {
    let v = prf_counters(c);
    let mut seen: HashMap<u64, String> = HashMap::new();
    for (iv, d) in v.iter() {
        if *iv == 0 {
            return Err(format!("{} keeps the placeholder counter 0", d));
        }
        if let Some(o) = seen.insert(*iv, d.clone()) {
            return Err(format!("{} and {} share a counter", o, d));
        }
    }
    Ok(v.len())
}

/// keys with >= 2 PRF nodes
fn keys_with_several_masks(c: &Context) -> usize {
    let g = c.get_main_graph().unwrap();
    let mut per_key: HashMap<u64, usize> = HashMap::new();
    for n in g.get_nodes() {
        if n.get_operation().is_prf_operation() {
            *per_key.entry(n.get_node_dependencies()[0].get_id()).or_insert(0) += 1;
        }
    }
    per_key.values().filter(|c| **c >= 2).count()
}

fn stages(
    ctx: &Context,
    owners: &[Owner],
    outs: &[u8],
    mode: &InlineMode,
) -> Result<Vec<(&'static str, Context)>, String> {
    let ins: Vec<IOStatus> = owners.iter().map(|o| o.status()).collect();
    let outs: Vec<IOStatus> = outs.iter().map(|i| IOStatus::Party(*i as u64)).collect();
    let cfg = mpcx::inline_config(mode);
    let c = ctx.clone();
    let res = catch(move || -> ciphercore_base::errors::Result<Vec<(&'static str, Context)>> {
        let p = prepare_context(c, cfg.clone(), SimpleEvaluator::new(Some([7u8; 16]))?, false)?;
        let m = prepare_for_mpc_evaluation(&p.get_context(), vec![ins], vec![outs], cfg)?;
        let o = optimize_context(&m.get_context(), SimpleEvaluator::new(Some([7u8; 16]))?)?;
        // the numbering pass applied once more to its own output (the pipeline re-prepares contexts that were
        // compiled before; counters are then already 1..n when the pass starts)
        let u = uniquify_prf_id(m.get_context())?;
        Ok(vec![
            ("after-prepare_for_mpc_evaluation", m.get_context()),
            ("after-optimize", o.get_context()),
            ("after-renumbering-the-compiled-context", u.get_context()),
        ])
    });
    match res {
        Ok(Ok(v)) => Ok(v),
        Ok(Err(e)) => Err(format!("error: {}", first_line(&e.to_string()))),
        Err(p) => Err(format!("panic: {}", p)),
    }
}

fn mk(desc: &str, class: &str, f: impl Fn(&Context) -> ciphercore_base::errors::Result<Graph> + Send + Sync + 'static) -> Prog {
    Prog {
        desc: desc.into(),
        class: class.into(),
        build: Arc::new(move || {
            let go = || -> ciphercore_base::errors::Result<Context> {
                let c = create_context()?;
                let g = f(&c)?;
                g.finalize()?;
                c.set_main_graph(g)?;
                c.finalize()?;
                Ok(c)
            };
            match catch(go) {
                Ok(Ok(c)) => Ok(c),
                Ok(Err(e)) => Err(e.to_string()),
                Err(p) => Err(p),
            }
        }),
        owners: None,
        outs: None,
        inputs: None,
        allowed_abort: None,
    }
}

/// protocols that draw several masks from one key, and bodies inlined k times
fn special_programs() -> Vec<Prog> {
    let mut v = vec![];
    for k in [1u64, 2, 5, 17] {
        v.push(mk(&format!("call mul body x{}", k), "Call-inlined", move |c| {
            let f = c.create_graph()?;
            let a = f.input(array_type(vec![2], INT32))?;
            let b = f.input(array_type(vec![2], INT32))?;
            a.multiply(b)?.set_as_output()?;
            f.finalize()?;
            let g = c.create_graph()?;
            let x = g.input(array_type(vec![2], INT32))?;
            let y = g.input(array_type(vec![2], INT32))?;
            let mut acc = x.clone();
            for _ in 0..k {
                acc = g.call(f.clone(), vec![acc, y.clone()])?;
            }
            acc.set_as_output()?;
            Ok(g)
        }));
        v.push(mk(&format!("iterate mul body len {}", k), "Iterate-inlined", move |c| {
            let f = c.create_graph()?;
            let s = f.input(scalar_type(INT32))?;
            let x = f.input(scalar_type(INT32))?;
            let ns = s.multiply(x.clone())?;
            f.create_tuple(vec![ns, s.multiply(s.clone())?])?.set_as_output()?;
            f.finalize()?;
            let g = c.create_graph()?;
            let s0 = g.input(scalar_type(INT32))?;
            let xs = g.input(vector_type(k, scalar_type(INT32)))?;
            g.iterate(f, s0, xs)?.set_as_output()?;
            Ok(g)
        }));
    }
    v.push(mk("mixed multiply (OT)", "MixedMul", |c| {
        let g = c.create_graph()?;
        let x = g.input(array_type(vec![2], INT32))?;
        let b = g.input(array_type(vec![2], BIT))?;
        x.mixed_multiply(b)?.set_as_output()?;
        Ok(g)
    }));
    for scale in [2u128, 8, 10, 1 << 20] {
        v.push(mk(&format!("truncate {}", scale), "Truncate", move |c| {
            let g = c.create_graph()?;
            let x = g.input(array_type(vec![2], INT64))?;
            let y = g.input(array_type(vec![2], INT64))?;
            x.multiply(y)?.truncate(scale)?.truncate(scale)?.set_as_output()?;
            Ok(g)
        }));
    }
    v.push(mk("a2b then b2a then multiply", "A2B+B2A", |c| {
        let g = c.create_graph()?;
        let x = g.input(array_type(vec![2], INT32))?;
        let y = g.input(array_type(vec![2], INT32))?;
        let z = x.a2b()?.b2a(INT32)?;
        z.multiply(y.a2b()?.b2a(INT32)?)?.set_as_output()?;
        Ok(g)
    }));
    v.push(mk("apply private permutation-less: sort 4 rows", "Sort", |c| {
        let g = c.create_graph()?;
        let k = g.input(array_type(vec![4, 3], BIT))?;
        let p = g.input(array_type(vec![4], INT32))?;
        let t = g.create_named_tuple(vec![("key".to_string(), k), ("v".to_string(), p)])?;
        g.sort(t, "key".to_string())?.set_as_output()?;
        Ok(g)
    }));
    v
}

fn part_a(r: &Report) {
    let thorough = r.tier.thorough();
    let mut progs = c01::generated_programs(r);
    if !thorough {
        progs.retain(|p| p.outs.is_none());
    }
    progs.extend(super::curated::programs(thorough));
    progs.extend(special_programs());
    let outs_set: Vec<Vec<u8>> = if thorough {
        mpcx::output_subsets()
    } else {
        vec![vec![], vec![0], vec![1, 2]]
    };
    let mut tasks: Vec<(usize, Vec<Owner>)> = vec![];
    for (pi, p) in progs.iter().enumerate() {
        let n = match (p.build)() {
            Ok(c) => mpcx::input_types(&c).len(),
            Err(_) => continue,
        };
        r.count("programs", 1);
        let ovs = if thorough {
            // depth-1 and curated programs: all owner vectors; deeper recipes (class "A+B..."): the covering set
            p.owners.clone().unwrap_or_else(|| if p.class.contains('+') { c01::covering_owners(n) } else { mpcx::owner_vectors(n) })
        } else {
            p.owners.clone().map(|o| o.into_iter().take(4).collect()).unwrap_or_else(|| {
                let c = c01::covering_owners(n);
                c.into_iter().take(5).collect()
            })
        };
        for ov in ovs {
            tasks.push((pi, ov));
        }
    }
    tasks.par_iter().for_each(|(pi, ov)| {
        let p = &progs[*pi];
        let ctx = match (p.build)() {
            Ok(c) => c,
            Err(_) => return,
        };
        let src = serde_json::to_string(&ctx).unwrap();
        for outs in outs_set.iter() {
            for (mname, mode) in mpcx::modes() {
                let st = match stages(&ctx, ov, outs, &mode) {
                    Ok(s) => s,
                    Err(_) => {
                        r.count("compile_rejected", 1);
                        continue;
                    }
                };
                r.count("evaluations", 1);
                for (sname, c) in st.iter() {
                    match check_counters(c) {
                        Ok(n) => {
                            r.count("prf_nodes_inspected", n as u64);
                            if *sname == "after-optimize" {
                                if n >= 2 {
                                    r.count("contexts_with_2plus_prf_nodes", 1);
                                    r.distinct(hash_str(&serde_json::to_string(c).unwrap()));
                                }
                                if keys_with_several_masks(c) > 0 {
                                    r.count("contexts_with_key_used_for_several_masks", 1);
                                }
                            }
                        }
                        Err(m) => r.violation(
                            &format!("C04:A:{}:{}", p.class, sname),
                            &format!("{} | owners {:?} outs {:?} mode {} stage {}: {}", p.desc, ov.iter().map(|o| o.name()).collect::<Vec<_>>(), outs, mname, sname, m),
                            json!({"part": "A", "context": src, "owners": c01::owners_json(ov), "outs": outs, "mode": mname}),
                        ),
                    }
                }
                if r.want_sample() && *pi % 97 == 0 {
                    r.sample(json!({"part": "A", "program": p.desc, "owners": c01::owners_json(ov), "outs": outs, "mode": mname,
                        "prf_counters_after_optimize": prf_counters(&st[1].1).iter().map(|x| x.0).collect::<Vec<_>>()}));
                }
            }
        }
    });
}

// ---------------- part B: the optimiser on generated inlined graphs ----------------

#[derive(Clone, Copy, Debug, PartialEq)]
enum KeyKind {
    Random,
    Input,
    Constant,
    SentRandom,
}

#[derive(Clone, Copy, Debug, PartialEq)]
enum RNode {
    Prf(KeyKind, u64),
    PermPrf(KeyKind, u64),
    Random,
    RandomPerm,
    /// randomising operations that take an argument (all of them read the input x)
    CuckooPerm,
    Decompose,
}

#[derive(Clone, Copy, Debug, PartialEq)]
enum OutExpr {
    First,
    Last,
    SumAll,
    FirstMinusLast,
    XPlusFirst,
    TupleGetFirst,
    TupleGetLast,
    FirstTwice,
    Input,
}

struct BGraph {
    ctx: Context,
    rnodes: Vec<Node>,
}

fn build_b(rn: &[RNode], oe: OutExpr) -> ciphercore_base::errors::Result<BGraph> {
    let c = create_context()?;
    let g = c.create_graph()?;
    let t = array_type(vec![3], UINT64);
    let kt = array_type(vec![128], BIT);
    let x = g.input(t.clone())?;
    let key_in = g.input(kt.clone())?;
    let key_rand = g.random(kt.clone())?;
    let key_const = g.constant(kt.clone(), vals::pattern_value(&kt, &mut || 0x5A))?;
    let key_sent = g.random(kt.clone())?.nop()?;
    key_sent.add_annotation(NodeAnnotation::Send(0, 2))?;
    let key = |k: KeyKind| match k {
        KeyKind::Random => key_rand.clone(),
        KeyKind::Input => key_in.clone(),
        KeyKind::Constant => key_const.clone(),
        KeyKind::SentRandom => key_sent.clone(),
    };
    // rnodes: the randomising nodes themselves; uses: a value of type t derived from each (the node itself, or
    // the first component of DecomposeSwitchingMap's result)
    let mut rnodes = vec![];
    let mut uses = vec![];
    for r in rn {
        let n = match r {
            RNode::Prf(k, iv) => g.add_node(vec![key(*k)], vec![], Operation::PRF(*iv, t.clone()))?,
            RNode::PermPrf(k, iv) => g.add_node(vec![key(*k)], vec![], Operation::PermutationFromPRF(*iv, 3))?,
            RNode::Random => g.random(t.clone())?,
            RNode::RandomPerm => g.random_permutation(3)?,
            RNode::CuckooPerm => g.add_node(vec![x.clone()], vec![], Operation::CuckooToPermutation)?,
            RNode::Decompose => g.add_node(vec![x.clone()], vec![], Operation::DecomposeSwitchingMap(3))?,
        };
        uses.push(if matches!(r, RNode::Decompose) { n.tuple_get(0)? } else { n.clone() });
        rnodes.push(n);
    }
    let tracked = rnodes;
    let rnodes = uses;
    let first = rnodes[0].clone();
    let last = rnodes[rnodes.len() - 1].clone();
    let out = match oe {
        OutExpr::First => first,
        OutExpr::Last => last,
        OutExpr::SumAll => {
            let mut acc = x.clone();
            for n in rnodes.iter() {
                acc = acc.add(n.clone())?;
            }
            acc
        }
        OutExpr::FirstMinusLast => first.subtract(last)?,
        OutExpr::XPlusFirst => x.add(first)?,
        OutExpr::TupleGetFirst => g.create_tuple(rnodes.clone())?.tuple_get(0)?,
        OutExpr::TupleGetLast => g.create_tuple(rnodes.clone())?.tuple_get(rnodes.len() as u64 - 1)?,
        OutExpr::FirstTwice => first.add(first.clone())?.add(first.multiply(x.clone())?)?,
        OutExpr::Input => x.add(x.clone())?,
    };
    out.set_as_output()?;
    g.finalize()?;
    c.set_main_graph(g)?;
    c.finalize()?;
    Ok(BGraph { ctx: c, rnodes: tracked })
}

/// nodes the output value depends on. A getter applied directly to a tuple constructor depends only on the
/// selected component (the property allows dropping a randomising node "when nothing that reaches the output
/// depends on it"; tuple_get(create_tuple(a, b), 0) does not depend on b).
fn reachable_from_output(g: &Graph) -> HashSet<u64> {
    let mut seen = HashSet::new();
    let mut stack = vec![g.get_output_node().unwrap()];
    while let Some(n) = stack.pop() {
        if seen.insert(n.get_id()) {
            if let Operation::TupleGet(i) = n.get_operation() {
                let d = n.get_node_dependencies()[0].clone();
                if d.get_operation() == Operation::CreateTuple {
                    stack.push(d.get_node_dependencies()[i as usize].clone());
                    continue;
                }
            }
            for d in n.get_node_dependencies() {
                stack.push(d);
            }
        }
    }
    seen
}

fn check_b(rn: &[RNode], oe: OutExpr) -> Result<(bool, bool), (String, String)> {
    let b = match catch(|| build_b(rn, oe)) {
        Ok(Ok(b)) => b,
        _ => return Ok((false, false)), // not accepted by the builder
    };
    let ctx = b.ctx.clone();
    let opt = match catch(move || optimize_context(&ctx, SimpleEvaluator::new(Some([3u8; 16])).unwrap())) {
        Ok(Ok(o)) => o,
        Ok(Err(e)) => return Err(("optimize-error".into(), first_line(&e.to_string()))),
        Err(p) => return Err(("optimize-panic".into(), p)),
    };
    let g = b.ctx.get_main_graph().unwrap();
    let og = opt.get_context().get_main_graph().unwrap();
    let live = reachable_from_output(&g);
    // every original randomising / PRF node of the graph (the explicitly generated ones and the key Random nodes)
    let originals: Vec<Node> = g.get_nodes().into_iter().filter(|n| is_rand_op(&n.get_operation())).collect();
    let mut images: HashMap<u64, u64> = HashMap::new(); // image id -> original id
    let mut dropped = false;
    for n in originals.iter() {
        let needed = live.contains(&n.get_id());
        if !opt.mappings.contains_node(n) {
            if needed {
                return Err(("needed-node-unmapped".into(), format!("{} (node {}) reaches the output but has no image", n.get_operation(), n.get_id())));
            }
            dropped = true;
            continue;
        }
        let im = opt.mappings.get_node(n);
        if im.get_graph() != og {
            return Err(("image-in-wrong-graph".into(), format!("{}", n.get_operation())));
        }
        // is the image still part of the optimised graph's node list?
        if needed || true {
            if im.get_operation() != n.get_operation() {
                let kind = if matches!(im.get_operation(), Operation::Constant(_, _)) { "turned-into-constant" } else { "operation-changed" };
                if needed {
                    return Err((format!("{}:{}", kind, op_name(&n.get_operation())), format!("{} (node {}) maps to {}", n.get_operation(), n.get_id(), im.get_operation())));
                }
            }
        }
        if let Some(o) = images.insert(im.get_id(), n.get_id()) {
            if needed && im.get_operation() == n.get_operation() {
                return Err((format!("merged:{}", op_name(&n.get_operation())), format!("original nodes {} and {} both map to optimised node {} ({})", o, n.get_id(), im.get_id(), im.get_operation())));
            }
        }
    }
    // no randomising node in the optimised graph without a pre-image, none duplicated
    let image_ids: HashSet<u64> = images.keys().cloned().collect();
    for n in og.get_nodes() {
        if is_rand_op(&n.get_operation()) && !image_ids.contains(&n.get_id()) {
            return Err((format!("duplicated:{}", op_name(&n.get_operation())), format!("optimised node {} ({}) is not the image of any original node", n.get_id(), n.get_operation())));
        }
    }
    let _ = b.rnodes;
    Ok((true, dropped))
}

fn op_name(op: &Operation) -> String {
    format!("{}", op).split('(').next().unwrap_or("").to_string()
}

fn part_b(r: &Report) {
    let keys = [KeyKind::Random, KeyKind::Input, KeyKind::Constant, KeyKind::SentRandom];
    let mut menu: Vec<RNode> = vec![RNode::Random, RNode::RandomPerm];
    for k in keys {
        for iv in [1u64, 2] {
            menu.push(RNode::Prf(k, iv));
        }
        menu.push(RNode::PermPrf(k, 1));
    }
    menu.push(RNode::CuckooPerm);
    menu.push(RNode::Decompose);
    let outs = [
        OutExpr::First, OutExpr::Last, OutExpr::SumAll, OutExpr::FirstMinusLast, OutExpr::XPlusFirst,
        OutExpr::TupleGetFirst, OutExpr::TupleGetLast, OutExpr::FirstTwice, OutExpr::Input,
    ];
    let max_len = if r.tier.thorough() { 3 } else { 2 };
    let mut combos: Vec<Vec<RNode>> = vec![];
    for a in menu.iter() {
        combos.push(vec![*a]);
        for b in menu.iter() {
            combos.push(vec![*a, *b]);
            if max_len >= 3 {
                for c in menu.iter() {
                    combos.push(vec![*a, *b, *c]);
                }
            }
        }
    }
    let results: Vec<(usize, usize, Result<(bool, bool), (String, String)>)> = combos
        .par_iter()
        .enumerate()
        .flat_map(|(ci, rn)| {
            outs.iter().enumerate().map(|(oi, oe)| (ci, oi, check_b(rn, *oe))).collect::<Vec<_>>()
        })
        .collect();
    for (ci, oi, res) in results {
        r.count("evaluations", 1);
        match res {
            Ok((accepted, dropped)) => {
                if accepted {
                    r.count("optimizer_graphs", 1);
                    r.distinct_str(&format!("B{:?}{:?}", combos[ci], outs[oi]));
                    if dropped {
                        r.count("optimizer_graphs_with_dropped_random_node", 1);
                    }
                    if r.get("optimizer_graphs") % 400 == 1 {
                        r.sample(json!({"part": "B", "random_nodes": format!("{:?}", combos[ci]), "output": format!("{:?}", outs[oi])}));
                    }
                }
            }
            Err((kind, msg)) => r.violation(
                &format!("C04:B:{}", kind),
                &format!("optimize_context on graph with {:?}, output {:?}: {}", combos[ci], outs[oi], msg),
                json!({"part": "B", "rnodes": format!("{:?}", combos[ci]), "combo_index": ci, "out_index": oi, "max_len": max_len}),
            ),
        }
    }
}

// ---------------- part C: the numbering pass on graphs that already carry counters ----------------

/// one graph (or, with `two_graphs`, a callee and a caller) whose PRF-type nodes carry the given counters
fn build_c(kinds: &[bool], ivs: &[u64], two_graphs: bool) -> ciphercore_base::errors::Result<Context> {
    let c = create_context()?;
    let t = array_type(vec![2], UINT64);
    let split = if two_graphs { kinds.len() / 2 } else { 0 };
    let mut callee: Option<Graph> = None;
    if two_graphs {
        let f = c.create_graph()?;
        let key = f.input(array_type(vec![128], BIT))?;
        let mut outs = vec![];
        for i in 0..split {
            let op = if kinds[i] { Operation::PRF(ivs[i], t.clone()) } else { Operation::PermutationFromPRF(ivs[i], 2) };
            outs.push(f.add_node(vec![key.clone()], vec![], op)?);
        }
        f.create_tuple(outs)?.set_as_output()?;
        f.finalize()?;
        callee = Some(f);
    }
    let g = c.create_graph()?;
    let key = g.random(array_type(vec![128], BIT))?;
    let mut outs = vec![];
    if let Some(f) = callee {
        outs.push(g.call(f, vec![key.clone()])?);
    }
    for i in split..kinds.len() {
        let op = if kinds[i] { Operation::PRF(ivs[i], t.clone()) } else { Operation::PermutationFromPRF(ivs[i], 2) };
        outs.push(g.add_node(vec![key.clone()], vec![], op)?);
    }
    g.create_tuple(outs)?.set_as_output()?;
    g.finalize()?;
    c.set_main_graph(g)?;
    c.finalize()?;
    Ok(c)
}

fn check_c(kinds: &[bool], ivs: &[u64], two_graphs: bool) -> Result<bool, String> {
    let c = match catch(|| build_c(kinds, ivs, two_graphs)) {
        Ok(Ok(c)) => c,
        _ => return Ok(false),
    };
    let cc = c.clone();
    let u = match catch(move || uniquify_prf_id(cc)) {
        Ok(Ok(u)) => u.get_context(),
        Ok(Err(e)) => return Err(format!("uniquify_prf_id fails: {}", first_line(&e.to_string()))),
        Err(p) => return Err(format!("uniquify_prf_id panics: {}", p)),
    };
    let n = check_counters(&u)?;
    if n != kinds.len() {
        return Err(format!("{} PRF-type nodes before the numbering pass, {} after", kinds.len(), n));
    }
    Ok(true)
}

fn part_c(r: &Report) {
    let alpha: [u64; 6] = [0, 1, 2, 3, 4, 7];
    let max_n = if r.tier.thorough() { 5 } else { 4 };
    let mut cases: Vec<(Vec<bool>, Vec<u64>, bool)> = vec![];
    for n in 1..=max_n {
        let mut ivs = vec![0usize; n];
        loop {
            let v: Vec<u64> = ivs.iter().map(|i| alpha[*i]).collect();
            // node kinds: all PRF, all PermutationFromPRF, alternating (the counter space is shared by both kinds)
            for kp in 0..3 {
                let kinds: Vec<bool> = (0..n).map(|i| match kp { 0 => true, 1 => false, _ => i % 2 == 0 }).collect();
                cases.push((kinds.clone(), v.clone(), false));
                if n >= 2 && kp == 0 {
                    cases.push((kinds, v.clone(), true));
                }
            }
            let mut k = 0;
            while k < n {
                ivs[k] += 1;
                if ivs[k] < alpha.len() {
                    break;
                }
                ivs[k] = 0;
                k += 1;
            }
            if k == n {
                break;
            }
        }
    }
    let results: Vec<Result<bool, String>> = cases.par_iter().map(|(k, v, t)| check_c(k, v, *t)).collect();
    for (i, res) in results.into_iter().enumerate() {
        r.count("evaluations", 1);
        match res {
            Ok(true) => {
                r.count("prenumbered_graphs", 1);
                r.distinct_str(&format!("C{:?}", cases[i]));
            }
            Ok(false) => r.count("prenumbered_graphs_rejected_by_builder", 1),
            Err(m) => r.violation(
                "C04:C:renumbering",
                &format!("uniquify_prf_id on a graph whose PRF-type nodes (PRF={:?}) carry the counters {:?}{}: {}", cases[i].0, cases[i].1, if cases[i].2 { " (first half in a called graph)" } else { "" }, m),
                json!({"part": "C", "kinds": cases[i].0, "ivs": cases[i].1, "two_graphs": cases[i].2}),
            ),
        }
    }
}

pub fn run(r: &Report) -> i32 {
    part_a(r);
    part_b(r);
    part_c(r);
    r.finish(
        "exploration",
        "part A: for every program of the C01 space (depth 1 + curated + protocols drawing several masks from one key: OT, both truncations, A2B/B2A, sort, Call/Iterate bodies inlined 1,2,5,17 times) x owner vectors x output subsets x 3 inline modes, the counters of all PRF/PermutationFromPRF nodes after prepare_for_mpc_evaluation and after the final optimize_context are pairwise distinct and non-zero. part B: every inlined graph with 1..2 (thorough 3) nodes from {Random, RandomPermutation, PRF(key,iv), PermutationFromPRF(key,iv), CuckooToPermutation(x), DecomposeSwitchingMap(x)} with key in {Random, Input, Constant, Random sent through an annotated NOP} x 9 output expressions (using all / some / none of them, through tuples, duplicated uses) is optimised; with the returned mapping every output-relevant original randomising node maps to a node with the identical operation, distinct originals map to distinct nodes, and the optimised graph has no randomising node without pre-image. distinct = distinct optimised contexts with >= 2 PRF nodes (A) and distinct generated graphs (B)",
        true,
        &["structural oracle; the semantic effect of optimisation is C06's subject"],
        &["evaluations", "prf_nodes_inspected", "contexts_with_2plus_prf_nodes", "contexts_with_key_used_for_several_masks", "optimizer_graphs", "optimizer_graphs_with_dropped_random_node", "prenumbered_graphs"],
    )
}

pub fn replay(_r: &Report, rec: &J) -> i32 {
    let case = &rec["case"];
    if case["part"] == "A" {
        let ctx: Context = serde_json::from_str(case["context"].as_str().unwrap()).unwrap();
        let owners = c01::owners_from_json(&case["owners"]);
        let outs: Vec<u8> = case["outs"].as_array().unwrap().iter().map(|x| x.as_u64().unwrap() as u8).collect();
        let mode = mpcx::modes().into_iter().find(|m| m.0 == case["mode"].as_str().unwrap()).unwrap().1;
        match stages(&ctx, &owners, &outs, &mode) {
            Ok(st) => {
                for (s, c) in st {
                    match check_counters(&c) {
                        Ok(n) => println!("{}: {} PRF nodes, counters distinct", s, n),
                        Err(m) => {
                            println!("{}: {}", s, m);
                            return 1;
                        }
                    }
                }
                0
            }
            Err(e) => {
                println!("compile: {}", e);
                0
            }
        }
    } else if case["part"] == "C" {
        let kinds: Vec<bool> = case["kinds"].as_array().unwrap().iter().map(|x| x.as_bool().unwrap()).collect();
        let ivs: Vec<u64> = case["ivs"].as_array().unwrap().iter().map(|x| x.as_u64().unwrap()).collect();
        match check_c(&kinds, &ivs, case["two_graphs"].as_bool().unwrap_or(false)) {
            Ok(_) => {
                println!("counters distinct after the numbering pass (violation does not reproduce)");
                0
            }
            Err(m) => {
                println!("{}", m);
                1
            }
        }
    } else {
        println!("part B case: {} - rerun the check to re-enumerate (combo_index {}, out_index {})", case["rnodes"], case["combo_index"], case["out_index"]);
        2
    }
}
