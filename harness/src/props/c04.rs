//! C04 - not implemented yet
use crate::common::Report;

pub fn run(_r: &Report) -> i32 {
    println!("MACHINERY-ERROR property=C04 check not implemented");
    2
}

pub fn replay(_r: &Report, _rec: &serde_json::Value) -> i32 {
    println!("MACHINERY-ERROR property=C04 replay not implemented");
    2
}
