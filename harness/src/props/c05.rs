//! C05 - secure truncation stays within its documented error.
//! Exhaustive on 8-bit types (all inputs of the documented range x all k x all 256 values of the protocol's
//! mask r, resp. all 256 values of the first input share for the general divisor), boundary-exhaustive on wider types.
use crate::common::{hash_str, Report};
use crate::exec::{new_eval, run_global, Oracle, Plan};
use crate::mpcx::{self, Owner};
use crate::vals::{self, st_bits, st_mask, st_signed, to_signed};
use ciphercore_base::data_types::{array_type, ScalarType, Type, INT128, INT16, INT32, INT64, INT8, UINT128, UINT16, UINT32, UINT64, UINT8};
use ciphercore_base::data_values::Value;
use ciphercore_base::graphs::{create_context, Context, Operation};
use ciphercore_base::inline::inline_ops::InlineMode;
use rayon::prelude::*;
use serde_json::{json, Value as J};

fn trunc_ctx(st: ScalarType, n: u64, scale: u128) -> Context {
    let c = create_context().unwrap();
    let g = c.create_graph().unwrap();
    let x = g.input(array_type(vec![n], st)).unwrap();
    x.truncate(scale).unwrap().set_as_output().unwrap();
    g.finalize().unwrap();
    c.set_main_graph(g).unwrap();
    c.finalize().unwrap();
    c
}

/// Scripted tape: the protocol's mask r (the PRF node keyed directly by an unsent Random key) gets `r` in every
/// element; every other PRF output is filled with a byte pattern.
struct Tape {
    r_idx: Option<usize>,
    r: u128,
    pattern: u8,
    counter: u8,
}
impl Oracle for Tape {
    fn prf(&mut self, _p: usize, idx: usize, _k: &[u8], _iv: u64, t: &Type) -> Option<Value> {
        if Some(idx) == self.r_idx {
            let st = t.get_scalar_type();
            let n = vals::num_elems(t);
            return Some(vals::arr_value(&vec![self.r; n], &st));
        }
        let p = self.pattern;
        match p {
            0 | 0xFF => Some(vals::pattern_value(t, &mut || p)),
            _ => {
                // position dependent pattern, different for each PRF node
                let mut c = self.counter.wrapping_mul(37).wrapping_add(p);
                self.counter = self.counter.wrapping_add(1);
                Some(vals::pattern_value(t, &mut || {
                    c = c.wrapping_mul(5).wrapping_add(113);
                    c
                }))
            }
        }
    }
}

/// index of the PRF node that draws r in a compiled single-truncation graph (key = Random node used directly)
fn find_r(plan: &Plan) -> Vec<usize> {
    plan.nodes
        .iter()
        .enumerate()
        .filter(|(_, n)| matches!(n.op, Operation::PRF(_, _)) && matches!(plan.nodes[n.deps[0]].op, Operation::Random(_)))
        .map(|(i, _)| i)
        .collect()
}

fn floor_div(x: i128, d: i128) -> i128 {
    let q = x / d;
    if (x % d != 0) && ((x < 0) != (d < 0)) {
        q - 1
    } else {
        q
    }
}

/// centered difference a - b modulo 2^w
fn cdiff(a: u128, b: u128, st: &ScalarType) -> i128 {
    let m = st_mask(st);
    let d = a.wrapping_sub(b) & m;
    let w = st_bits(st);
    if w == 128 {
        d as i128
    } else if d >> (w - 1) & 1 == 1 {
        d as i128 - (1i128 << w)
    } else {
        d as i128
    }
}

/// inputs of the documented range for 8-bit types: all of them
fn range8(st: &ScalarType) -> Vec<i128> {
    if st_signed(st) {
        (-64..64).collect()
    } else {
        (0..128).collect()
    }
}

fn wide_inputs(st: &ScalarType, k: u32) -> Vec<i128> {
    let w = st_bits(st);
    let (lo, hi): (i128, i128) = if st_signed(st) {
        (-(1i128 << (w - 2)), (1i128 << (w - 2)) - 1)
    } else {
        (0, ((1u128 << (w - 1)) - 1) as i128)
    };
    let p = 1i128 << k;
    let mut v = vec![lo, lo + 1, lo.saturating_add(p - 1), lo.saturating_add(p), lo.saturating_add(p).saturating_add(1), (-p).saturating_sub(1), -p, -p + 1, -1, 0, 1, p - 1, p, p + 1, p.saturating_mul(2).saturating_sub(1), p.saturating_mul(3).saturating_add(1), hi.saturating_sub(p), hi.saturating_sub(p - 1), hi - 1, hi,
        hi / 3, lo / 3, 0x5555_5555_5555_5555_5555_5555_5555_5555i128 & hi];
    v.retain(|x| *x >= lo && *x <= hi);
    v.sort();
    v.dedup();
    v
}

fn wide_r(st: &ScalarType, k: u32) -> Vec<u128> {
    let w = st_bits(st);
    let m = st_mask(st);
    let mut v = vec![0u128, 1, (1u128 << k) - 1, 1u128 << k, (1u128 << (w - 1)) - 1, 1u128 << (w - 1), m, m - 1,
        0x5555_5555_5555_5555_5555_5555_5555_5555 & m, 0xAAAA_AAAA_AAAA_AAAA_AAAA_AAAA_AAAA_AAAA & m, (m >> 1) ^ ((1u128 << k) - 1)];
    v.sort();
    v.dedup();
    v
}

struct Cfg {
    st: ScalarType,
    k: u32,
    owner: Owner,
    outs: Vec<u8>,
    inputs: Vec<i128>,
    rs: Vec<u128>,
    patterns: Vec<u8>,
    three: bool,
}

fn run_2k(r: &Report, cfg: &Cfg) {
    let n = cfg.inputs.len() as u64;
    let ctx = trunc_ctx(cfg.st, n, 1u128 << cfg.k);
    let t = array_type(vec![n], cfg.st);
    let compiled = match mpcx::compile(&ctx, &[cfg.owner], &cfg.outs, &InlineMode::Simple) {
        Ok(c) => c,
        Err(e) => {
            r.violation(&format!("C05:2k:compile:{}", cfg.st), &format!("compile failed: {}", e), json!({"kind": "2k-compile", "st": format!("{}", cfg.st), "k": cfg.k}));
            return;
        }
    };
    let plan = Plan::of_context(&compiled).unwrap();
    let public = cfg.owner == Owner::Public;
    let r_nodes = find_r(&plan);
    if !public && r_nodes.len() != 1 {
        println!("MACHINERY-ERROR C05: expected exactly one mask node r, found {}", r_nodes.len());
        std::process::exit(2);
    }
    let m = st_mask(&cfg.st);
    let xs: Vec<u128> = cfg.inputs.iter().map(|x| (*x as u128) & m).collect();
    let xv = vals::arr_value(&xs, &cfg.st);
    r.distinct(hash_str(&format!("2k{}{}{:?}{:?}", cfg.st, cfg.k, cfg.owner, cfg.outs)));
    let mut plus_one = vec![0u64; xs.len()];
    for pat in cfg.patterns.iter() {
        for rv in cfg.rs.iter() {
            let mut tape = Tape { r_idx: r_nodes.first().cloned(), r: *rv, pattern: *pat, counter: 0 };
            let mut sb = *pat;
            let mut share_bytes = || {
                sb = sb.wrapping_mul(13).wrapping_add(7);
                sb
            };
            let out: Result<Vec<u128>, String> = if !cfg.three {
                let gi = mpcx::global_inputs(&[t.clone()], &[cfg.owner], &[xv.clone()], &mut share_bytes);
                let mut ev = new_eval(3);
                match run_global(&plan, &gi, &mut ev, &mut tape) {
                    Ok(vs) => reveal(&vs[plan.output], &t, &cfg.outs),
                    Err((i, e)) => Err(format!("node {}: {}", i, e)),
                }
            } else {
                let mut junk = || 0xC3u8;
                let pi = mpcx::party_inputs(&[t.clone()], &[cfg.owner], &[xv.clone()], &mut share_bytes, &mut junk);
                let run = mpcx::eval_compiled_three(&plan, &pi, [3, 4, 5], &mut tape);
                r.count("three_party_runs", 1);
                three_reveal(&plan, &run, &t, &cfg.outs)
            };
            r.count("evaluations", xs.len() as u64);
            r.count("graph_executions", 1);
            let out = match out {
                Ok(o) => o,
                Err(e) => {
                    r.violation(&format!("C05:2k:exec-error:{}", if cfg.three { "three" } else { "global" }), &e,
                        case_json(cfg, *rv, *pat, None));
                    continue;
                }
            };
            for (i, x) in cfg.inputs.iter().enumerate() {
                let want = if public {
                    // plaintext truncation (toward zero for signed types)
                    ((*x / (1i128 << cfg.k)) as u128) & m
                } else {
                    (floor_div(*x, 1i128 << cfg.k) as u128) & m
                };
                let d = cdiff(out[i], want, &cfg.st);
                let ok = if public { d == 0 } else { d == 0 || d == 1 };
                if d == 1 {
                    plus_one[i] += 1;
                }
                if !ok {
                    let kind = if public { "public-not-exact" } else { "error-outside-{0,1}" };
                    r.violation(
                        &format!("C05:2k:{}:{}", kind, if st_signed(&cfg.st) { "signed" } else { "unsigned" }),
                        &format!("Truncate(2^{}) of {} {} (owner {}, outs {:?}, r={}, pattern {:#x}, {}): got {} want {}{}",
                            cfg.k, cfg.st, x, cfg.owner.name(), cfg.outs, rv, pat, if cfg.three { "three-party" } else { "global" },
                            to_signed(out[i], &cfg.st), to_signed(want, &cfg.st), if public { "" } else { " or +1" }),
                        case_json(cfg, *rv, *pat, Some(*x)),
                    );
                }
            }
        }
    }
    // documented bias (information only): over all values of r the "+1" outcome occurs (x mod 2^k) * |R| / 2^k times
    if !public && cfg.rs.len() == 256 && r.want_sample() {
        let i = cfg.inputs.len() / 2 + 1;
        r.sample(json!({"kind": "2k", "type": format!("{}", cfg.st), "k": cfg.k, "owner": cfg.owner.name(), "outs": cfg.outs,
            "input": cfg.inputs[i].to_string(), "plus_one_outcomes_over_all_r_and_patterns": plus_one[i],
            "documented": format!("(x mod 2^k)/2^k of {} runs = {}", 256 * cfg.patterns.len(), (cfg.inputs[i].rem_euclid(1 << cfg.k)) as u64 * 256 * cfg.patterns.len() as u64 >> cfg.k)}));
    }
}

fn case_json(cfg: &Cfg, rv: u128, pat: u8, x: Option<i128>) -> J {
    json!({"kind": "2k", "st": format!("{}", cfg.st), "k": cfg.k, "owner": cfg.owner.name(), "outs": cfg.outs,
        "inputs": cfg.inputs.iter().map(|x| x.to_string()).collect::<Vec<_>>(), "r": rv.to_string(), "pattern": pat, "three": cfg.three,
        "x": x.map(|v| v.to_string())})
}

fn reveal(out: &Value, t: &Type, outs: &[u8]) -> Result<Vec<u128>, String> {
    if outs.is_empty() {
        let s = out.to_vector().map_err(|e| e.to_string())?;
        let sum = vals::add_values(&vals::add_values(&s[0], &s[1], t).ok_or("bad share")?, &s[2], t).ok_or("bad share")?;
        vals::arr_elems(&sum, t).ok_or_else(|| "bad layout".to_string())
    } else {
        vals::arr_elems(out, t).ok_or_else(|| "bad layout".to_string())
    }
}

fn three_reveal(plan: &Plan, run: &crate::exec::ThreeRun, t: &Type, outs: &[u8]) -> Result<Vec<u128>, String> {
    let o = plan.output;
    if outs.is_empty() {
        let mut own = vec![];
        for p in 0..3 {
            let mine = run.vals[p][o].part(p).val().ok_or(format!("party {} cannot compute its share", p))?;
            let next = run.vals[p][o].part((p + 1) % 3).val().ok_or(format!("party {} cannot compute share {}", p, (p + 1) % 3))?;
            own.push((mine, next));
        }
        for p in 0..3 {
            if own[p].1 != own[(p + 1) % 3].0 {
                return Err(format!("party {}'s copy of share {} differs from its owner's", p, (p + 1) % 3));
            }
        }
        let sum = vals::add_values(&vals::add_values(&own[0].0, &own[1].0, t).unwrap(), &own[2].0, t).unwrap();
        vals::arr_elems(&sum, t).ok_or_else(|| "bad layout".to_string())
    } else {
        let mut res: Option<Vec<u128>> = None;
        for p in outs {
            let v = run.vals[*p as usize][o].val().ok_or(format!("output party {} cannot compute the output", p))?;
            let e = vals::arr_elems(&v, t).ok_or("bad layout")?;
            if let Some(prev) = &res {
                if *prev != e {
                    return Err("output parties hold different results".into());
                }
            }
            res = Some(e);
        }
        Ok(res.unwrap())
    }
}

/// General (non power of two) divisor on signed types: shared input, first share enumerated.
fn run_general(r: &Report, st: ScalarType, scale: u128, inputs: &[i128], s0s: &[u128], outs: &[u8], owner: Owner) {
    let n = inputs.len() as u64;
    let ctx = trunc_ctx(st, n, scale);
    let t = array_type(vec![n], st);
    let compiled = match mpcx::compile(&ctx, &[owner], outs, &InlineMode::Simple) {
        Ok(c) => c,
        Err(e) => {
            r.violation(&format!("C05:general:compile:{}", st), &format!("compile failed: {}", e), json!({"kind": "general-compile", "scale": scale.to_string()}));
            return;
        }
    };
    let plan = Plan::of_context(&compiled).unwrap();
    let m = st_mask(&st);
    let w = st_bits(&st);
    let xs: Vec<u128> = inputs.iter().map(|x| (*x as u128) & m).collect();
    let public = owner == Owner::Public;
    r.distinct(hash_str(&format!("gen{}{}{:?}{:?}", st, scale, owner, outs)));
    let mut wraps = vec![0u64; xs.len()];
    let modulus_over_scale = if w == 128 { (u128::MAX / scale) as f64 } else { ((1u128 << w) as f64) / (scale as f64) };
    for pat in [0u8, 0x6B] {
        for s0 in s0s.iter() {
            let mut tape = Tape { r_idx: None, r: 0, pattern: pat, counter: 0 };
            let gi: Vec<Value> = if owner == Owner::Shared {
                // shares: s0 (same in every element), s1 = pattern, s2 = x - s0 - s1
                let s1: Vec<u128> = (0..xs.len()).map(|i| (pat as u128).wrapping_mul(i as u128 + 3) & m).collect();
                let s2: Vec<u128> = xs.iter().zip(s1.iter()).map(|(x, b)| x.wrapping_sub(*s0).wrapping_sub(*b) & m).collect();
                vec![Value::from_vector(vec![vals::arr_value(&vec![*s0; xs.len()], &st), vals::arr_value(&s1, &st), vals::arr_value(&s2, &st)])]
            } else {
                vec![vals::arr_value(&xs, &st)]
            };
            let mut ev = new_eval(9u64.wrapping_add(*s0 as u64));
            let out = match run_global(&plan, &gi, &mut ev, &mut tape) {
                Ok(vs) => reveal(&vs[plan.output], &t, outs),
                Err((i, e)) => Err(format!("node {}: {}", i, e)),
            };
            r.count("evaluations", xs.len() as u64);
            r.count("graph_executions", 1);
            let out = match out {
                Ok(o) => o,
                Err(e) => {
                    r.violation("C05:general:exec-error", &e, json!({"kind": "general", "scale": scale.to_string(), "s0": s0.to_string()}));
                    continue;
                }
            };
            for (i, x) in inputs.iter().enumerate() {
                let q = ((*x / scale as i128) as u128) & m;
                let d = cdiff(out[i], q, &st);
                let normal = (-1..=1).contains(&d);
                // wrap-around form: T(a)+T(b) with a+b = x +- 2^w differs from (x +- 2^w)/scale by the three fractional parts, i.e. by less than 3
                let wrap = ((d as f64) - modulus_over_scale).abs() < 3.0 || ((d as f64) + modulus_over_scale).abs() < 3.0;
                if public {
                    if d != 0 {
                        r.violation("C05:general:public-not-exact", &format!("Truncate({}) of public {} {}: got {} want {}", scale, st, x, to_signed(out[i], &st), to_signed(q, &st)),
                            json!({"kind": "general", "scale": scale.to_string(), "x": x.to_string()}));
                    }
                    continue;
                }
                if !normal {
                    wraps[i] += 1;
                }
                if !(normal || wrap) {
                    r.violation(
                        &format!("C05:general:error-outside-documented:{}", st),
                        &format!("Truncate({}) of {} {} with first share {} (owner {}): got {} want {} +-1 (or the wrap-around form +-2^{}/{})",
                            scale, st, x, s0, owner.name(), to_signed(out[i], &st), to_signed(q, &st), w, scale),
                        json!({"kind": "general", "st": format!("{}", st), "scale": scale.to_string(), "x": x.to_string(), "s0": s0.to_string(), "pattern": pat, "owner": owner.name(), "outs": outs,
                               "inputs": inputs.iter().map(|x| x.to_string()).collect::<Vec<_>>()}),
                    );
                }
            }
        }
    }
    // documented probability of the wrap-around event: (|x|-1)/2^w for x<0, (x+1)/2^w for x>=0; with the first share
    // enumerated over all 2^w values and 2 patterns this is a count bound
    if owner == Owner::Shared && s0s.len() == 256 && w == 8 {
        for (i, x) in inputs.iter().enumerate() {
            let bound = 2 * (x.unsigned_abs() as u64 + 1);
            r.count("wraparound_events", wraps[i]);
            if wraps[i] > bound {
                r.violation(
                    "C05:general:wraparound-more-frequent-than-documented",
                    &format!("Truncate({}) of i8 {}: wrap-around form on {} of 512 (share, pattern) tapes, documented at most {}", scale, x, wraps[i], bound),
                    json!({"kind": "general-count", "scale": scale.to_string(), "x": x.to_string()}),
                );
            }
        }
    }
}

pub fn run(r: &Report) -> i32 {
    let thorough = r.tier.thorough();
    // ---- power of two, 8-bit exhaustive ----
    let mut cfgs: Vec<Cfg> = vec![];
    let all_r: Vec<u128> = (0..256).collect();
    for st in [INT8, UINT8] {
        let ks: Vec<u32> = (1..=6).collect();
        for k in ks {
            let confs: Vec<(Owner, Vec<u8>, bool)> = if thorough {
                let mut v = vec![];
                for o in [Owner::P(0), Owner::P(1), Owner::P(2), Owner::Shared] {
                    for outs in [vec![0u8], vec![0, 1, 2], vec![]] {
                        v.push((o, outs.clone(), false));
                    }
                }
                v.push((Owner::P(1), vec![2], true));
                v.push((Owner::Shared, vec![], true));
                v.push((Owner::P(2), vec![0, 1], true));
                v
            } else {
                vec![(Owner::P(0), vec![1], false), (Owner::Shared, vec![], false), (Owner::P(2), vec![0, 1, 2], false), (Owner::P(1), vec![0], false), (Owner::P(1), vec![], true), (Owner::Shared, vec![2], true)]
            };
            for (o, outs, three) in confs {
                cfgs.push(Cfg { st, k, owner: o, outs, inputs: range8(&st), rs: all_r.clone(), patterns: if three { vec![0] } else if thorough { vec![0, 0xFF, 0x35, 0x9C] } else { vec![0, 0x35, 0xFF] }, three });
            }
            cfgs.push(Cfg { st, k, owner: Owner::Public, outs: vec![0], inputs: if st_signed(&st) { (-128..128).collect() } else { (0..256).collect() }, rs: vec![0], patterns: vec![0], three: false });
        }
    }
    // ---- power of two, wider types, boundary alphabets ----
    let wide: Vec<ScalarType> = if thorough { vec![INT16, UINT16, INT32, UINT32, INT64, UINT64, INT128, UINT128] } else { vec![INT16, UINT32, INT64, UINT128] };
    for st in wide {
        let w = st_bits(&st);
        let ks: Vec<u32> = if thorough { (1..=w - 2).collect() } else { vec![1, 2, w / 2 - 1, w / 2, w - 3, w - 2] };
        for k in ks {
            cfgs.push(Cfg { st, k, owner: Owner::P(0), outs: vec![1], inputs: wide_inputs(&st, k), rs: wide_r(&st, k), patterns: vec![0, 0x35], three: false });
            if thorough {
                cfgs.push(Cfg { st, k, owner: Owner::Shared, outs: vec![], inputs: wide_inputs(&st, k), rs: wide_r(&st, k), patterns: vec![0xFF], three: false });
            }
            cfgs.push(Cfg { st, k, owner: Owner::Public, outs: vec![0], inputs: wide_inputs(&st, k), rs: vec![0], patterns: vec![0], three: false });
        }
    }
    r.count("configurations_2k", cfgs.len() as u64);
    cfgs.par_iter().for_each(|c| run_2k(r, c));

    // ---- general divisor ----
    let scales8: Vec<u128> = if thorough { (3..=127).filter(|s: &u128| !s.is_power_of_two()).collect() } else { vec![3, 5, 10, 100] };
    let all_s0: Vec<u128> = (0..256).collect();
    let in8: Vec<i128> = (-64..64).collect();
    scales8.par_iter().for_each(|s| {
        run_general(r, INT8, *s, &in8, &all_s0, &[0], Owner::Shared);
        run_general(r, INT8, *s, &(-128..128).collect::<Vec<i128>>(), &[0], &[0], Owner::Public);
    });
    r.count("configurations_general", scales8.len() as u64 * 2);
    let wide_scales: Vec<(ScalarType, u128)> = vec![(INT16, 3), (INT16, 1000), (INT32, 10), (INT32, 1_000_003), (INT64, 3), (INT64, 10_000_000_007), (INT128, 1_000_000_007), (INT128, 3)];
    wide_scales.par_iter().for_each(|(st, s)| {
        let small: Vec<i128> = vec![-1000, -(*s as i128) - 1, -(*s as i128), -(*s as i128) + 1, -2, -1, 0, 1, 2, *s as i128 - 1, *s as i128, *s as i128 + 1, 1000, 12345];
        let w = st_bits(st);
        let lim = 1i128 << (w.min(120) - 2);
        let small: Vec<i128> = small.into_iter().filter(|x| x.abs() < lim).collect();
        let m = st_mask(st);
        let s0s: Vec<u128> = vec![0, 1, m, m >> 1, (m >> 1) + 1, 12345 & m, m - 7, m / 3, (m / 3) * 2];
        for o in [Owner::Shared, Owner::P(1)] {
            run_general(r, *st, *s, &small, &s0s, &[2], o);
        }
        run_general(r, *st, *s, &small, &[0], &[2], Owner::Public);
    });
    r.finish(
        "exploration",
        "power-of-two divisor: i8/u8 - all inputs of the documented range x k x all 256 values of the protocol mask r (scripted PRF entry) x byte patterns for the other PRF entries x owner/output configurations, global and three-party execution, oracle result - floor(x/2^k) in {0,1}; wider types (16..128 bit) - boundary alphabets for inputs and r, k from 1 to w-2. general divisor: i8 - all inputs x all 256 values of the first input share x 2 patterns x scales, oracle q+{-1,0,1} or the documented wrap-around form, and its frequency <= documented; wider types boundary alphabets. public inputs: exact. evaluations = (input element, tape) pairs; distinct = (type, divisor, owner, outputs) configurations",
        true,
        &["the scripted PRF answers model the PRF as an arbitrary function (every value of the mask r is enumerated for 8-bit types)", "wider types are boundary-exhaustive only"],
        &["evaluations", "graph_executions", "three_party_runs", "configurations_2k", "configurations_general"],
    )
}

pub fn replay(_r: &Report, rec: &J) -> i32 {
    let case = &rec["case"];
    let rr = Report::new("C05", crate::common::Tier::Quick, 0);
    let parse_st = |s: &str| -> ScalarType {
        for st in vals::ALL_ST {
            if format!("{}", st) == s {
                return st;
            }
        }
        INT8
    };
    let owner = |s: &str| match s {
        "P0" => Owner::P(0),
        "P1" => Owner::P(1),
        "P2" => Owner::P(2),
        "pub" => Owner::Public,
        _ => Owner::Shared,
    };
    let outs: Vec<u8> = case["outs"].as_array().map(|a| a.iter().map(|x| x.as_u64().unwrap() as u8).collect()).unwrap_or_default();
    let inputs: Vec<i128> = case["inputs"].as_array().map(|a| a.iter().map(|x| x.as_str().unwrap().parse().unwrap()).collect()).unwrap_or_default();
    match case["kind"].as_str().unwrap_or("") {
        "2k" => {
            let cfg = Cfg {
                st: parse_st(case["st"].as_str().unwrap()),
                k: case["k"].as_u64().unwrap() as u32,
                owner: owner(case["owner"].as_str().unwrap()),
                outs,
                inputs,
                rs: vec![case["r"].as_str().unwrap().parse().unwrap()],
                patterns: vec![case["pattern"].as_u64().unwrap() as u8],
                three: case["three"].as_bool().unwrap_or(false),
            };
            run_2k(&rr, &cfg);
        }
        "general" => {
            let st = parse_st(case["st"].as_str().unwrap_or("i8"));
            run_general(&rr, st, case["scale"].as_str().unwrap().parse().unwrap(), &inputs, &[case["s0"].as_str().unwrap().parse().unwrap()], &outs, owner(case["owner"].as_str().unwrap_or("shared")));
        }
        _ => {
            println!("this case kind is re-established by re-running the check");
            return 2;
        }
    }
    if rr.n_violation_signatures() > 0 {
        println!("violation reproduces");
        1
    } else {
        println!("violation does not reproduce");
        0
    }
}
