//! C15 - PRF and PRNG are deterministic, in-domain and unbiased.
//!
//! Parts (all on the real code):
//!  * history  (model checking, in-crate exhaustive exploration of the call-history tree): two evaluator
//!    instances, every history of PRF / PermutationFromPRF / Random / RandomPermutation calls up to the depth
//!    bound; every returned value is compared with a reference table filled by a fresh evaluator per call;
//!  * validity: types x counters 0..4096 x 3 keys: valid encodings, true permutations, distinct inputs give
//!    distinct outputs for types of >= 64 bits and never reuse a 16-byte stream block; PRF(key, 0, .) equals the documented AES-CTR stream of a PRNG
//!    seeded with the key (two different buffer schedules: 64->512 growth vs 512 fixed);
//!  * u32range: the PRF session's bounded sampler on ALL raw values of the first draw (tape hook);
//!  * u64range: PRNG::get_random_in_range around the exact acceptance bound (tape hook);
//!  * shuffle : RandomPermutation on all choice tuples (tape hook): a bijection onto the n! permutations;
//!  * valtape : value samplers on all tapes for small bit types: exactly uniform over valid encodings;
//!  * stream  : two generators from one seed replay each other; every output is predicted from the raw byte
//!    stream of a third generator (all call sequences of length <= 3).
use crate::common::{catch, hash_bytes, Report, SplitMix};
use crate::vals;
use ciphercore_base::data_types::{
    array_type, get_size_in_bits, get_types_vector, named_tuple_type, scalar_type, tuple_type, vector_type, Type,
    BIT, INT32, UINT64, UINT8,
};
use ciphercore_base::data_values::Value;
use ciphercore_base::evaluators::simple_evaluator::SimpleEvaluator;
use ciphercore_base::evaluators::Evaluator;
use ciphercore_base::graphs::{create_context, Context, Node};
use ciphercore_base::random::{
    verif_prf_value_from_split_tape, verif_prf_value_from_tape, verif_u32_in_range_from_split_tape, verif_u32_in_range_from_tape, PRNG,
};
use rayon::prelude::*;
use serde_json::{json, Value as J};
use std::collections::{HashMap, HashSet};
use std::sync::atomic::{AtomicBool, Ordering};

#[derive(Clone, Debug)]
struct Viol {
    sig: String,
    what: String,
    case: J,
}

fn first_line(s: &str) -> String {
    s.lines().next().unwrap_or("").chars().take(200).collect()
}

fn tclass(t: &Type) -> String {
    match t {
        Type::Scalar(st) => format!("scalar-{}", st),
        Type::Array(_, st) => format!("array-{}", st),
        Type::Tuple(_) => "tuple".to_string(),
        Type::Vector(_, _) => "vector".to_string(),
        Type::NamedTuple(_) => "named-tuple".to_string(),
    }
}

fn keys() -> Vec<Vec<u8>> {
    // K2 differs from K1 only in the last bit, K3 only in the first bit
    let k1: Vec<u8> = (0..16u8).map(|i| 0x10 + i * 7).collect();
    let mut k2 = k1.clone();
    k2[15] ^= 0x80;
    let mut k3 = k1.clone();
    k3[0] ^= 0x01;
    vec![k1, k2, k3]
}

fn key_type() -> Type {
    array_type(vec![128], BIT)
}

fn seed_of(i: usize, rseed: u64) -> [u8; 16] {
    let mut s = [0u8; 16];
    s.copy_from_slice(&SplitMix(rseed ^ 0xC15 ^ ((i as u64 + 1) << 32)).bytes(16));
    s
}

fn eval_node(ev: &mut SimpleEvaluator, node: &Node, deps: Vec<Value>) -> Result<Value, String> {
    let n = node.clone();
    match catch(|| ev.evaluate_node(n, deps)) {
        Ok(Ok(v)) => Ok(v),
        Ok(Err(e)) => Err(format!("error: {}", first_line(&e.to_string()))),
        Err(p) => Err(format!("panic: {}", first_line(&p))),
    }
}

fn is_permutation(v: &Value, n: u64) -> Result<Vec<u64>, String> {
    let t = array_type(vec![n], UINT64);
    if !vals::layout_ok(v, &t) {
        return Err(format!("value does not have the layout of u64[{}]", n));
    }
    let e = vals::arr_elems(v, &t).ok_or("cannot decode".to_string())?;
    let mut seen = vec![false; n as usize];
    for x in e.iter() {
        if *x >= n as u128 {
            return Err(format!("element {} out of range 0..{}", x, n));
        }
        if seen[*x as usize] {
            return Err(format!("element {} occurs twice", x));
        }
        seen[*x as usize] = true;
    }
    Ok(e.iter().map(|x| *x as u64).collect())
}

// ---------------------------------------------------------------------------------------------
// part 1: call-history exploration

fn history_types() -> Vec<Type> {
    vec![
        scalar_type(BIT),
        array_type(vec![3], UINT8),
        array_type(vec![70], UINT64),
        tuple_type(vec![scalar_type(BIT), scalar_type(INT32)]),
        vector_type(2, tuple_type(vec![array_type(vec![5], BIT), scalar_type(UINT64)])),
    ]
}
const HISTORY_PERM_N: [u64; 4] = [1, 2, 5, 300];
const HISTORY_COUNTERS: [u64; 3] = [1, 2, 3];

#[derive(Clone, Copy, PartialEq, Eq, Debug)]
enum CallKind {
    Prf,
    PermPrf,
    Random,
    RandomPerm,
}
impl CallKind {
    fn name(&self) -> &'static str {
        match self {
            CallKind::Prf => "PRF",
            CallKind::PermPrf => "PermutationFromPRF",
            CallKind::Random => "Random",
            CallKind::RandomPerm => "RandomPermutation",
        }
    }
}

struct Call {
    label: String,
    kind: CallKind,
    node: Node,
    key: Option<usize>,
    counter: u64,
    ty: Type,
    /// index among the PRNG-consuming calls (Random*), else usize::MAX
    ridx: usize,
}

struct World {
    _ctx: Context,
    keys: Vec<Value>,
    calls: Vec<Call>,
    /// value every PRF / PermutationFromPRF call must return (computed by a fresh evaluator per call)
    reference: Vec<Option<Value>>,
    /// (instance, sequence of ridx) -> value the last Random* call of the sequence must return
    rand_oracle: HashMap<(usize, Vec<u8>), Value>,
    seeds: [[u8; 16]; 2],
}

impl World {
    fn new(rseed: u64, depth: usize, core: bool) -> Result<World, String> {
        let es = |e: ciphercore_base::errors::Error| e.to_string();
        let c = create_context().map_err(es)?;
        let g = c.create_graph().map_err(es)?;
        let k = g.input(key_type()).map_err(es)?;
        let mut calls = vec![];
        for ki in 0..2usize {
            for ctr in HISTORY_COUNTERS.iter() {
                for t in history_types().iter() {
                    calls.push(Call {
                        label: format!("PRF(K{},{},{})", ki + 1, ctr, t),
                        kind: CallKind::Prf,
                        node: k.prf(*ctr, t.clone()).map_err(es)?,
                        key: Some(ki),
                        counter: *ctr,
                        ty: t.clone(),
                        ridx: usize::MAX,
                    });
                }
            }
        }
        for ki in 0..2usize {
            for ctr in HISTORY_COUNTERS.iter() {
                for n in HISTORY_PERM_N.iter() {
                    calls.push(Call {
                        label: format!("PermutationFromPRF(K{},{},{})", ki + 1, ctr, n),
                        kind: CallKind::PermPrf,
                        node: k.permutation_from_prf(*ctr, *n).map_err(es)?,
                        key: Some(ki),
                        counter: *ctr,
                        ty: array_type(vec![*n], UINT64),
                        ridx: usize::MAX,
                    });
                }
            }
        }
        let rt = array_type(vec![3], UINT8);
        calls.push(Call {
            label: format!("Random({})", rt),
            kind: CallKind::Random,
            node: g.random(rt.clone()).map_err(es)?,
            key: None,
            counter: 0,
            ty: rt,
            ridx: 0,
        });
        calls.push(Call {
            label: "RandomPermutation(5)".to_string(),
            kind: CallKind::RandomPerm,
            node: g.random_permutation(5).map_err(es)?,
            key: None,
            counter: 0,
            ty: array_type(vec![5], UINT64),
            ridx: 1,
        });
        if core {
            // the reduced alphabet used for the deepest level
            calls.retain(|c| match c.kind {
                CallKind::Prf => c.counter <= 2 && c.ty != array_type(vec![3], UINT8),
                CallKind::PermPrf => c.counter == 1 && (c.ty.get_shape()[0] == 5 || c.ty.get_shape()[0] == 300),
                _ => true,
            });
        }
        g.set_output_node(calls[0].node.clone()).map_err(es)?;
        g.finalize().map_err(es)?;
        c.set_main_graph(g).map_err(es)?;
        c.finalize().map_err(es)?;
        let keys: Vec<Value> = keys().into_iter().map(Value::from_bytes).collect();
        let seeds = [seed_of(0, rseed), seed_of(1, rseed)];
        let mut w = World { _ctx: c, keys, calls, reference: vec![], rand_oracle: HashMap::new(), seeds };
        // reference table: a fresh evaluator (its own seed) per call
        for i in 0..w.calls.len() {
            let c = &w.calls[i];
            if let Some(ki) = c.key {
                let mut ev = SimpleEvaluator::new(Some([0x5a; 16])).map_err(es)?;
                let v = eval_node(&mut ev, &c.node, vec![w.keys[ki].clone()])
                    .map_err(|e| format!("reference call {} failed: {}", c.label, e))?;
                w.reference.push(Some(v));
            } else {
                w.reference.push(None);
            }
        }
        // oracle for the evaluator's own generator: the same seed, only the Random* calls of the history
        let rcalls: Vec<usize> = (0..w.calls.len()).filter(|i| w.calls[*i].ridx != usize::MAX).collect();
        for inst in 0..2usize {
            let mut seqs: Vec<Vec<u8>> = vec![vec![]];
            for _ in 0..depth {
                let mut next = vec![];
                for s in seqs.iter() {
                    for r in 0..rcalls.len() {
                        let mut s2 = s.clone();
                        s2.push(r as u8);
                        next.push(s2);
                    }
                }
                for s in next.iter() {
                    let mut ev = SimpleEvaluator::new(Some(w.seeds[inst])).map_err(es)?;
                    let mut last = None;
                    for r in s.iter() {
                        let ci = rcalls[*r as usize];
                        last = Some(eval_node(&mut ev, &w.calls[ci].node, vec![])?);
                    }
                    w.rand_oracle.insert((inst, s.clone()), last.unwrap());
                }
                seqs = next;
            }
        }
        Ok(w)
    }

    fn table_hash(&self) -> u64 {
        let mut b = vec![];
        for v in self.reference.iter().flatten() {
            vals::key(v, &mut b);
        }
        let mut ks: Vec<&(usize, Vec<u8>)> = self.rand_oracle.keys().collect();
        ks.sort();
        for k in ks {
            vals::key(&self.rand_oracle[k], &mut b);
        }
        hash_bytes(&b)
    }

    /// Runs one history on two fresh evaluator instances; returns the first deviation.
    fn run_history(&self, actions: &[usize], verbose: bool) -> Option<Viol> {
        let nc = self.calls.len();
        let mut evs = [
            SimpleEvaluator::new(Some(self.seeds[0])).unwrap(),
            SimpleEvaluator::new(Some(self.seeds[1])).unwrap(),
        ];
        let mut rseq: [Vec<u8>; 2] = [vec![], vec![]];
        for (step, a) in actions.iter().enumerate() {
            let inst = a / nc;
            let c = &self.calls[a % nc];
            let deps = match c.key {
                Some(k) => vec![self.keys[k].clone()],
                None => vec![],
            };
            let got = eval_node(&mut evs[inst], &c.node, deps);
            let expected = match c.key {
                Some(_) => self.reference[a % nc].as_ref().unwrap(),
                None => {
                    rseq[inst].push(c.ridx as u8);
                    &self.rand_oracle[&(inst, rseq[inst].clone())]
                }
            };
            let case = || {
                json!({"part": "history", "step": step,
                   "actions": actions.iter().map(|x| json!([x / nc, self.calls[x % nc].label])).collect::<Vec<_>>()})
            };
            match got {
                Ok(v) => {
                    if verbose {
                        println!(
                            "  step {} instance {} {}: expected {} observed {}",
                            step,
                            inst,
                            c.label,
                            vals::show(expected, &c.ty),
                            vals::show(&v, &c.ty)
                        );
                    }
                    if &v != expected {
                        return Some(Viol {
                            sig: format!("C15:history:{}-depends-on-history", c.kind.name()),
                            what: format!(
                                "{} in evaluator instance {} at step {} of the history returns {} but {} returns {}",
                                c.label,
                                inst,
                                step,
                                vals::show(&v, &c.ty),
                                if c.key.is_some() { "a fresh evaluator" } else { "the same seed without the interleaved calls" },
                                vals::show(expected, &c.ty)
                            ),
                            case: case(),
                        });
                    }
                }
                Err(e) => {
                    return Some(Viol {
                        sig: format!("C15:history:{}-fails", c.kind.name()),
                        what: format!("{} in instance {} at step {} fails: {}", c.label, inst, step, e),
                        case: case(),
                    })
                }
            }
        }
        None
    }
}

fn pow_sum(a: u64, from: u32, to: u32) -> u64 {
    (from..=to).map(|k| a.pow(k)).sum()
}

fn history_part(r: &Report) {
    // every history over the full alphabet up to depth 3; thorough: also the reduced alphabet up to depth 4
    explore(r, false, 3);
    if r.tier.thorough() {
        explore(r, true, 4);
    }
}

fn explore(r: &Report, core: bool, depth: usize) {
    let t_start = r.elapsed();
    let budget_s: f64 = if r.tier.thorough() { 900.0 } else { 240.0 };
    let main = match World::new(r.seed, depth, core) {
        Ok(w) => w,
        Err(e) => {
            r.violation("C15:history:setup", &format!("cannot build the call alphabet / reference table: {}", e), json!({"part": "history-setup"}));
            return;
        }
    };
    let nc = main.calls.len();
    let a = 2 * nc;
    let main_hash = main.table_hash();
    // distinct (key, counter) -> distinct values for types of >= 64 bits (reference table)
    for i in 0..nc {
        for j in (i + 1)..nc {
            let (ci, cj) = (&main.calls[i], &main.calls[j]);
            if ci.key.is_none() || cj.key.is_none() || ci.kind != cj.kind || ci.ty != cj.ty {
                continue;
            }
            let bits = if ci.kind == CallKind::PermPrf {
                if ci.ty.get_shape()[0] >= 64 { 64 } else { 0 }
            } else {
                get_size_in_bits(ci.ty.clone()).unwrap_or(0)
            };
            if bits < 64 {
                continue;
            }
            r.count("reference_pairs_compared", 1);
            if main.reference[i] == main.reference[j] {
                r.violation(
                    &format!("C15:history:distinct-inputs-collide:{}", ci.kind.name()),
                    &format!("{} and {} return the same value", ci.label, cj.label),
                    json!({"part": "history", "step": 1, "actions": [[0, ci.label], [0, cj.label]], "collide": true}),
                );
            }
        }
    }
    // partition: first two actions
    let prefix_len = depth.min(2);
    let n_chunks = (a as u64).pow(prefix_len as u32);
    let rest = depth - prefix_len;
    let leaves_per_chunk = (a as u64).pow(rest as u32);
    let capped = AtomicBool::new(false);
    let rseed = r.seed;
    let results: Vec<(u64, Option<Viol>, bool)> = (0..n_chunks)
        .into_par_iter()
        .map_init(
            || World::new(rseed, depth, core).ok(),
            |w, chunk| {
                let w = match w {
                    Some(w) => w,
                    None => return (0, None, false),
                };
                if r.elapsed() - t_start > budget_s {
                    capped.store(true, Ordering::Relaxed);
                    return (0, None, true);
                }
                let consistent = w.table_hash() == main_hash;
                let mut actions = vec![0usize; depth];
                let mut c = chunk;
                for i in (0..prefix_len).rev() {
                    actions[i] = (c % a as u64) as usize;
                    c /= a as u64;
                }
                let mut first: Option<Viol> = None;
                let mut n = 0u64;
                for leaf in 0..leaves_per_chunk {
                    let mut l = leaf;
                    for i in (prefix_len..depth).rev() {
                        actions[i] = (l % a as u64) as usize;
                        l /= a as u64;
                    }
                    n += 1;
                    if let Some(v) = w.run_history(&actions, false) {
                        if first.is_none() {
                            first = Some(v);
                        }
                    }
                }
                (n, first, consistent)
            },
        )
        .collect();
    let mut leaves = 0u64;
    for (n, v, consistent) in results.into_iter() {
        leaves += n;
        if n > 0 && !consistent {
            r.violation(
                "C15:history:reference-table-differs-between-contexts",
                "the reference table (fresh evaluator per call) differs between two identically built contexts",
                json!({"part": "history-setup"}),
            );
        }
        if let Some(v) = v {
            r.violation(&v.sig, &v.what, v.case);
        }
    }
    if capped.load(Ordering::Relaxed) {
        r.cap_hit(&format!("history exploration stopped by its time budget of {} s at depth {}", budget_s, depth));
    }
    let full = leaves == (a as u64).pow(depth as u32);
    r.extra(
        if core { "history_reduced_alphabet" } else { "history_full_alphabet" },
        json!({"depth": depth, "calls": nc, "actions_per_step": a, "histories_of_full_depth": leaves}),
    );
    r.count("history_leaves_run", leaves);
    r.count("history_calls_executed", leaves * depth as u64);
    r.count("evaluations", leaves * depth as u64);
    if full {
        r.count("states", pow_sum(a as u64, 0, depth as u32));
        r.count("transitions", pow_sum(a as u64, 1, depth as u32));
    } else {
        r.count("states", leaves);
        r.count("transitions", leaves * depth as u64);
    }
    r.count("traces_validated_against_impl", leaves);
    for c in main.calls.iter() {
        r.distinct(hash_bytes(format!("history-call|{}", c.label).as_bytes()));
    }
    r.sample(json!({"part": "history", "depth": depth, "actions_per_step": a, "calls": nc,
                    "first_calls": main.calls.iter().take(3).map(|c| c.label.clone()).collect::<Vec<_>>()}));
}

// ---------------------------------------------------------------------------------------------
// part 2: validity over counters x keys x types

fn validity_types() -> Vec<Type> {
    let mut ts = history_types();
    for st in vals::ALL_ST.iter() {
        ts.push(scalar_type(*st));
    }
    for n in [1u64, 7, 8, 9, 63, 65] {
        ts.push(array_type(vec![n], BIT));
    }
    ts.push(array_type(vec![2, 5], BIT));
    ts.push(array_type(vec![5], INT32));
    ts.push(named_tuple_type(vec![
        ("a".to_string(), array_type(vec![3], BIT)),
        ("b".to_string(), vector_type(2, array_type(vec![9], BIT))),
    ]));
    ts.push(tuple_type(vec![]));
    ts
}
const VALIDITY_PERM_N: [u64; 10] = [1, 2, 3, 5, 16, 17, 255, 256, 257, 300];
const N_COUNTERS: u64 = 4096;

struct ValOut {
    viols: Vec<Viol>,
    calls: u64,
    padded: u64,
    distinct_checked: u64,
    blocks_checked: u64,
}

fn has_padding_bits(t: &Type) -> bool {
    match t {
        Type::Scalar(st) => *st == BIT,
        Type::Array(_, st) => *st == BIT && vals::num_elems(t) % 8 != 0,
        _ => get_types_vector(t.clone()).map(|ts| ts.iter().any(|x| has_padding_bits(x))).unwrap_or(false),
    }
}

/// item: Ok(type) = PRF with that output type, Err(n) = PermutationFromPRF of length n
fn validity_item(item: &Result<Type, u64>, only: Option<(usize, u64)>, verbose: bool) -> ValOut {
    let mut out = ValOut { viols: vec![], calls: 0, padded: 0, distinct_checked: 0, blocks_checked: 0 };
    let (label, ty, kindname) = match item {
        Ok(t) => (format!("PRF(.,.,{})", t), t.clone(), "prf"),
        Err(n) => (format!("PermutationFromPRF(.,.,{})", n), array_type(vec![*n], UINT64), "perm-prf"),
    };
    let item_json = match item {
        Ok(t) => json!({"type": format!("{}", t)}),
        Err(n) => json!({"perm_n": n}),
    };
    let mk = |kindstr: &str, ki: usize, ctr: u64, msg: String| Viol {
        sig: format!("C15:{}:{}:{}", kindname, kindstr, tclass(&ty)),
        what: format!("{} with key K{} counter {}: {}", label, ki + 1, ctr, msg),
        case: json!({"part": "validity", "item": item_json, "key": ki, "counter": ctr}),
    };
    let build = || -> Result<(Context, Node, Vec<Node>), String> {
        let es = |e: ciphercore_base::errors::Error| e.to_string();
        let c = create_context().map_err(es)?;
        let g = c.create_graph().map_err(es)?;
        let k = g.input(key_type()).map_err(es)?;
        let mut nodes = vec![];
        for ctr in 0..N_COUNTERS {
            nodes.push(match item {
                Ok(t) => k.prf(ctr, t.clone()).map_err(es)?,
                Err(n) => k.permutation_from_prf(ctr, *n).map_err(es)?,
            });
        }
        Ok((c, k, nodes))
    };
    let (_c, _k, nodes) = match catch(build) {
        Ok(Ok(x)) => x,
        Ok(Err(e)) | Err(e) => {
            out.viols.push(mk("cannot-build", 0, 0, first_line(&e)));
            return out;
        }
    };
    let ks: Vec<Value> = keys().into_iter().map(Value::from_bytes).collect();
    let wide = match item {
        Ok(t) => get_size_in_bits(t.clone()).unwrap_or(0) >= 64,
        Err(n) => *n >= 64,
    };
    let mut seen: HashSet<Vec<u8>> = HashSet::new();
    // 16-byte blocks of the output streams: different (key, counter) inputs must not reuse a block
    let blockwise = match item {
        Ok(t) => matches!(t, Type::Scalar(_) | Type::Array(_, _)) && !has_padding_bits(t) && leaf_bytes(t) >= 16,
        Err(_) => false,
    };
    let mut blocks: HashSet<[u8; 16]> = HashSet::new();
    let mut ev = SimpleEvaluator::new(Some([3u8; 16])).unwrap();
    for ki in 0..ks.len() {
        for ctr in 0..N_COUNTERS {
            if let Some((oki, octr)) = only {
                if !wide && (oki != ki || octr != ctr) {
                    continue;
                }
            }
            out.calls += 1;
            let v = match eval_node(&mut ev, &nodes[ctr as usize], vec![ks[ki].clone()]) {
                Ok(v) => v,
                Err(e) => {
                    out.viols.push(mk("fails", ki, ctr, e));
                    continue;
                }
            };
            let show_it = verbose && only == Some((ki, ctr));
            match item {
                Ok(t) => {
                    if show_it {
                        println!("  observed {} ; layout valid: {}", vals::show(&v, t), vals::layout_ok(&v, t));
                    }
                    if has_padding_bits(t) {
                        out.padded += 1;
                    }
                    if !vals::layout_ok(&v, t) {
                        out.viols.push(mk("invalid-encoding", ki, ctr, format!("{} is not a valid encoding (length / unused bits)", vals::show(&v, t))));
                    }
                }
                Err(n) => {
                    if show_it {
                        println!("  observed {} ; permutation: {:?}", vals::show(&v, &ty), is_permutation(&v, *n).is_ok());
                    }
                    if let Err(e) = is_permutation(&v, *n) {
                        out.viols.push(mk("not-a-permutation", ki, ctr, e));
                    }
                }
            }
            if blockwise {
                let bytes = v.access_bytes(|b| Ok(b.to_vec())).unwrap_or_default();
                for ch in bytes.chunks_exact(16) {
                    let mut b = [0u8; 16];
                    b.copy_from_slice(ch);
                    out.blocks_checked += 1;
                    if !blocks.insert(b) && !out.viols.iter().any(|x| x.sig.contains("streams-overlap")) {
                        out.viols.push(mk(
                            "streams-overlap",
                            ki,
                            ctr,
                            "a 16-byte block of this output already occurred in this or another (key, counter) output: the streams are not unrelated".into(),
                        ));
                    }
                }
            }
            if wide {
                let mut kb = vec![];
                vals::key(&v, &mut kb);
                out.distinct_checked += 1;
                if !seen.insert(kb) {
                    out.viols.push(mk("distinct-inputs-collide", ki, ctr, "returns a value already returned for another (key, counter)".into()));
                }
            }
        }
    }
    out
}

fn validity_items() -> Vec<Result<Type, u64>> {
    let mut items: Vec<Result<Type, u64>> = validity_types().into_iter().map(Ok).collect();
    items.extend(VALIDITY_PERM_N.iter().map(|n| Err(*n)));
    items
}

/// Random / RandomPermutation nodes of a seeded evaluator: valid encodings, true permutations.
fn random_validity(rseed: u64) -> ValOut {
    let mut out = ValOut { viols: vec![], calls: 0, padded: 0, distinct_checked: 0, blocks_checked: 0 };
    let res = catch(|| -> Result<(), String> {
        let es = |e: ciphercore_base::errors::Error| e.to_string();
        let c = create_context().map_err(es)?;
        let g = c.create_graph().map_err(es)?;
        let mut ev = SimpleEvaluator::new(Some(seed_of(7, rseed))).map_err(es)?;
        for t in validity_types().iter() {
            let node = g.random(t.clone()).map_err(es)?;
            for i in 0..512u64 {
                out.calls += 1;
                let v = eval_node(&mut ev, &node, vec![])?;
                if has_padding_bits(t) {
                    out.padded += 1;
                }
                if !vals::layout_ok(&v, t) {
                    out.viols.push(Viol {
                        sig: format!("C15:random:invalid-encoding:{}", tclass(t)),
                        what: format!("Random({}) draw {} returns {}, not a valid encoding", t, i, vals::show(&v, t)),
                        case: json!({"part": "random-validity"}),
                    });
                }
            }
        }
        for n in VALIDITY_PERM_N.iter() {
            let node = g.random_permutation(*n).map_err(es)?;
            for i in 0..256u64 {
                out.calls += 1;
                let v = eval_node(&mut ev, &node, vec![])?;
                if let Err(e) = is_permutation(&v, *n) {
                    out.viols.push(Viol {
                        sig: "C15:random-permutation:not-a-permutation".to_string(),
                        what: format!("RandomPermutation({}) draw {}: {}", n, i, e),
                        case: json!({"part": "random-validity"}),
                    });
                }
            }
        }
        Ok(())
    });
    match res {
        Ok(Ok(())) => {}
        Ok(Err(e)) | Err(e) => out.viols.push(Viol {
            sig: "C15:random:fails".to_string(),
            what: format!("Random / RandomPermutation evaluation fails: {}", first_line(&e)),
            case: json!({"part": "random-validity"}),
        }),
    }
    out
}

/// PRF(key, 0, u8[n]) must be the first n bytes of the AES-CTR stream of a generator seeded with the key.
fn ctr_law(verbose: bool) -> (Vec<Viol>, u64) {
    let mut viols = vec![];
    let mut n_checked = 0;
    let res = catch(|| -> Result<(), String> {
        let es = |e: ciphercore_base::errors::Error| e.to_string();
        let c = create_context().map_err(es)?;
        let g = c.create_graph().map_err(es)?;
        let k = g.input(key_type()).map_err(es)?;
        for n in [1u64, 16, 63, 64, 65, 191, 192, 193, 447, 448, 449, 560, 959, 960, 961, 1472, 1473, 2000] {
            let t = array_type(vec![n], UINT8);
            let node = k.prf(0, t.clone()).map_err(es)?;
            for (ki, key) in keys().into_iter().enumerate() {
                let mut ev = SimpleEvaluator::new(Some([1u8; 16])).map_err(es)?;
                let v = eval_node(&mut ev, &node, vec![Value::from_bytes(key.clone())])?;
                let mut seed = [0u8; 16];
                seed.copy_from_slice(&key);
                let mut g2 = PRNG::new(Some(seed)).map_err(es)?;
                let stream = g2.get_random_bytes(n as usize).map_err(es)?;
                let got = v.access_bytes(|b| Ok(b.to_vec())).map_err(es)?;
                n_checked += 1;
                if verbose {
                    println!("  n={} key K{}: PRF bytes == generator bytes: {}", n, ki + 1, got == stream);
                }
                if got != stream {
                    let pos = got.iter().zip(stream.iter()).position(|(a, b)| a != b).unwrap_or(got.len().min(stream.len()));
                    viols.push(Viol {
                        sig: "C15:prf:counter0-differs-from-ctr-stream".to_string(),
                        what: format!(
                            "PRF(K{}, 0, u8[{}]) differs from the first {} bytes of PRNG::new(K{}) at byte {} (AES_k(0|input)|AES_k(1|input)|... with input 0 is the generator's stream)",
                            ki + 1, n, n, ki + 1, pos
                        ),
                        case: json!({"part": "ctr-law"}),
                    });
                }
            }
        }
        Ok(())
    });
    match res {
        Ok(Ok(())) => {}
        Ok(Err(e)) | Err(e) => viols.push(Viol {
            sig: "C15:prf:ctr-law-fails".to_string(),
            what: first_line(&e),
            case: json!({"part": "ctr-law"}),
        }),
    }
    (viols, n_checked)
}

fn validity_part(r: &Report) {
    let items = validity_items();
    let outs: Vec<ValOut> = items.par_iter().map(|it| validity_item(it, None, false)).collect();
    for (i, o) in outs.into_iter().enumerate() {
        r.count("evaluations", o.calls);
        r.count("validity_calls", o.calls);
        r.count("validity_values_with_padding_bits", o.padded);
        r.count("validity_distinctness_checked", o.distinct_checked);
        r.count("validity_stream_blocks_checked", o.blocks_checked);
        r.distinct(hash_bytes(format!("validity|{}", i).as_bytes()));
        for v in o.viols {
            r.violation(&v.sig, &v.what, v.case);
        }
    }
    let o = random_validity(r.seed);
    r.count("evaluations", o.calls);
    r.count("random_validity_calls", o.calls);
    r.count("validity_values_with_padding_bits", o.padded);
    for v in o.viols {
        r.violation(&v.sig, &v.what, v.case);
    }
    let (viols, n) = ctr_law(false);
    r.count("evaluations", n);
    r.count("ctr_law_cases", n);
    for v in viols {
        r.violation(&v.sig, &v.what, v.case);
    }
}

// ---------------------------------------------------------------------------------------------
// part 2b: CuckooToPermutation completes every Cuckoo table to a true permutation

/// every assignment of a number of dummy cells (0..=m) to the rows of an [rows, m] batch of Cuckoo tables (row r:
/// k_r dummy cells in front, then the values 0..m-k_r in a rotated order), x 3 evaluator seeds: every output row is
/// a permutation of 0..m that keeps the non-dummy cells
fn cuckoo_part(r: &Report) {
    use ciphercore_base::graphs::{create_context, Operation};
    let thorough = r.tier.thorough();
    let mut cases: Vec<(usize, usize, Vec<usize>)> = vec![];
    for m in 1..=(if thorough { 6usize } else { 5 }) {
        for rows in 1..=3usize {
            let total = (m + 1).pow(rows as u32);
            for code in 0..total {
                let ks: Vec<usize> = (0..rows).map(|i| (code / (m + 1).pow(i as u32)) % (m + 1)).collect();
                cases.push((m, rows, ks));
            }
        }
    }
    let rseed = r.seed;
    let outs: Vec<(u64, Option<Viol>)> = cases
        .par_iter()
        .map(|(m, rows, ks)| {
            let t = array_type(vec![*rows as u64, *m as u64], UINT64);
            // the context must stay alive as long as the node is used (nodes hold weak references)
            let built = catch(|| -> ciphercore_base::errors::Result<(ciphercore_base::graphs::Context, Node)> {
                let c = create_context()?;
                let g = c.create_graph()?;
                let x = g.input(t.clone())?;
                let n = g.add_node(vec![x], vec![], Operation::CuckooToPermutation)?;
                Ok((c, n))
            });
            let (_ctx, node) = match built {
                Ok(Ok(x)) => x,
                _ => return (0, None),
            };
            let mut elems: Vec<u128> = vec![];
            for (ri, k) in ks.iter().enumerate() {
                let live = m - k;
                for c in 0..*m {
                    if c < *k {
                        elems.push(u64::MAX as u128);
                    } else {
                        // the values 0..m, those >= live left out, rotated by the row index
                        elems.push((((c - k) + ri) % live.max(1)) as u128);
                    }
                }
            }
            let input = vals::arr_value(&elems, &UINT64);
            let mut calls = 0;
            for s in 0..3usize {
                let mut ev = match SimpleEvaluator::new(Some(seed_of(40 + s, rseed))) {
                    Ok(e) => e,
                    Err(_) => return (calls, None),
                };
                calls += 1;
                let case = json!({"part": "cuckoo", "m": m, "rows": rows, "dummies": ks, "seed_index": s});
                let bad = |kind: &str, msg: String| {
                    Some(Viol {
                        sig: format!("C15:cuckoo-to-permutation:{}", kind),
                        what: format!("CuckooToPermutation on {} tables of {} cells with {:?} dummy cells: {}", rows, m, ks, msg),
                        case: case.clone(),
                    })
                };
                let v = match eval_node(&mut ev, &node, vec![input.clone()]) {
                    Ok(v) => v,
                    Err(e) => return (calls, bad(if e.starts_with("panic") { "panics" } else { "fails" }, e)),
                };
                if !vals::layout_ok(&v, &t) {
                    return (calls, bad("invalid-encoding", "result does not have the layout of the input type".into()));
                }
                let out = vals::arr_elems(&v, &t).unwrap_or_default();
                for ri in 0..*rows {
                    let row = &out[ri * m..(ri + 1) * m];
                    let mut seen = vec![false; *m];
                    for (c, x) in row.iter().enumerate() {
                        if *x >= *m as u128 || seen[*x as usize] {
                            return (calls, bad("not-a-permutation", format!("row {} of the result is {:?}", ri, row)));
                        }
                        seen[*x as usize] = true;
                        let inp = elems[ri * m + c];
                        if inp != u64::MAX as u128 && inp != *x {
                            return (calls, bad("cell-changed", format!("row {} cell {}: table holds {}, result {}", ri, c, inp, x)));
                        }
                    }
                }
            }
            (calls, None)
        })
        .collect();
    for (calls, v) in outs {
        r.count("evaluations", calls);
        r.count("cuckoo_completion_calls", calls);
        if let Some(v) = v {
            r.violation(&v.sig, &v.what, v.case);
        }
    }
}

// ---------------------------------------------------------------------------------------------
// part 3: the PRF session's bounded sampler, all raw values of the first draw

const CONT: [u8; 8] = [7, 0, 0, 0, 0, 0, 0, 0];

struct RangeOut {
    viols: Vec<Viol>,
    calls: u64,
    rejected: u64,
    accepted: u64,
}

/// `split` > 0: the session's buffer ends after `split` bytes of the tape (the draw straddles a batch boundary)
fn u32_hook_split(tape: Vec<u8>, split: usize, m: u32) -> Result<(u32, usize), String> {
    if split == 0 || split >= tape.len() {
        return u32_hook(tape, m);
    }
    let rest = tape[split..].to_vec();
    let first = tape[..split].to_vec();
    match catch(|| verif_u32_in_range_from_split_tape(first, rest, m)) {
        Ok(Ok(x)) => Ok(x),
        Ok(Err(e)) => Err(format!("error: {}", first_line(&e.to_string()))),
        Err(p) => Err(format!("panic: {}", first_line(&p))),
    }
}

fn u32_hook(tape: Vec<u8>, m: u32) -> Result<(u32, usize), String> {
    match catch(|| verif_u32_in_range_from_tape(tape, m)) {
        Ok(Ok(x)) => Ok(x),
        Ok(Err(e)) => Err(format!("error: {}", first_line(&e.to_string()))),
        Err(p) => Err(format!("panic: {}", first_line(&p))),
    }
}

/// All 2^(8*enum_bytes) prefixes for modulus m. `range`: sub-range of the prefixes (for parallel splitting).
fn u32_range_counts(m: u32, enum_bytes: usize, lo: u64, hi: u64, nb: usize, split: usize) -> (Vec<u64>, RangeOut) {
    let mut acc = vec![0u64; m as usize];
    let mut out = RangeOut { viols: vec![], calls: 0, rejected: 0, accepted: 0 };
    let mk = |kindstr: &str, raw: u64, msg: String| Viol {
        sig: format!("C15:u32-in-range:{}{}", kindstr, if split > 0 { ":across-batch-boundary" } else { "" }),
        what: format!("generate_u32_in_range(modulus {}) on raw bytes {:?}{}: {}", m, &raw.to_le_bytes()[..enum_bytes], if split > 0 { format!(" with a batch boundary after byte {}", split) } else { String::new() }, msg),
        case: json!({"part": "u32range", "modulus": m, "enum_bytes": enum_bytes, "raw": raw, "split": split}),
    };
    for raw in lo..hi {
        let mut tape = raw.to_le_bytes()[..enum_bytes].to_vec();
        tape.extend_from_slice(&CONT);
        out.calls += 1;
        let (v, c) = match u32_hook_split(tape.clone(), split, m) {
            Ok(x) => x,
            Err(e) => {
                if out.viols.len() < 4 {
                    out.viols.push(mk("fails", raw, e));
                }
                continue;
            }
        };
        if v >= m {
            if out.viols.len() < 4 {
                out.viols.push(mk("out-of-range", raw, format!("returned {} >= modulus", v)));
            }
            continue;
        }
        if c == nb {
            acc[v as usize] += 1;
            out.accepted += 1;
        } else {
            out.rejected += 1;
            // a rejected draw must be discarded completely: the result is what the sampler returns on the rest
            let rest = tape[nb.min(tape.len())..].to_vec();
            match u32_hook(rest, m) {
                Ok((v2, c2)) => {
                    if c < nb || v2 != v || c2 + nb != c {
                        if out.viols.len() < 4 {
                            out.viols.push(mk(
                                "rejection-not-redrawn",
                                raw,
                                format!("returned {} after {} bytes, but the sampler on the tape without the first {} bytes returns {} after {} bytes", v, c, nb, v2, c2),
                            ));
                        }
                    }
                }
                Err(e) => {
                    if out.viols.len() < 4 {
                        out.viols.push(mk("fails", raw, e));
                    }
                }
            }
        }
    }
    (acc, out)
}

fn u32_range_modulus(m: u32, enum_bytes: usize, split: usize, verbose: bool) -> (RangeOut, Option<String>) {
    // bytes of one draw = what the always-accepted raw value 0 consumes
    let mut t0 = vec![0u8; enum_bytes];
    t0.extend_from_slice(&CONT);
    let nb = match u32_hook(t0, m) {
        Ok((_, c)) => c,
        Err(e) => {
            return (
                RangeOut {
                    viols: vec![Viol {
                        sig: "C15:u32-in-range:fails".into(),
                        what: format!("generate_u32_in_range(modulus {}) on a zero tape: {}", m, e),
                        case: json!({"part": "u32range", "modulus": m, "enum_bytes": enum_bytes, "raw": 0}),
                    }],
                    calls: 1,
                    rejected: 0,
                    accepted: 0,
                },
                None,
            )
        }
    };
    if nb == 0 || nb > enum_bytes {
        return (
            RangeOut { viols: vec![], calls: 1, rejected: 0, accepted: 0 },
            Some(format!("modulus {}: one draw takes {} bytes, more than the {} enumerated", m, nb, enum_bytes)),
        );
    }
    let total = 1u64 << (8 * enum_bytes);
    let (acc, mut out) = if enum_bytes <= 2 {
        u32_range_counts(m, enum_bytes, 0, total, nb, split)
    } else {
        let parts: Vec<(Vec<u64>, RangeOut)> = (0..256u64)
            .into_par_iter()
            .map(|h| u32_range_counts(m, enum_bytes, h * (total / 256), (h + 1) * (total / 256), nb, split))
            .collect();
        let mut acc = vec![0u64; m as usize];
        let mut out = RangeOut { viols: vec![], calls: 0, rejected: 0, accepted: 0 };
        for (a, o) in parts {
            for (i, x) in a.iter().enumerate() {
                acc[i] += x;
            }
            out.calls += o.calls;
            out.rejected += o.rejected;
            out.accepted += o.accepted;
            for v in o.viols {
                if out.viols.len() < 4 {
                    out.viols.push(v);
                }
            }
        }
        (acc, out)
    };
    let mn = acc.iter().copied().min().unwrap_or(0);
    let mx = acc.iter().copied().max().unwrap_or(0);
    if verbose {
        println!(
            "  modulus {}: {} bytes per draw, accepted {} rejected {}; residue counts min {} max {} (expected equal, > 0)",
            m, nb, out.accepted, out.rejected, mn, mx
        );
    }
    if mn != mx || mn == 0 {
        let imin = acc.iter().position(|x| *x == mn).unwrap_or(0);
        let imax = acc.iter().position(|x| *x == mx).unwrap_or(0);
        out.viols.push(Viol {
            sig: format!("C15:u32-in-range:biased{}", if split > 0 { ":across-batch-boundary" } else { "" }),
            what: format!(
                "generate_u32_in_range(modulus {}){}: over all {} raw values of the first draw, residue {} is returned {} times but residue {} {} times",
                m, if split > 0 { format!(" with a batch boundary after byte {} of the draw", split) } else { String::new() }, total, imin, mn, imax, mx
            ),
            case: json!({"part": "u32range", "modulus": m, "enum_bytes": enum_bytes, "split": split}),
        });
    }
    (out, None)
}

/// larger moduli: raw values around the exact acceptance bound of one draw
fn u32_range_boundary(m: u32, split: usize, verbose: bool) -> RangeOut {
    let mut out = RangeOut { viols: vec![], calls: 0, rejected: 0, accepted: 0 };
    let mut t0 = vec![0u8; 8];
    t0.extend_from_slice(&CONT);
    let nb = match u32_hook(t0, m) {
        Ok((_, c)) => c,
        Err(e) => {
            out.viols.push(Viol {
                sig: "C15:u32-in-range:fails".into(),
                what: format!("modulus {}: {}", m, e),
                case: json!({"part": "u32boundary", "modulus": m}),
            });
            return out;
        }
    };
    if nb == 0 || nb > 8 {
        return out;
    }
    let space: u128 = 1u128 << (8 * nb);
    let bound: u128 = space / m as u128 * m as u128;
    let mut raws: Vec<u128> = vec![0, 1, bound - 1, bound, bound + 1, space - 1, (m as u128) - 1, m as u128];
    raws.retain(|x| *x < space);
    raws.sort();
    raws.dedup();
    for raw in raws {
        let mut tape = (raw as u64).to_le_bytes()[..nb].to_vec();
        tape.extend_from_slice(&CONT);
        out.calls += 1;
        let exp = if raw < bound { ((raw % m as u128) as u32, nb) } else { (7 % m, 2 * nb) };
        if raw < bound {
            out.accepted += 1;
        } else {
            out.rejected += 1;
        }
        let got = u32_hook_split(tape, split, m);
        if verbose {
            println!("  modulus {} raw {} (bound {}) split {}: expected {:?} observed {:?}", m, raw, bound, split, exp, got);
        }
        if got != Ok(exp) {
            out.viols.push(Viol {
                sig: format!("C15:u32-in-range:acceptance-bound{}", if split > 0 { ":across-batch-boundary" } else { "" }),
                what: format!(
                    "generate_u32_in_range(modulus {}) on raw value {} ({} bytes per draw, exact bound {}{}): expected (value, bytes) {:?}, observed {:?}",
                    m, raw, nb, bound, if split > 0 { format!(", batch boundary after byte {}", split) } else { String::new() }, exp, got
                ),
                case: json!({"part": "u32boundary", "modulus": m, "split": split}),
            });
        }
    }
    out
}

fn u32range_part(r: &Report) {
    let outs: Vec<(RangeOut, Option<String>)> =
        (1..=256u32).into_par_iter().map(|m| u32_range_modulus(m, 2, 0, false)).collect();
    let mut all = outs;
    // the same exhaustive count with a batch boundary inside the draw (after its first byte)
    let split_outs: Vec<(RangeOut, Option<String>)> =
        (1..=256u32).into_par_iter().map(|m| u32_range_modulus(m, 2, 1, false)).collect();
    for (o, _) in split_outs.iter() {
        r.count("u32range_calls_across_batch_boundary", o.calls);
    }
    all.extend(split_outs);
    if r.tier.thorough() {
        for m in [257u32, 1000, 65535, 65536] {
            all.push(u32_range_modulus(m, 3, 0, false));
            for split in [1usize, 2] {
                let (o, c) = u32_range_modulus(m, 3, split, false);
                r.count("u32range_calls_across_batch_boundary", o.calls);
                all.push((o, c));
            }
        }
    }
    for (o, cap) in all {
        r.count("evaluations", o.calls);
        r.count("u32range_calls", o.calls);
        r.count("u32range_first_draw_rejected", o.rejected);
        r.count("u32range_first_draw_accepted", o.accepted);
        r.count("u32range_moduli", 1);
        if let Some(c) = cap {
            r.cap_hit(&c);
        }
        for v in o.viols {
            r.violation(&v.sig, &v.what, v.case);
        }
    }
    for m in [257u32, 1000, 65535, 65536, 65537, 1 << 24, (1 << 24) + 1, 1_000_000_000, 1 << 31, (1 << 31) + 1, u32::MAX] {
        for split in 0..5usize {
            let o = u32_range_boundary(m, split, false);
            r.count("evaluations", o.calls);
            r.count("u32boundary_calls", o.calls);
            r.count("u32boundary_rejected", o.rejected);
            if split > 0 {
                r.count("u32range_calls_across_batch_boundary", o.calls);
            }
            for v in o.viols {
                r.violation(&v.sig, &v.what, v.case);
            }
        }
    }
}

// ---------------------------------------------------------------------------------------------
// part 4: PRNG::get_random_in_range (64 bit) around the exact bound

fn u64_moduli() -> Vec<u64> {
    let mut ms: Vec<u64> = (1..=65536u64).collect();
    for k in 0..64u32 {
        let p = 1u64 << k;
        ms.push(p);
        ms.push(p.wrapping_sub(1));
        ms.push(p + 1);
        if k <= 62 {
            ms.push(3u64.wrapping_mul(p));
        }
    }
    ms.push(u64::MAX);
    ms.retain(|m| *m >= 1);
    ms.sort();
    ms.dedup();
    ms
}

fn u64_range_modulus(m: u64, split: usize, verbose: bool) -> RangeOut {
    let mut out = RangeOut { viols: vec![], calls: 0, rejected: 0, accepted: 0 };
    let space: u128 = 1u128 << 64;
    let bound: u128 = space / m as u128 * m as u128;
    let mut raws: Vec<u128> = vec![0, bound - 1, bound, bound + 1, space - 1];
    raws.retain(|x| *x < space);
    raws.sort();
    raws.dedup();
    for raw in raws {
        let mut tape = (raw as u64).to_le_bytes().to_vec();
        tape.extend_from_slice(&CONT);
        out.calls += 1;
        let exp: (u64, usize) = if raw < bound { ((raw % m as u128) as u64, 8) } else { (7 % m, 16) };
        if raw < bound {
            out.accepted += 1;
        } else {
            out.rejected += 1;
        }
        let got: Result<(u64, usize), String> = match catch(|| -> Result<(u64, usize), String> {
            let mut g = if split == 0 {
                PRNG::verif_from_tape(tape).map_err(|e| e.to_string())?
            } else {
                PRNG::verif_from_split_tape(tape[..split].to_vec(), tape[split..].to_vec()).map_err(|e| e.to_string())?
            };
            let v = g.get_random_in_range(Some(m)).map_err(|e| e.to_string())?;
            Ok((v, g.verif_tape_consumed()))
        }) {
            Ok(x) => x.map_err(|e| first_line(&e)),
            Err(p) => Err(format!("panic: {}", first_line(&p))),
        };
        if verbose {
            println!("  modulus {} raw {} (bound {}): expected {:?} observed {:?}", m, raw, bound, exp, got);
        }
        if got != Ok(exp) {
            out.viols.push(Viol {
                sig: format!("C15:u64-in-range:acceptance-bound{}", if split > 0 { ":across-batch-boundary" } else { "" }),
                what: format!(
                    "PRNG::get_random_in_range({}) on raw value {} (exact bound floor(2^64/m)*m = {}): expected (value, bytes consumed) {:?}, observed {:?}",
                    m, raw, bound, exp, got
                ),
                case: json!({"part": "u64range", "modulus": m.to_string(), "split": split}),
            });
        }
    }
    out
}

fn u64range_part(r: &Report) {
    let ms = u64_moduli();
    let mut outs: Vec<RangeOut> = ms.par_iter().map(|m| u64_range_modulus(*m, 0, false)).collect();
    // a batch boundary after byte 1..7 of the 8-byte draw: the power-of-two neighbourhood moduli at every split
    // position, the moduli 1..=65536 at split position 3
    let big: Vec<u64> = ms.iter().copied().filter(|m| *m > 65536).collect();
    for split in 1..8usize {
        outs.extend(big.par_iter().map(|m| u64_range_modulus(*m, split, false)).collect::<Vec<_>>());
    }
    outs.extend(ms.par_iter().filter(|m| **m <= 65536).map(|m| u64_range_modulus(*m, 3, false)).collect::<Vec<_>>());
    for o in outs {
        r.count("evaluations", o.calls);
        r.count("u64range_calls", o.calls);
        r.count("u64range_rejected", o.rejected);
        r.count("u64range_moduli", 1);
        for v in o.viols {
            r.violation(&v.sig, &v.what, v.case);
        }
    }
    // no modulus: the raw 64-bit value
    for raw in [0u64, 1, 0x0123_4567_89ab_cdef, u64::MAX] {
        let got = catch(|| -> Result<u64, String> {
            let mut g = PRNG::verif_from_tape(raw.to_le_bytes().to_vec()).map_err(|e| e.to_string())?;
            g.get_random_in_range(None).map_err(|e| e.to_string())
        });
        r.count("evaluations", 1);
        if got != Ok(Ok(raw)) {
            r.violation(
                "C15:u64-in-range:no-modulus",
                &format!("get_random_in_range(None) on raw {} returns {:?}", raw, got),
                json!({"part": "u64range", "modulus": "none"}),
            );
        }
    }
}

// ---------------------------------------------------------------------------------------------
// part 5: RandomPermutation is a bijection from the choice tuples onto the permutations

fn shuffle_n(n: u64, verbose: bool) -> (Vec<Viol>, u64) {
    let mut viols = vec![];
    let mut calls = 0u64;
    let case = json!({"part": "shuffle", "n": n});
    let res = catch(|| -> Result<(), String> {
        let es = |e: ciphercore_base::errors::Error| e.to_string();
        let c = create_context().map_err(es)?;
        let g = c.create_graph().map_err(es)?;
        let node = g.random_permutation(n).map_err(es)?;
        // The order and radices of the draws (n, n-1, .., 2 or 2, .., n) are not assumed: every draw position gets
        // every raw value in 0..n! (a multiple of every radix, so raw mod radix is uniform; all of them are far below
        // the acceptance bound). Over all (n!)^(n-1) raw tuples every permutation must occur equally often.
        let mut fact = 1u64;
        for i in 2..=n {
            fact *= i;
        }
        let draws = (n - 1) as usize;
        let total = fact.pow(draws as u32);
        let mut counts: HashMap<Vec<u64>, u64> = HashMap::new();
        for id in 0..total {
            let mut x = id;
            let mut tape = vec![];
            for _ in 0..draws {
                tape.extend_from_slice(&(x % fact).to_le_bytes());
                x /= fact;
            }
            tape.extend_from_slice(&CONT);
            let mut ev = SimpleEvaluator::verif_with_prng(PRNG::verif_from_tape(tape).map_err(es)?);
            calls += 1;
            let v = eval_node(&mut ev, &node, vec![])?;
            let p = is_permutation(&v, n)?;
            *counts.entry(p).or_insert(0) += 1;
        }
        let expect = total / fact;
        if verbose {
            println!("  n={}: {} raw tuples, {} distinct permutations (n! = {}), each expected {} times", n, total, counts.len(), fact, expect);
        }
        if counts.len() as u64 != fact || counts.values().any(|c| *c != expect) {
            let (p, c) = counts.iter().min_by_key(|(p, c)| (**c, (*p).clone())).map(|(p, c)| (p.clone(), *c)).unwrap_or((vec![], 0));
            viols.push(Viol {
                sig: "C15:random-permutation:shuffle-not-uniform".into(),
                what: format!(
                    "RandomPermutation({}): over all {} equally likely tuples of in-range draws {} distinct permutations occur (n! = {}); e.g. {:?} occurs {} times, expected {}",
                    n, total, counts.len(), fact, p, c, expect
                ),
                case: case.clone(),
            });
        }
        Ok(())
    });
    match res {
        Ok(Ok(())) => {}
        Ok(Err(e)) | Err(e) => viols.push(Viol {
            sig: "C15:random-permutation:fails".into(),
            what: format!("RandomPermutation({}) on a tape: {}", n, first_line(&e)),
            case,
        }),
    }
    (viols, calls)
}

fn shuffle_part(r: &Report) {
    // n = 4: 24^3 = 13824 tuples; n = 5: 120^4 = 207 million (too many) -> n <= 4
    for n in 1..=4u64 {
        let (viols, calls) = shuffle_n(n, false);
        r.count("evaluations", calls);
        r.count("shuffle_calls", calls);
        for v in viols {
            r.violation(&v.sig, &v.what, v.case);
        }
    }
}

// ---------------------------------------------------------------------------------------------
// part 6: value samplers on all tapes for small bit types

fn valtape_types() -> Vec<Type> {
    vec![
        scalar_type(BIT),
        array_type(vec![3], BIT),
        array_type(vec![7], BIT),
        array_type(vec![8], BIT),
        scalar_type(UINT8),
        array_type(vec![9], BIT),
        array_type(vec![12], BIT),
        array_type(vec![2, 5], BIT),
        tuple_type(vec![scalar_type(BIT), array_type(vec![3], BIT)]),
        vector_type(2, array_type(vec![2], BIT)),
    ]
}

fn leaf_bytes(t: &Type) -> usize {
    match t {
        Type::Scalar(_) | Type::Array(_, _) => ((get_size_in_bits(t.clone()).unwrap_or(0) + 7) / 8) as usize,
        _ => get_types_vector(t.clone()).map(|ts| ts.iter().map(|x| leaf_bytes(x)).sum()).unwrap_or(0),
    }
}

fn valtape_type(t: &Type, sampler: usize, split: usize, verbose: bool) -> (Vec<Viol>, u64) {
    let nbytes = leaf_bytes(t);
    let bits = get_size_in_bits(t.clone()).unwrap_or(0);
    let split = if split < nbytes { split } else { 0 };
    let sname = match (sampler, split) {
        (0, 0) => "prf-session",
        (0, _) => "prf-session:across-batch-boundary",
        (_, 0) => "prng",
        _ => "prng:across-batch-boundary",
    };
    let case = json!({"part": "valtape", "type": format!("{}", t), "sampler": sampler, "split": split});
    let mut viols: Vec<Viol> = vec![];
    let mut counts: HashMap<Vec<u8>, u64> = HashMap::new();
    let total = 1u64 << (8 * nbytes);
    for raw in 0..total {
        let tape = raw.to_le_bytes()[..nbytes].to_vec();
        let got = catch(|| -> Result<(Value, usize), String> {
            if sampler == 0 {
                if split == 0 {
                    verif_prf_value_from_tape(tape, t.clone()).map_err(|e| e.to_string())
                } else {
                    verif_prf_value_from_split_tape(tape[..split].to_vec(), tape[split..].to_vec(), t.clone()).map_err(|e| e.to_string())
                }
            } else {
                let mut g = if split == 0 {
                    PRNG::verif_from_tape(tape).map_err(|e| e.to_string())?
                } else {
                    PRNG::verif_from_split_tape(tape[..split].to_vec(), tape[split..].to_vec()).map_err(|e| e.to_string())?
                };
                let v = g.get_random_value(t.clone()).map_err(|e| e.to_string())?;
                Ok((v, g.verif_tape_consumed()))
            }
        });
        let (v, consumed) = match got {
            Ok(Ok(x)) => x,
            Ok(Err(e)) | Err(e) => {
                if viols.is_empty() {
                    viols.push(Viol {
                        sig: format!("C15:value-from-tape:{}:fails", sname),
                        what: format!("{} value sampler for {} fails: {}", sname, t, first_line(&e)),
                        case: case.clone(),
                    });
                }
                continue;
            }
        };
        if !vals::layout_ok(&v, t) && !viols.iter().any(|x| x.sig.ends_with("invalid-encoding")) {
            viols.push(Viol {
                sig: format!("C15:value-from-tape:{}:invalid-encoding", sname),
                what: format!("{} value sampler for {} on raw bytes {:?} returns {}, not a valid encoding", sname, t, &raw.to_le_bytes()[..nbytes], vals::show(&v, t)),
                case: case.clone(),
            });
        }
        if consumed != nbytes && !viols.iter().any(|x| x.sig.ends_with("draw-size")) {
            viols.push(Viol {
                sig: format!("C15:value-from-tape:{}:draw-size", sname),
                what: format!("{} value sampler for {} consumes {} bytes instead of {}", sname, t, consumed, nbytes),
                case: case.clone(),
            });
        }
        let mut kb = vec![];
        vals::key(&v, &mut kb);
        *counts.entry(kb).or_insert(0) += 1;
    }
    let expect_values = 1u64 << bits;
    let expect_each = total / expect_values;
    if verbose {
        println!(
            "  {} {}: {} tapes, {} distinct values (expected {}), counts min {:?} max {:?} (expected {})",
            sname, t, total, counts.len(), expect_values, counts.values().min(), counts.values().max(), expect_each
        );
    }
    if counts.len() as u64 != expect_values || counts.values().any(|c| *c != expect_each) {
        viols.push(Viol {
            sig: format!("C15:value-from-tape:{}:not-uniform", sname),
            what: format!(
                "{} value sampler for {}: over all {} tapes {} distinct values occur (expected {}), counts between {:?} and {:?} (expected {} each)",
                sname, t, total, counts.len(), expect_values, counts.values().min(), counts.values().max(), expect_each
            ),
            case,
        });
    }
    (viols, total)
}

fn valtape_part(r: &Report) {
    let ts = valtape_types();
    // every type with both samplers, on one buffer and with a batch boundary after the first byte of the tape
    let jobs: Vec<(usize, usize, usize)> =
        (0..ts.len()).flat_map(|i| [(i, 0usize, 0usize), (i, 1, 0), (i, 0, 1), (i, 1, 1)]).collect();
    let outs: Vec<(Vec<Viol>, u64)> = jobs.par_iter().map(|(i, s, sp)| valtape_type(&ts[*i], *s, *sp, false)).collect();
    for (viols, n) in outs {
        r.count("evaluations", n);
        r.count("valtape_tapes", n);
        for v in viols {
            r.violation(&v.sig, &v.what, v.case);
        }
    }
}

// ---------------------------------------------------------------------------------------------
// part 7: replay and stream model of the PRNG

#[derive(Clone, Debug)]
enum GenOp {
    Bytes(usize),
    Val(Type),
    InRange(Option<u64>),
}

fn gen_ops() -> Vec<GenOp> {
    vec![
        GenOp::Bytes(1),
        GenOp::Bytes(16),
        GenOp::Bytes(600),
        GenOp::Val(array_type(vec![70], UINT64)),
        GenOp::Val(tuple_type(vec![scalar_type(UINT8), scalar_type(INT32)])),
        GenOp::Val(array_type(vec![9], BIT)),
        GenOp::InRange(Some(3)),
        GenOp::InRange(Some((1u64 << 63) + 1)),
        GenOp::InRange(None),
    ]
}

#[derive(Clone, PartialEq, Debug)]
enum GenOut {
    Bytes(Vec<u8>),
    Val(Vec<u8>),
    Num(u64),
    Fail(String),
}

fn apply_op(g: &mut PRNG, op: &GenOp) -> GenOut {
    let res = catch(|| -> Result<GenOut, String> {
        Ok(match op {
            GenOp::Bytes(n) => GenOut::Bytes(g.get_random_bytes(*n).map_err(|e| e.to_string())?),
            GenOp::Val(t) => {
                let v = g.get_random_value(t.clone()).map_err(|e| e.to_string())?;
                let mut kb = vec![];
                vals::key(&v, &mut kb);
                if !vals::layout_ok(&v, t) {
                    return Err(format!("invalid encoding of {}", t));
                }
                GenOut::Val(kb)
            }
            GenOp::InRange(m) => GenOut::Num(g.get_random_in_range(*m).map_err(|e| e.to_string())?),
        })
    });
    match res {
        Ok(Ok(o)) => o,
        Ok(Err(e)) | Err(e) => GenOut::Fail(first_line(&e)),
    }
}

/// prediction of an op's output from the raw stream (None: not predicted, e.g. bit types)
fn predict(op: &GenOp, stream: &[u8], pos: &mut usize) -> Option<GenOut> {
    match op {
        GenOp::Bytes(n) => {
            let o = stream[*pos..*pos + n].to_vec();
            *pos += n;
            Some(GenOut::Bytes(o))
        }
        GenOp::Val(t) => {
            let n = leaf_bytes(t);
            let mut p = *pos;
            *pos += n;
            if has_padding_bits(t) {
                return None;
            }
            let v = vals::build_value(t, &mut |lt| {
                let k = leaf_bytes(lt);
                let b = stream[p..p + k].to_vec();
                p += k;
                Value::from_bytes(b)
            });
            let mut kb = vec![];
            vals::key(&v, &mut kb);
            Some(GenOut::Val(kb))
        }
        GenOp::InRange(m) => loop {
            let mut b = [0u8; 8];
            b.copy_from_slice(&stream[*pos..*pos + 8]);
            *pos += 8;
            let raw = u64::from_le_bytes(b);
            match m {
                None => return Some(GenOut::Num(raw)),
                Some(m) => {
                    let bound = (1u128 << 64) / *m as u128 * *m as u128;
                    if (raw as u128) < bound {
                        return Some(GenOut::Num(raw % m));
                    }
                }
            }
        },
    }
}

fn stream_case(seed: [u8; 16], seq: &[usize], verbose: bool) -> Vec<Viol> {
    let ops = gen_ops();
    let case = json!({"part": "stream", "seed": seed.to_vec(), "seq": seq});
    let mut viols = vec![];
    let mut g1 = PRNG::new(Some(seed)).unwrap();
    let mut g2 = PRNG::new(Some(seed)).unwrap();
    let mut g3 = PRNG::new(Some(seed)).unwrap();
    let stream = g3.get_random_bytes(4096).unwrap_or_default();
    let mut pos = 0usize;
    for (i, oi) in seq.iter().enumerate() {
        let op = &ops[*oi];
        let o1 = apply_op(&mut g1, op);
        let o2 = apply_op(&mut g2, op);
        if let GenOut::Fail(e) = &o1 {
            viols.push(Viol {
                sig: "C15:prng:call-fails".into(),
                what: format!("{:?} (call {} of the sequence) fails: {}", op, i, e),
                case: case.clone(),
            });
            break;
        }
        if o1 != o2 {
            viols.push(Viol {
                sig: "C15:prng:replay-differs".into(),
                what: format!("two generators created from the same seed differ at call {} ({:?}) of the same call sequence", i, op),
                case: case.clone(),
            });
        }
        let pred = predict(op, &stream, &mut pos);
        if verbose {
            let short = |o: &GenOut| -> String {
                let s = format!("{:?}", o);
                s.chars().take(90).collect()
            };
            println!("  call {} {:?}: observed {} ; predicted from the raw stream {}", i, op, short(&o1), pred.as_ref().map(short).unwrap_or("-".into()));
        }
        if let Some(p) = pred {
            if p != o1 {
                let opname = match op {
                    GenOp::Bytes(_) => "bytes",
                    GenOp::Val(_) => "value",
                    GenOp::InRange(_) => "in-range",
                };
                viols.push(Viol {
                    sig: format!("C15:prng:stream-model-mismatch:{}", opname),
                    what: format!(
                        "call {} ({:?}) of the sequence does not return what the generator's raw byte stream (one 4096-byte read from the same seed) predicts at offset {}",
                        i, op, pos
                    ),
                    case: case.clone(),
                });
            }
        }
    }
    viols
}

fn stream_part(r: &Report) {
    let nops = gen_ops().len();
    let mut seqs: Vec<Vec<usize>> = vec![];
    for len in 1..=3usize {
        let total = nops.pow(len as u32);
        for id in 0..total {
            let mut x = id;
            let mut s = vec![];
            for _ in 0..len {
                s.push(x % nops);
                x /= nops;
            }
            seqs.push(s);
        }
    }
    let seeds: Vec<[u8; 16]> = vec![[0u8; 16], [0xffu8; 16], seed_of(11, r.seed), seed_of(12, r.seed)];
    // different seeds give different streams
    let firsts: Vec<Vec<u8>> = seeds.iter().map(|s| PRNG::new(Some(*s)).unwrap().get_random_bytes(16).unwrap_or_default()).collect();
    for i in 0..firsts.len() {
        for j in (i + 1)..firsts.len() {
            if firsts[i] == firsts[j] {
                r.violation("C15:prng:seeds-collide", "two different seeds give the same first block", json!({"part": "stream-seeds"}));
            }
        }
    }
    for seed in seeds.iter() {
        let outs: Vec<Vec<Viol>> = seqs.par_iter().map(|s| stream_case(*seed, s, false)).collect();
        for (i, viols) in outs.into_iter().enumerate() {
            r.count("evaluations", 2 * seqs[i].len() as u64);
            r.count("stream_sequences", 1);
            r.count("stream_calls_predicted", seqs[i].len() as u64);
            for v in viols {
                r.violation(&v.sig, &v.what, v.case);
            }
        }
    }
}

// ---------------------------------------------------------------------------------------------

pub fn run(r: &Report) -> i32 {
    let mut times = serde_json::Map::new();
    let mut timed = |name: &str, f: &dyn Fn(&Report)| {
        let t0 = r.elapsed();
        f(r);
        times.insert(name.to_string(), json!(((r.elapsed() - t0) * 10.0).round() / 10.0));
    };
    timed("validity", &validity_part);
    timed("cuckoo", &cuckoo_part);
    timed("u32range", &u32range_part);
    timed("u64range", &u64range_part);
    timed("shuffle", &shuffle_part);
    timed("valtape", &valtape_part);
    timed("stream", &stream_part);
    timed("history", &history_part);
    r.extra("part_wall_s", J::Object(times));
    r.finish(
        "model_checking",
        "history: in-crate exhaustive exploration of the call-history tree (no state merging: a state is a history): two \
         evaluator instances x {PRF(K1|K2, 1..3, 5 types incl. u64[70]) , PermutationFromPRF(K1|K2, 1..3, n in 1,2,5,300), \
         Random(u8[3]), RandomPermutation(5)}, all histories up to depth 3; thorough adds all histories up to depth 4 over a reduced alphabet (22 calls: counters 1..2, 4 types, n in 5,300); every call checked against \
         a reference table (fresh evaluator per call); validity: 26 output types and 10 permutation sizes x counters 0..4095 x 3 \
         keys (K2, K3 differ from K1 in one bit); cuckoo: CuckooToPermutation on every [rows<=3, m<=5(6)] batch of tables with every number of dummy \
         cells per row x 3 seeds (rows are permutations keeping the non-dummy cells); u32range: every modulus 1..=256 x all 65536 raw values (thorough: 257, 1000, \
         65535, 65536 x all 2^24) through the tape hook, also with a batch boundary inside the draw (split-tape hook); u64range: moduli 1..=65536 and 2^k, 2^k+-1, 3*2^k x raw values around \
         floor(2^64/m)*m; shuffle: all (n!)^(n-1) raw tuples for n <= 4; valtape: all tapes for 10 small bit types x 2 samplers; \
         stream: all call sequences of length <= 3 over 9 generator calls x 4 seeds",
        true,
        &[
            "the reference value of a PRF call is what a fresh SimpleEvaluator returns for it (the oracle is purity, not AES correctness)",
            "the oracle for Random draws is the same seed without the interleaved PRF calls",
            "u32range: a draw's size is what the always-accepted raw value 0 consumes; rejected draws are checked to be discarded completely",
            "uniformity of PermutationFromPRF is not observable through a tape (no hook); its draws use generate_u32_in_range (checked) in the same Fisher-Yates scheme as RandomPermutation (checked for n <= 4)",
        ],
        &[
            "states",
            "transitions",
            "traces_validated_against_impl",
            "reference_pairs_compared",
            "validity_calls",
            "validity_values_with_padding_bits",
            "validity_distinctness_checked",
            "validity_stream_blocks_checked",
            "ctr_law_cases",
            "cuckoo_completion_calls",
            "u32range_calls_across_batch_boundary",
            "u32range_first_draw_rejected",
            "u32range_first_draw_accepted",
            "u32boundary_rejected",
            "u64range_rejected",
            "shuffle_calls",
            "valtape_tapes",
            "stream_calls_predicted",
        ],
    )
}

pub fn replay(r: &Report, rec: &serde_json::Value) -> i32 {
    let case = &rec["case"];
    let part = case["part"].as_str().unwrap_or("");
    let want_sig = rec["signature"].as_str().unwrap_or("");
    println!("replaying C15 case: {}", case);
    let viols: Vec<Viol> = match part {
        "history" => {
            let depth = 4;
            let w = match World::new(r.seed, depth, false) {
                Ok(w) => w,
                Err(e) => {
                    println!("MACHINERY-ERROR property=C15 cannot build world: {}", e);
                    return 2;
                }
            };
            let nc = w.calls.len();
            let mut actions = vec![];
            for a in case["actions"].as_array().cloned().unwrap_or_default() {
                let inst = a[0].as_u64().unwrap_or(0) as usize;
                let label = a[1].as_str().unwrap_or("");
                match w.calls.iter().position(|c| c.label == label) {
                    Some(ci) => actions.push(inst * nc + ci),
                    None => {
                        println!("MACHINERY-ERROR property=C15 unknown call {}", label);
                        return 2;
                    }
                }
            }
            if case.get("collide").is_some() {
                let (i, j) = (actions[0] % nc, actions[1] % nc);
                let same = w.reference[i] == w.reference[j];
                println!("  {} == {} : {}", w.calls[i].label, w.calls[j].label, same);
                if same {
                    vec![Viol { sig: want_sig.to_string(), what: "values collide".into(), case: case.clone() }]
                } else {
                    vec![]
                }
            } else {
                w.run_history(&actions, true).into_iter().collect()
            }
        }
        "validity" => {
            let item: Result<Type, u64> = if let Some(n) = case["item"]["perm_n"].as_u64() {
                Err(n)
            } else {
                let label = case["item"]["type"].as_str().unwrap_or("");
                match validity_types().into_iter().find(|t| format!("{}", t) == label) {
                    Some(t) => Ok(t),
                    None => {
                        println!("MACHINERY-ERROR property=C15 unknown type {}", label);
                        return 2;
                    }
                }
            };
            let ki = case["key"].as_u64().unwrap_or(0) as usize;
            let ctr = case["counter"].as_u64().unwrap_or(0);
            validity_item(&item, Some((ki, ctr)), true).viols
        }
        "random-validity" => random_validity(r.seed).viols,
        "ctr-law" => ctr_law(true).0,
        "u32range" => {
            let m = case["modulus"].as_u64().unwrap_or(1) as u32;
            let eb = case["enum_bytes"].as_u64().unwrap_or(2) as usize;
            u32_range_modulus(m, eb, case["split"].as_u64().unwrap_or(0) as usize, true).0.viols
        }
        "u32boundary" => u32_range_boundary(case["modulus"].as_u64().unwrap_or(1) as u32, case["split"].as_u64().unwrap_or(0) as usize, true).viols,
        "u64range" => match case["modulus"].as_str().and_then(|s| s.parse::<u64>().ok()) {
            Some(m) => u64_range_modulus(m, case["split"].as_u64().unwrap_or(0) as usize, true).viols,
            None => {
                println!("  (re-run the whole check for the no-modulus case)");
                vec![]
            }
        },
        "shuffle" => shuffle_n(case["n"].as_u64().unwrap_or(1), true).0,
        "valtape" => {
            let label = case["type"].as_str().unwrap_or("");
            let s = case["sampler"].as_u64().unwrap_or(0) as usize;
            match valtape_types().into_iter().find(|t| format!("{}", t) == label) {
                Some(t) => valtape_type(&t, s, case["split"].as_u64().unwrap_or(0) as usize, true).0,
                None => {
                    println!("MACHINERY-ERROR property=C15 unknown type {}", label);
                    return 2;
                }
            }
        }
        "stream" => {
            let mut seed = [0u8; 16];
            for (i, b) in case["seed"].as_array().cloned().unwrap_or_default().iter().enumerate().take(16) {
                seed[i] = b.as_u64().unwrap_or(0) as u8;
            }
            let seq: Vec<usize> =
                case["seq"].as_array().cloned().unwrap_or_default().iter().map(|x| x.as_u64().unwrap_or(0) as usize).collect();
            stream_case(seed, &seq, true)
        }
        _ => {
            println!("MACHINERY-ERROR property=C15 unknown replay part '{}'", part);
            return 2;
        }
    };
    for v in viols.iter() {
        println!("observed violation [{}]: {}", v.sig, v.what);
    }
    if viols.iter().any(|v| v.sig == want_sig) || (want_sig.is_empty() && !viols.is_empty()) {
        println!("REPRODUCED property=C15 signature={}", want_sig);
        1
    } else {
        println!("NOT-REPRODUCED property=C15 signature={}", want_sig);
        0
    }
}
